#!/bin/bash
# seed_run.sh <seed name> <tier> <check id>...   : applies the seeded patch to /repo, runs the checks, reverts.
set -u
NAME="$1"; TIER="$2"; shift 2
D=/verif/seeded/$NAME
if [ -n "$(git -C /repo status --porcelain)" ]; then echo "/repo is dirty, refusing"; exit 2; fi
trap 'git -C /repo checkout -q -- . ; git -C /repo clean -fdq -e .benchmarks' EXIT
git -C /repo apply $D/patch.diff || { echo "patch does not apply"; exit 2; }
for C in "$@"; do
  START=$(date +%s)
  OUT=$(cd /verif && ./check $C --tier $TIER 2>&1); RC=$?
  END=$(date +%s)
  V=$(echo "$OUT" | grep -c "^VIOLATION")
  echo "SEED $NAME check=$C tier=$TIER rc=$RC violations=$V time=$((END-START))s" | tee -a /verif/seeded/detect.log
  echo "$OUT" | grep "violation key" | head -4
  [ $RC -eq 2 ] && echo "$OUT" | tail -15
done
