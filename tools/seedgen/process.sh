#!/bin/bash
# process.sh <wave letter> <ID>... : verify each finished seed (/tmp/wt/<ID>.seed) as seeded/<ID>-<letter> and run the property's quick check
# against it in a scratch worktree (in parallel)
L="$1"; shift
cd /verif
for id in "$@"; do
  tools/seed_verify.sh /tmp/wt/$id.seed $id-$L 2>&1 | tail -1
done
for id in "$@"; do
  [ -d seeded/$id-$L ] && tools/seed_run_wt.sh $id-$L quick $id > /tmp/sr_$id$L.log 2>&1 &
done
wait
for id in "$@"; do grep -h "^SEED\|violation key" /tmp/sr_$id$L.log | cut -c1-330 | head -3; done
