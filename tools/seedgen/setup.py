#!/usr/bin/env python3
"""Prepare scratch worktrees for a wave of seed agents: /tmp/wt/<ID> (detached worktree of /repo HEAD), <ID>.property.json,
<ID>.prev.txt (mechanisms already taken by earlier seeds), PROMPT2.txt.  Agents get nothing from /verif but the property."""
import glob
import json
import os
import subprocess
import sys

ids = sys.argv[1:] or ["C%02d" % i for i in range(1, 21)]
os.makedirs("/tmp/wt", exist_ok=True)
props = {}
for l in open("/verif/properties.jsonl"):
    if l.strip():
        p = json.loads(l)
        props[p["id"]] = p
here = os.path.dirname(os.path.abspath(__file__))
open("/tmp/wt/PROMPT2.txt", "w").write(open(os.path.join(here, "PROMPT.txt")).read())
for pid in ids:
    wt = "/tmp/wt/" + pid
    if not os.path.exists(wt):
        subprocess.check_call(["git", "-C", "/repo", "worktree", "add", "--detach", "-q", wt, "HEAD"])
    json.dump(props[pid], open("/tmp/wt/%s.property.json" % pid, "w"), indent=1)
    prev = []
    for m in sorted(glob.glob("/verif/seeded/%s-*/meta.json" % pid)):
        j = json.load(open(m))
        prev.append("- %s (files: %s)" % (str(j.get("summary", ""))[:400].replace("\n", " "), j.get("files_changed")))
    open("/tmp/wt/%s.prev.txt" % pid, "w").write(
        "Earlier seeded changes for this property already exist; yours must use a DIFFERENT mechanism, in a different function "
        "(and preferably a different source file), and need a different kind of trigger. The earlier ones were:\n" + "\n".join(prev))
    os.makedirs("/tmp/wt/%s.seed" % pid, exist_ok=True)
    os.makedirs("/tmp/wt/%s.scratch" % pid, exist_ok=True)
print("prepared", ids)
