#!/bin/bash
# seed_run_wt.sh <seed name> <tier> <check id>...  : like seed_run.sh, but never touches /repo: the patch is applied to a scratch
# worktree of /repo HEAD and the checks run against it (VERIF_REPO), evidence and replays going to a scratch directory (VERIF_OUTDIR).
# Safe to run while other checks are running against /repo, and several seeds can be run at the same time.
set -u
NAME="$1"; TIER="$2"; shift 2
D=/verif/seeded/$NAME
WT=/tmp/sr/$NAME; OUTD=/tmp/sr/$NAME.out
mkdir -p /tmp/sr
git -C /repo worktree remove --force $WT 2>/dev/null; rm -rf $WT $OUTD
git -C /repo worktree add -q --detach $WT HEAD || exit 2
trap 'git -C /repo worktree remove --force $WT 2>/dev/null; rm -rf $WT $OUTD' EXIT
git -C $WT apply $D/patch.diff || { echo "SEED $NAME patch does not apply"; exit 2; }
mkdir -p $OUTD
for C in "$@"; do
  START=$(date +%s)
  OUT=$(cd /verif && VERIF_REPO=$WT VERIF_OUTDIR=$OUTD ./check $C --tier $TIER 2>&1); RC=$?
  END=$(date +%s)
  V=$(echo "$OUT" | grep -c "^VIOLATION")
  echo "SEED $NAME check=$C tier=$TIER rc=$RC violations=$V time=$((END-START))s" | tee -a /verif/seeded/detect.log
  echo "$OUT" | grep "violation key" | head -4
  [ $RC -eq 2 ] && echo "$OUT" | tail -15
done
exit 0
