#!/bin/bash
# seed_matrix_update.sh <seed>... : re-runs the given seeds (2 at a time, scratch worktrees) and replaces / adds their rows in
# seeded/RESULTS.md; rows of seeds that no longer exist are removed
cd /verif
TMP=/tmp/sr_update; rm -rf $TMP; mkdir -p $TMP
printf "%s\n" "$@" | xargs -P 2 -I{} bash -c 'n={}; p=${n%%-*}; tools/seed_run_wt.sh $n quick $p > '$TMP'/$n.log 2>&1'
python3 - "$TMP" "$@" <<'PY'
import sys, os, json, re
tmp, seeds = sys.argv[1], sys.argv[2:]
p = "/verif/seeded/RESULTS.md"
lines = open(p).read().split("\n")
head = [l for l in lines if not l.startswith("| C")]
rows = {}
for l in lines:
    if l.startswith("| C"):
        rows[l.split("|")[1].strip()] = l
for n in seeds:
    log = open(os.path.join(tmp, n + ".log")).read()
    m = re.search(r"^SEED .*$", log, re.M)
    r = m.group(0) if m else ""
    meta = json.load(open("/verif/seeded/%s/meta.json" % n))
    needs = str(meta.get("needs", ""))[:160].replace("|", "/").replace("\n", " ")
    if "does not apply" in r or not r:
        v, t = "PATCH DOES NOT APPLY to current HEAD", "-"
    else:
        rc = re.search(r"rc=(\d+)", r).group(1)
        t = re.search(r"time=(\d+s)", r).group(1)
        v = {"1": "caught", "2": "harness error"}.get(rc, "MISSED")
    rows[n] = "| %s | %s | %s | %s | %s |" % (n, n.split("-")[0], needs, v, t)
rows = {k: v for k, v in rows.items() if os.path.isdir("/verif/seeded/" + k)}
out = [l for l in head if l.strip() or True]
body = [rows[k] for k in sorted(rows)]
# keep header lines (title, blank, table header, separator) first
hdr = [l for l in head if l.startswith("#") or l.startswith("| seed") or l.startswith("|---") or l == ""][:4]
open(p, "w").write("\n".join(hdr + body) + "\n")
print(sum(1 for b in body if "| caught" in b), "caught of", len(body))
print("\n".join(b[:60] for b in body if "| caught" not in b))
PY
rm -rf $TMP
