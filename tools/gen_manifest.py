#!/usr/bin/env python3
"""Regenerates MANIFEST.json from the table below (single source of truth for what is claimed)."""
import json, os
HERE = os.path.dirname(os.path.dirname(os.path.abspath(__file__)))

CHECKS = {
 # id: (level, technique, text, note, design_ref)
 "C19": ("exploration",
         "bounded-exhaustive enumeration of all sorted interval lists/pairs over a small universe on the real functions, position-set oracle",
         "Every interval/profile primitive named by the property is executed on every sorted disjoint interval list (<=3 intervals, "
         "universe 6/8), every pair of lists, every query position, all interval lists of any length over 10/13 positions for the binary "
         "searches, all exon sets <=3 for split_exons and all isoform-pair x read-block-list combinations for the profile constructors; "
         "results are compared with Python position sets. Complete within the stated universe, silent beyond it.",
         "Trusted: the position-set reference in props/c19.py; domain restrictions listed in evidence.assumptions.",
         "DESIGN.md §3 C19"),
 "C16": ("exploration",
         "bounded-exhaustive enumeration of all spec-valid CIGAR strings (<=5/6 core ops x 16 clip frames x length deviations) and of all polyA/polyT positions on the real code, independent SAM walker cross-checked against pysam",
         "Every spec-valid CIGAR up to the bound is pushed through the real get_read_blocks and, as a real pysam record, through AlignmentInfo; "
         "exons/read blocks/cigar blocks are compared with an independent SAM walker that is itself checked against pysam on every string. "
         "Terminal-exon trimming is run on every exon list x every internal/external tail position (stubbed finder) and on ~10^5-10^6 structured "
         "reads through the real PolyAFinder, so reachability of bad position pairs is decided by execution.",
         "Trusted: the SAM walker in props/c16.py (cross-checked against pysam), pysam itself. Random long CIGARs mentioned in the property's quantifier are not sampled (technique is exhaustive enumeration only).",
         "DESIGN.md §3 C16"),
 "C15": ("model_checking",
         "explicit-state BFS over record streams (history = stream prefix) and deviation-bounded enumeration of object field values, every state executed on the real serialisers/loaders; pipeline reuse runs",
         "Every write_*/read_* pair on edge alphabets; every ReadAssignment/IsoformMatch/MatchEvent reachable from a default object by <=2 field "
         "deviations is serialised and read back by the full and the abridged reader (byte alignment asserted with a sentinel); all record streams "
         "of <=3/4 records over {3 gene infos, 3 assignments} go through the real tmp-file printer and both loaders; multimapper files with "
         "terminator; runs restarted with --read_assignments are compared file by file with the run that saved them.",
         "Trusted: field-wise state projections in props/c15.py. Negative/non-representable penalty scores are outside the domain.",
         "DESIGN.md §3 C15"),
 "C17": ("model_checking",
         "explicit-state BFS over get_id/increment call histories on the real FeatureIdStorage/ExcludingIdDistributor (state = id tables), plus pipeline fixed-point chains (output annotation fed back as reference)",
         "All call histories of length <=3/4 over 12 exon keys (2 chromosomes x 3 exons x 2 strands, 5 preloaded from reference exon_id attributes, "
         "reference ids in IsoQuant's own style) are executed on fresh real objects; in every state the returned id must be the stored string, a "
         "function of the key, injective across keys and chromosomes, and reference ids preserved. Pipeline level: multi-chromosome worlds with "
         "novel exons shared by several transcripts, run 2-3 times feeding extended_annotation.gtf back as --genedb; gene/transcript ids unique "
         "per file, novel ids never reuse a reference id for different exons, exon_id <-> (chr,start,end,strand) bijective over both GTFs.",
         "Trusted: GTF parser in vlib/run.py; state merging argument in evidence.assumptions.",
         "DESIGN.md §3 C17"),
 "C18": ("model_checking",
         "explicit-state BFS over query histories on the real IOSupport.check_sites_are_canonical / add_canonical_info_for_model (state = memo table) with a reference function of the FASTA as oracle; pipeline runs over all processing orders of opposite-strand reads",
         "All query histories of length <=2/3 over 9 intron classes (canonical +/-, GC-AG, AT-AC and their reverse forms, non-canonical, lower-case, "
         "half) x strands {+,-,.} and 16 two-intron queries are executed on a fresh GeneInfo; the answer must equal the reference function of "
         "(sequence, intron, strand) in every state. Pipeline: antisense gene pairs sharing an intron with reads of both genes in every "
         "left/right order (length 3/4), novel loci with +/-/non-canonical sites and polyA/polyT evidence under every --report_canonical level; "
         "every Canonical= flag of reads and Canonical attribute/strand of models is compared with the FASTA.",
         "Trusted: reference function in props/c18.py; for strand '.' only history-independence is required.",
         "DESIGN.md §3 C18"),
 "C08": ("model_checking",
         "exhaustive enumeration of all alignment-record multisets (<=3/4 records over a 47-record alphabet) x every permutation on the real MultimapResolver, against an independent priority/tie reference model; pipeline runs over all chromosome-length orders x memory modes",
         "Every list of 2..k alignment records of one read (assignment type x primary/secondary x chromosome x isoform/gene sets x penalties x "
         "overlap classes x exact duplicates) is resolved in every presentation order by the real resolver on real BasicReadAssignment objects; the "
         "outcome must be permutation-invariant and equal to the reference priority model (primary unique > consistent > inconsistent by penalty > "
         "unassigned; losers suspended; ties kept and flagged). Pipeline: a read with 2-3 alignments on loci built to give chosen types, all "
         "primary/secondary flag assignments, all chromosome length orders, default and --high_memory; retained loci equal across orders/modes, "
         "BED/TSV agree, the read's contribution to each count table (difference to the same world without the read) <= 1.",
         "Trusted: reference model in props/c08.py. Exact duplicates are records equal in all fields but assignment id. One known finding (tied loci counted at each locus).",
         "DESIGN.md §3 C08"),
 "C09": ("exploration",
         "bounded-exhaustive enumeration of read multisets x every iteration order of the read-group container on the real counters; pipeline runs over grouping modes x formats x group iteration orders x threads",
         "Groupers are driven over documented input classes (tag present/absent, 0-2 delimiters, table hit/miss/malformed, labels). The real gene "
         "and transcript AssignedFeatureCounter is run on every multiset of <=2/3 reads over 3 groups with the group container presented in every "
         "iteration order (the hash-seed dependent choice is owned explicitly), for every output format; matrix and linear triples must be equal "
         "and equal the expected ones. Pipeline: 4 grouping modes x formats x group iteration orders (hook on load_read_info) x threads 1/2 on a "
         "world with groups absent from a chromosome, ungroupable reads and a cross-chromosome multi-mapper; per-group sums must equal ungrouped "
         "counts and every read must be counted under its documented group.",
         "Trusted: expected-count construction in props/c09.py (worlds contain only uniquely assigned reads).",
         "DESIGN.md §3 C09"),
 "C02": ("exploration",
         "bounded-exhaustive enumeration of read-assignment multisets x 5x5 strategies x normalisations on the real counters through dump/merge/TPM files; cross-file recount on pipeline runs",
         "All multisets of <=2/3 reads over 12 assignment kinds (unique, minor difference, mono-exonic corrected alignment, mono-exonic isoform, "
         "ambiguous within/between genes, three inconsistent kinds, unassigned) split over two chromosome parts are pushed through the real "
         "create_*_counter -> dump -> merge_counts -> convert_counts_to_tpm under every gene/transcript strategy and both normalisations; the "
         "printed files are compared with the weight table of docs/cmd.md (value in {0, sum}, confirmed features never zeroed, stat lines, TPM). "
         "Pipeline level: gene/transcript/transcript_model tables of complete runs are recomputed from read_assignments.tsv, corrected BED and "
         "transcript_model_reads.tsv for every strategy pair.",
         "Trusted: the weight function transcribed from the documentation; TSV/BED parsers. Multi-locus ties are C08's subject.",
         "DESIGN.md §3 C02"),
 "C20": ("model_checking",
         "stateless exploration of all interleavings (iterative preemption bounding + state deduplication) of 2-3 simulated processes executing the real cache functions under a cooperative scheduler over a virtual file system",
         "The real set_configs_directory, convert_db/find_converted_db and store_*/find_stored_* functions run as threads that can be "
         "descheduled only inside intercepted file-system calls on the shared cache; every interleaving up to the preemption bound (quick 3; "
         "thorough 4 for 2 processes, 3 with the mapper caches, 2 for 3 processes) is executed, deduplicated on (virtual FS content, per-process observed "
         "history). Oracle on every complete schedule: no process fails, no read observes a file another process has open for writing, the "
         "database a process ends up with was converted from its own GTF, the final cache files are valid JSON.",
         "Trusted: the visibility model of the virtual FS (truncate-at-open, publish-at-close, atomic replace) and the two-step stub of "
         "gffutils.create_db. Index/BED/alignment caches are only reachable at function level (no minimap2).",
         "DESIGN.md §3 C20"),
 "C06": ("model_checking",
         "exhaustive enumeration of worker schedules (all set partitions of the chromosome tasks of both pool stages) under a virtual process pool, plus memory-mode/keep_tmp/repetition variants and explicit read-group set orders; every schedule is a complete pipeline execution compared byte-for-byte with the threads=1 run",
         "src.dataset_processor.ProcessPoolExecutor is replaced at run time by a deterministic pool that executes each block of a partition in one "
         "forked worker; all Bell(n)^2 stage-1 x stage-2 partitions (n=3 quick: 25, n=4 thorough: 225) are run on a multi-chromosome world with read "
         "groups, multi-mappers, novel transcripts and a reference that already carries IsoQuant-style ids; outputs (all files outside aux/) must be "
         "byte-identical to the threads=1 base after dropping the command-line header. Set iteration order is owned by an AST import hook (PERMSET): every hash-order-dependent set that is iterated is a choice point, all single deviations from the sorted order are run (53 choice points, 267 runs on the quick world). PYTHONHASHSEED is additionally swept through the real CLI "
         "(8/48 seeds) as supporting, non-exhaustive evidence.",
         "Trusted: equivalence of sequential block execution with concurrent workers (no shared memory, disjoint files). Set orders are explored up to one deviation per run; sets created inside third-party libraries are not rewritten.",
         "DESIGN.md §3 C06"),
 "C10": ("model_checking",
         "explicit enumeration of all experiment sequences (histories) up to length 2/3 over a 3-experiment menu x threads {1, virtual pool} x {yaml, list} x grouping; differential oracle against stand-alone runs",
         "Each joint invocation is a complete pipeline execution; for every experiment in every position of every ordering all its output files "
         "must equal (byte-wise, header dropped) those of the stand-alone run of that experiment, and the combined_* tables must contain exactly "
         "the per-experiment columns. The state of the search is the history of experiments already processed by the process.",
         "Trusted: tree comparison in vlib/run.py; stand-alone runs use --prefix <experiment>.",
         "DESIGN.md §3 C10"),
 "C12": ("exploration",
         "bounded-exhaustive enumeration of annotation representations x cache states and of all assignments of read classes to <=2/3 BAM files x file orders; each case is a complete pipeline run compared with the single-GTF single-BAM run",
         "Annotation given as .gtf, .gtf.gz or prebuilt .db, with and without --complete_genedb, on a fresh HOME, with the conversion already cached, "
         "and with a cache entry made stale by mtime: all outputs must be byte-identical to the reference run. Reads are grouped in 4 locus classes "
         "(so that a file can lack a whole locus another file covers); every map of classes to <=2 (quick) / <=3 (thorough) files in every file "
         "order is run; read assignments, corrected BED and ungrouped gene/transcript count and TPM tables must be equal as multisets of lines.",
         "Trusted: tree comparison; the BAM writer (pysam).",
         "DESIGN.md §3 C12"),
 "C05": ("exploration",
         "bounded-exhaustive enumeration of all alignment clusters (<=3/4 alignments on a coordinate grid) through the real region splitter and both alignment storages at scaled constants; pipeline runs of coverage families at real constants",
         "Every cluster of <=3 (quick) / <=4 (thorough) alignments with start <=20/24 and length in {2,5,9,18} that forms one cluster is pushed "
         "through the real split_coverage_regions, InMemoryAlignmentStorage and BAMAlignmentStorage (fetch with htslib overlap semantics) under "
         "three scaled constant sets: regions must tile the cluster and every alignment must be returned for some region by both storages. At "
         "real constants, pipeline runs of single-bin pile-ups (>=1024 reads), >32 kb loci with coverage valleys at every offset around a bin "
         "boundary, long sparse loci of 127..258 bins with short reads in the last bin, with and without annotation, default and --high_memory: "
         "reported read ids == input reads passing the documented filters, no identical records, log statistics == per-flag record counts.",
         "Trusted: scaled constants preserve behaviour (constants used only in comparisons and one division); fake BAM fetch semantics.",
         "DESIGN.md §3 C05"),
 "C07": ("fault_enumeration",
         "exhaustive enumeration of crash points: every file-system mutation call of the pipeline (before/after variants), double crashes, resume with another thread count; each crash state is produced by killing the real run and then resumed by the real --resume",
         "A crash injector wraps open-for-write, remove, rename/replace, makedirs and gffutils.create_db in the doomed process; for each of the "
         "85-182 mutation points of 2 (quick) / 5 (thorough) worlds and both variants the run is killed with os._exit (buffers lost), --resume is "
         "run, and exit status plus every final output file are compared with an uninterrupted run (itself checked to be reproducible). Two-worker crash states of a --threads 2 run (each chromosome task of a pool stage not started / finished / killed at any of its own mutation points, all pairs, both stages) are enumerated under the virtual pool. Thorough "
         "adds second crashes inside the resumed run and resumes with --threads 2. Crash points before .params is saved are reported as out of scope.",
         "Trusted: kill model (process death, OS-level data kept, no power-loss reordering); sqlite writes of gffutils are one mutation.",
         "DESIGN.md §3 C07"),
 "C01": ("exploration",
         "bounded-exhaustive, deviation-bounded enumeration: annotations from an exon-lattice grammar x every read derivable from an isoform by <=1/2 deviations x 4 presets, plus negative reads; each (annotation, preset) is a complete pipeline run; independent structural-compatibility reference model",
         "Annotations: 1-2 genes, <=3 isoforms over 4/5 exon slots (exon skipping, alternative first/last exons and boundaries, 3-5 bp alternative "
         "splice sites, mono-exonic isoform, antisense/neighbour/other-chromosome second gene), both strands. Reads: exact copy of an isoform plus "
         "every combination of <=1 (quick) / <=2 (thorough) deviations out of 5'/3' truncation to any exon at two offsets, jitter of any splice "
         "site by +-1/+-delta, 3-bp insertion/deletion in any exon, polyA tail, reverse flag; negative reads (skipped exon, novel exon, retained "
         "intron, site moved 90 bp, end extended 450 bp) kept only when far from every isoform. For every read: assignment type consistent, "
         "reported isoforms within the compatible set, T reported for untruncated full-length reads, unique when only T is compatible; negatives "
         "never consistent. Thorough: 2.7 million positive reads.",
         "Trusted: the compatibility model in props/c01.py (validated by its own agreement with the code on all cases). Lattice keeps every "
         "boundary out of the bands between delta and the heuristic thresholds (see evidence.assumptions).",
         "DESIGN.md §3 C01"),
 "C13": ("exploration",
         "bounded-exhaustive enumeration of read structures (all exon-slot subsets, mono-exonic reads in exons/introns, disjoint clusters) over annotations with overlapping/contained/shared features x presets x grouping; recount oracle on pipeline output",
         "Annotation variants with an overlapping exon (alternative donor +100), a contained exon, nested introns, exons shared by two genes and by "
         "an antisense gene; reads = every subset of the exon slots with exact boundaries plus mono-exonic reads inside an exon and inside "
         "introns, in one cluster, two clusters, or several disjoint clusters of the same gene; delta 0 and 6; with and without read_id groups. "
         "Every annotated exon and intron is recounted from the alignments (include = matching block/junction within delta, exclude = spanned "
         "without matching); rows must be unique and carry the annotation's coordinates, strand and gene list; grouped rows must sum to the "
         "ungrouped ones and match the per-group recount.",
         "Trusted: recount in props/c13.py; near-threshold overlaps are not decided.",
         "DESIGN.md §3 C13"),
 "C03": ("exploration",
         "bounded-exhaustive enumeration of read-mixture scenarios (sub-multisets of 14 read structures x coverage levels) x construction strategies x annotation on/off x reporting options x split-locus variants; GTF well-formedness and reference-verbatim invariants on every pipeline run",
         "Scenarios: all combinations of <=2 (quick) / <=3 (thorough) structures out of known full-length, truncated, novel-in-catalog, novel exon "
         "(canonical / non-canonical), bulge, tip, mono-exonic, antisense, novel gene, alternative polyA, each at coverage 1/3/12, under 3/8 "
         "construction strategies, with and without annotation, --report_canonical levels, and with region-splitting constants scaled so that one "
         "gene is processed in several regions. Every transcript of transcript_models.gtf and extended_annotation.gtf is validated: >=1 exon, "
         "sorted disjoint exons inside the chromosome, transcript record spans its exons and is unique, gene record unique/same chromosome and "
         "strand/contains its transcripts, reference ids carry exactly the reference structure, extended = reference + exactly the novel models.",
         "Trusted: GTF parser; chromosome lengths from the world definition.",
         "DESIGN.md §3 C03/C04"),
 "C04": ("exploration",
         "same bounded-exhaustive MIX scenario space as C03; evidence/label/non-redundancy invariants on every pipeline run",
         "For every novel transcript of every run: each intron occurs in the corrected alignment (BED) of some read of the chromosome, >=1 "
         "supporting read in transcript_model_reads (which mentions only printed transcripts), strand + or -, .nic exactly when all introns are "
         "annotated, intron chain different from every reference chain and from every other novel chain on the strand; annotation-free runs "
         "contain only novel transcripts in novel_gene_* genes.",
         "Trusted: GTF/BED parsers; 'annotated intron' = exact coordinates of a reference intron.",
         "DESIGN.md §3 C03/C04"),
 "C14": ("exploration",
         "deviation-bounded enumeration of noisy reads (<=1/2 edits from a 35-item noise menu) x 6 correction strategies x 2 presets through the pipeline; exhaustive enumeration of short-read intron subsets through the real IlluminaExonCorrector",
         "Reads derived from a 7-exon isoform (with a 30-bp micro-exon and a 40-bp micro-intron) by junction jitter within/beyond delta, skipped "
         "micro-exon, fake terminal exons, intron shifts, retained micro-intron, indels next to junctions, misplaced terminal exons and "
         "truncation; every corrected_reads.bed record must be valid BED12, keep start/end unless the strategy has a terminal-exon correction, "
         "use only the read's own splice sites, sites of the assigned isoform, or annotated sites within tolerance, and equal the input under "
         "strategy none. Short-read corrector: all subsets of <=3/5 out of 17 short-read introns (around the constants 4/25/50) x 5 exon lists.",
         "Trusted: BED parser; tolerance for moved sites = max(delta, 60) or membership in an assigned isoform.",
         "DESIGN.md §3 C14"),
 "C11": ("exploration",
         "bounded-exhaustive enumeration of base scenarios (C01 lattice annotations with all single-deviation reads; noise-free MIX scenarios) x transformations (shifts k in {1,7,255,256,257,1000}, reflection); metamorphic equality of two complete pipeline runs after the inverse transform",
         "For every (scenario, transformation) the pipeline is run on the base input and on the transformed input (k bases inserted at every "
         "chromosome start, or genome reverse-complemented with annotation and alignments mirrored); read assignments (type, isoform and gene "
         "set, strand, event names), corrected BED, gene/transcript count tables and, for noise-free scenarios, transcript models (strand + exon "
         "chain) and their counts must be equal after mapping coordinates/strands back. The base always contains an alignment starting at base 1 "
         "of a chromosome.",
         "Trusted: coordinate/strand inverse transforms and event-name normalisation in props/c11.py. Loci stay below the splitting thresholds. "
         "One known finding (polyT head 2 bases outside the alignment).",
         "DESIGN.md §3 C11"),
}

NOT_YET = {}

# what was added to a check after its first description was written (appended to the level text)
ADDED = {
 "C01": " Negative reads also carry one tolerated deviation next to the structural contradiction (terminal overhang, truncation, jitter, "
        "whole-intron shift within delta).",
 "C03": " The reference additionally contains 1-bp internal/terminal exons, a transcript starting at base 1 and one ending at the last base; "
        "structures Y0/Y1 (annotated intron collapsed into a novel one 12 bp away).",
 "C04": " Structures Y0/Y1: a novel acceptor between delta and the intron-graph clustering distance next to thin annotated coverage.",
 "C05": " L4: every subset of {reported primary, supplementary, filtered secondary, filtered MAPQ-0 primary} placed on two unannotated "
        "chromosomes x memory mode x threads: reported read set, log statistics and the __not_aligned line are recounted.",
 "C06": " Four option configurations (annotated with all extra outputs, annotation-free, pacbio with all quantification modes, split loci "
        "at scaled region constants), each with schedules, modes, group orders and PERMSET; thorough adds all pairs of set-order reversals.",
 "C07": " Nine option worlds: plain, read-group table (+keep_tmp), gz reference + check_canonical, count_exons + sqanti, annotation-free, "
        "two experiments from one YAML, high_memory + count_exons, gz GTF with all quantification modes.",
 "C09": " file_name mode: every pattern of presence/absence of three loci (two on one chromosome) in 2/3 BAM files x memory mode.",
 "C10": " Menu {A,B,C,D,E,F}: D/F consist of two files (with / without labels), E has no polyA tails; nanopore and pacbio_ccs.",
 "C11": " Further base scenarios: reads with spurious terminal exons, C14's noise family under every splice-correction strategy, C13's "
        "annotation grammar with --count_exons (exon/intron tables mirrored), the multi-chromosome mixed world with multimappers.",
 "C12": " The GTF is also written Ensembl-style ('-' exons descending, CDS/codon/UTR records, extra attributes) and with scrambled records.",
 "C13": " Annotation grammar: every subset of <=2/3 of 7 isoform shapes x 5 second-gene kinds, plus intron-less loci.",
 "C14": " Noise menu includes an aligned (trimmed) polyA block; every pipeline run is repeated on the reverse-complemented world.",
 "C15": " The stream alphabet contains gene infos with identical coordinates but different genes (nested gene).",
 "C17": " Annotation chains also over histories of different read sets (the extended annotation of one read set is the reference for the next).",
 "C18": " Pipeline worlds with an intron annotated on both strands used by a novel isoform (both annotation orders, also reverse-complemented).",
 "C20": " File handles are bound to file objects (rename-while-open keeps writing into the renamed file); flush, fileno, fsync and directory "
        "handles are modelled.",
}

ADDED2 = {
 "C01": "Explicit --delta presets; TSS-inside-intron topologies; full-length reads must report T unless an equally close isoform is full-length too.",
 "C02": "L3: the recount is repeated on MIX, C13-grammar and mixed worlds; same-chromosome multi-mappers with a per-read total-weight oracle; ids starting with an underscore.",
 "C05": "L5: MAPQ filter matrix (5 alignment kinds x 9 MAPQ values x 9 option sets).",
 "C08": "Family same3: two alignments on one chromosome plus one elsewhere, with an expected-retained-set oracle.",
 "C09": "Integer-typed tags, documented column options of file: grouping, partition oracle on an all-types world under strategy pairs.",
 "C10": "Experiments with duplicated records, with reads of the last chromosome only, feature ids NA/null/nan.",
 "C11": "Boundary world (reads adjacent to / touching one base of a gene); structures I1/I2/MA.",
 "C13": "Retained secondary alignments; explicit --delta presets with shifted junctions.",
 "C16": "Every structured read is also trimmed with hard clips outside the soft clips (invariance).",
 "C18": "Islands worlds (read window vs gene, region at base 1), mixed world, tie loci, --polya_requirement never.",
 "C19": "truncate_read_to_polya on exon border positions.",
 "C20": "Temporary directory owned; scenario reconvert-in-place-vs-hit.",
}

ADDED3 = {
 "C01": "Deviation polya-aligned (tail aligned as a terminal block, both strands).",
 "C02": "Two-experiment YAML recount including the __not_aligned line.",
 "C03": "Annotated gene ids sorting after novel_gene_ (annotated=3), structures J1/NC/MA/H3/W2/LQ, explicit --report_canonical auto.",
 "C04": "Structure LQ (model rejected by the late MAPQ filter); GTF and model-reads table must agree.",
 "C06": "Soft-masked reference stretch with reads whose junctions are displaced by 3/4 bp.",
 "C07": "Double crashes including the first mutation points of the resumed run, also in the quick tier.",
 "C09": "Read ids shared between the files of one experiment (all subsets of 4 ids x file order); non-ASCII tag values.",
 "C10": "Experiment-name collisions in list and YAML syntax.",
 "C12": "Record-level BAM split (secondary records in another file), equal-span primary/secondary records, part files with equal base names.",
 "C13": "Multi-cluster runs over the annotation grammar x second-gene kinds.",
 "C14": "Annotation with two introns within delta of each other (3-bp alternative acceptor); tiny terminal blocks; part C: annotation-free runs with --illumina_bam (1-3 short-read files x 3 intron sets) compared with the corrector on the complete intron set.",
 "C15": "History of three restarts from the same saved assignments; table-group and two-BAM reuse worlds; non-ASCII strings.",
 "C16": "Upstream-extension invariance of the tail detector.",
 "C17": "Chromosome names containing the separators of the id scheme (distributor and pipeline chain).",
 "C18": "Strand votes: all 256 dinucleotide pairs x tail evidence, all ordered pairs of 17 site classes.",
 "C19": "Isoform profiles through GeneInfo.from_models/from_model/database constructor with delta>0; overlaps_at_least predicates.",
 "C20": "Scenarios other-annotation-into-cached-folder and bed-export-from-cached-db (real find_annotation), completeness flag of conversions.",
}

ADDED4 = {
 "C01": "Negative kind alt-terminal-same-length (known finding).",
 "C02": "__no_feature of the transcript-model table recounted from transcript_model_reads.",
 "C04": "Structure D1 (known chain with a distal unannotated polyA site).",
 "C05": "L1 alphabet includes one-base alignments, strict tiling of sub-regions.",
 "C07": "World w10 (fresh run in a folder holding an earlier kept run); crash variant torn (the file opened at the crash point keeps half of its content).",
 "C08": "MAPQ-0 twins of the same3 scenarios.",
 "C09": "Multi-character read_id delimiter; group columns of grouped TPM tables.",
 "C10": "Experiments sharing input files under other labels, numeric YAML labels, experiment names occurring in output file suffixes.",
 "C12": "Part files with reversed @SQ order; placed unmapped record in the split world.",
 "C13": "Second gene whose exons coincide with introns of the first; near-duplicate features (known finding).",
 "C14": "A read intron never vanishes from inside the corrected alignment; strategy none with --illumina_bam (known finding).",
 "C17": "Read-set histories whose per-chromosome id reservations differ.",
 "C18": "Majority world (2:1 splice-site vote against the annotated gene's strand); 45-kb locus split into sub-regions.",
 "C20": "Editor actor replacing an input file; real db2bed and create_index under the scheduler; scenarios bed-rewrite-vs-cached-reader, gtf-rewritten-during-conversion, index-clean-start-vs-cached, index-two-fresh.",
}

ADDED5 = {
 "C01": "Annotation nested-two-clusters (gene nested in the host's last intron, reads forming two clusters).",
 "C03": "MIX structures C3 (unannotated third chromosome), E1 (models with 1-bp exons), X3 (a known isoform supported by two full-length paths), B9 (bulge with a 9-bp exon).",
 "C04": "Structures B9 and E1.",
 "C05": "MAPQ matrix kinds intronic, near (+bridging read), inter3a / near3a (aligned polyA tail exon).",
 "C07": "w10's earlier run uses another release of the annotation under the same file name; group name with a leading blank in the table worlds.",
 "C09": "Four-field file: option.",
 "C10": "Joint runs of 3 and 5 (thorough: 6, 7) experiments.",
 "C13": "long-locus world at the real constants (known finding).",
 "C14": "A terminal move is allowed only through the correction that applies to the read's deviation.",
 "C16": "Exact expectation for external tail positions found in the soft clip.",
 "C17": "A known isoform supported by two full-length paths.",
 "C18": "undecided_sites_world (antisense novel isoforms decided by polyT only).",
 "C20": "O_EXCL and blocking waits with livelock detection; scenarios failing-run-vs-valid, bed-of-replaced-db, reference-replaced-during-indexing; conversion entered through convert_gtf_to_db.",
}


ADDED6 = {
 "C02": "Grouped counts and grouped TPM of three isoforms sharing a chain (groups made of shared reads only); world variant 2 (multi-mapped read tied over two loci; known finding).",
 "C04": "Structure IP (unspliced polyA cluster inside an exon of a novel spliced model).",
 "C05": "World bridge-lowq (low-MAPQ inconsistent read spanning the cut of a cluster; known finding).",
 "C06": "Loci with equal coordinates and opposite splice-site strands on two chromosomes.",
 "C07": "Worlds w11 (stale folder with another assembly's unpacked reference) and w12 (restart from saved assignments next to the traces of an interrupted restart); w7 in the quick tier.",
 "C08": "Level L1b (resolver records made from full ReadAssignment objects by constructor and abridged stream reader, all penalty pairs); two placements of a read on one gene (known finding); reused-folder mode.",
 "C09": "One shared read per group in the shared-chain worlds.",
 "C11": "World ends (terminal offsets of the third supporting read of a novel isoform, 7x7 lattice, both strands); SEQ-less staggered secondary record.",
 "C14": "Part B: sites moved by the short-read corrector stay within its tolerance.",
 "C15": "Reuse worlds two-bams-auto (automatic file-name grouping) and two-experiments (restart with two save prefixes).",
 "C16": "Second CIGAR walker of the anchors (concat_gapless_blocks + correct_bam_coords) on every CIGAR string pysam accepts; accepted aligned tails must be A/T-rich up to the read end.",
 "C17": "Novel unspliced transcripts in the pipeline world.",
 "C18": "Islands variant 5 (non-canonical annotated intron outside the reads).",
 "C20": "Alignment cache through the real map_reads and remove_previous_run_locks (glob interposed).",
}


ADDED7 = {
 "C01": "Negative kinds intron-moved-down/up; annotation genomic-a-run (known finding).",
 "C02": "Recount in a reused output folder.",
 "C03": "Annotation in shuffled record order.",
 "C06": "Configuration two-files (two BAM files, automatic file-name grouping).",
 "C07": "World w13 (stale folder with another read-group table's split files).",
 "C08": "Pickled resolver records as a third route of L1b.",
 "C11": "Worlds knownends (annotated ends in every list order), mmtie (primary / secondary alignment of unassigned reads), ends with two tail clusters.",
 "C12": "Cache mode reused-folder; shuffled style compared with the plain reference.",
 "C14": "Second gene whose isoforms share the introns inside the reads and differ upstream.",
 "C15": "Block loaders of the pipeline stages in the stream search; reuse world two-experiments-mixed.",
 "C18": "Locus with a non-canonical intron next to canonical ones; the documented meaning of only_canonical.",
 "C19": "Exon-from-junction helpers at every position incl. the -1 sentinel.",
 "C20": "Real align_fasta over stand-ins for minimap2 / samtools sort / samtools index (BAM and .bai); scenarios alignment-two-files-vs-one, alignment-other-options, reads-replaced-during-alignment, star-gtf-two-databases-same-mtime, star-gtf-rewrite-vs-cached-reader.",
}


ADDED8 = {
 "C02": "Grouped tables under different gene and transcript strategies.",
 "C03": "Structure K5 (known isoform whose reads start deep inside the first exon).",
 "C04": "Hand-built annotation shapes (unspliced reference transcript first in its gene).",
 "C05": "L1 histories: two clusters through one storage object.",
 "C06": "Variant rerun (same command line again into the folder of the first run).",
 "C09": "Files of an experiment sharing their base name.",
 "C11": "Function-level mirror levels L0: thread_ends/thread_starts, collect_terminal_positions, cluster_polya_positions, cluster_monoexons, cluster_introns, simplify, verify_polya/verify_polyt, compare_junctions, penalty order.",
 "C12": "Flag-history case (partly incomplete annotation, both --complete_genedb values under one HOME).",
 "C14": "Extended CIGAR strings (= / X); gene with a 5-bp annotated intron.",
 "C15": "Reference window of reloaded gene infos (loaders get a chromosome record).",
 "C16": "Removed terminal exons lie beyond the tail or are mostly tail.",
 "C17": "Several experiments in one invocation.",
 "C20": "Level shared-files: two complete runs on the real file system, shared files are never rewritten in place.",
}

ADDED9 = {
 "C01": "Annotation with a 30-bp last-but-one exon (polyA two exons before the end).",
 "C02": "Discarded-model worlds (rare exon-skipping reads plus partial reads); feature ids starting with '__' or '#'.",
 "C03": "Reference transcript with touching exon records.",
 "C05": "Two experiments in one invocation (ordered pairs of record placements).",
 "C06": "Reads with BAM tags, configurations with --bam_tags.",
 "C08": "L1 records of the second chromosome in a cluster of another extent.",
 "C10": "Reference with ids of an earlier IsoQuant run.",
 "C11": "Reads with aligned polyT head and aligned polyA tail at once.",
 "C12": "Partly incomplete annotation in three representations; BAM files whose headers list one sequence each.",
 "C14": "Annotated introns inside another isoform's terminal exons.",
 "C15": "Strings of up to 80 thousand characters.",
 "C17": "exon_id attributes on CDS / UTR records; reference ids naming another chromosome.",
 "C20": "Borrowed-conversion histories on the real file system (kill, owner replaces or removes the folder, resume).",
}

ADDED10 = {
 "C01": "Negative reads with two extra terminal exons; A-rich short terminal exon.",
 "C03": "Reference sequence names equal under case-insensitive natural ordering; MIX structure PH.",
 "C06": "Configuration two-experiments.",
 "C07": "World w14 (inputs through symbolic links).",
 "C09": "Groupers built through the option parser.",
 "C10": "Gene with a non-canonical annotated intron.",
 "C11": "L0 isoform profiles (triples of isoforms vs mirror image).",
 "C12": "Reads whose secondary record wins.",
 "C13": "Equal intron chains with truncated / extended terminal blocks.",
 "C14": "Short reads with deletions next to junctions.",
 "C15": "Every list length up to 300 and around 2^16.",
 "C16": "Level D: the tail window scan against its definition over every string over {A, C}.",
 "C20": "SCHED-FS mode fai (reference index: fresh, three runs, stale index).",
}


def main():
    props = [json.loads(l) for l in open(os.path.join(HERE, "properties.jsonl"))]
    checks = []
    na = []
    for p in props:
        pid = p["id"]
        if pid in CHECKS:
            level, tech, text, note, ref = CHECKS[pid]
            text = text + ADDED.get(pid, "") + (" " + ADDED2[pid] if pid in ADDED2 else "") + (" " + ADDED3[pid] if pid in ADDED3 else "") + (" " + ADDED4[pid] if pid in ADDED4 else "") + (" " + ADDED5[pid] if pid in ADDED5 else "") + (" " + ADDED6[pid] if pid in ADDED6 else "") + (" " + ADDED7[pid] if pid in ADDED7 else "") + (" " + ADDED8[pid] if pid in ADDED8 else "") + (" " + ADDED9[pid] if pid in ADDED9 else "") + (" " + ADDED10[pid] if pid in ADDED10 else "")
            checks.append({
                "property_id": pid,
                "quick_cmd": "./check %s --tier quick" % pid,
                "thorough_cmd": "./check %s --tier thorough" % pid,
                "evidence_file": "/verif/evidence/%s.json" % pid,
                "replay_cmd_template": "./check %s --replay {path}" % pid,
                "engine": "explorer",
                "level_claimed": {"category": level, "text": text, "design_ref": ref},
                "level_note": note,
                "technique": tech,
            })
        else:
            na.append({"property_id": pid, "reason": NOT_YET.get(pid, "check not built yet in this session (planned in DESIGN.md); not claimed until its check exists")})
    man = {
        "version": 1,
        "setup_cmd": "cd /verif && chmod +x check && /venv/bin/python -c 'import pysam, gffutils, pyfaidx' && mkdir -p evidence replays",
        "hooks": {
            "guard": "ABLAB_ISOQUANT_VERIF",
            "enable": "no source hooks: all interception (process pool, file system, set order, crash points) is done by the harness at run time by patching module attributes of /repo's working tree",
            "baseline_off_cmd": "cd /repo && /venv/bin/python -m pytest -ra -q -p no:cacheprovider --timeout=900 --continue-on-collection-errors",
            "source_commits": [],
            "add_only": True,
        },
        "engines": [
            {"name": "explorer", "path": "/verif/vlib", "serves_properties": sorted(CHECKS),
             "kind_free_text": "hand-written bounded-exhaustive explorers over the real IsoQuant code (enumerators, history BFS, virtual pool, virtual FS scheduler, crash injector); see DESIGN.md §2"},
        ],
        "checks": checks,
        "notes": "All checks import IsoQuant from /repo's working tree at run time. Known findings: /verif/known_findings.json.",
        "not_applicable": na,
    }
    json.dump(man, open(os.path.join(HERE, "MANIFEST.json"), "w"), indent=1)
    print("checks:", [c["property_id"] for c in checks], "not claimed:", len(na))

if __name__ == "__main__":
    main()
