#!/bin/bash
# seed_verify.sh <src-dir with patch.diff demo.py meta.json> <dest name>
# Confirms: patch applies to /repo HEAD, test suite still 386 passed with it, demo exits 0 on clean and 1 on mutant.
set -u
SRC="$1"; NAME="$2"
SV=/tmp/sv; mkdir -p $SV
CLEAN=$SV/clean_$NAME; MUT=$SV/mut_$NAME
cleanup() { git -C /repo worktree remove --force $CLEAN 2>/dev/null; git -C /repo worktree remove --force $MUT 2>/dev/null; rm -rf $CLEAN $MUT; }
cleanup
git -C /repo worktree add -q --detach $CLEAN HEAD || exit 2
git -C /repo worktree add -q --detach $MUT HEAD || exit 2
if ! git -C $MUT apply "$SRC/patch.diff" 2>/dev/null; then
  if ! git -C $MUT apply --3way "$SRC/patch.diff"; then echo "RESULT $NAME: patch does not apply"; cleanup; exit 1; fi
  git -C $MUT reset -q
fi
git -C $MUT diff > $SV/$NAME.patch
echo "files: $(git -C $MUT diff --stat | tail -1)"
T=$(cd $MUT && /venv/bin/python -m pytest -q -p no:cacheprovider --timeout=900 tests 2>&1 | tail -1)
echo "tests: $T"
( cd $SV && timeout 900 /venv/bin/python "$SRC/demo.py" $CLEAN > $SV/$NAME.clean.log 2>&1 ); C=$?
( cd $SV && timeout 900 /venv/bin/python "$SRC/demo.py" $MUT > $SV/$NAME.mut.log 2>&1 ); M=$?
echo "demo clean exit=$C mutant exit=$M"
OK=no
if echo "$T" | grep -q "386 passed" && [ $C -eq 0 ] && [ $M -eq 1 ]; then OK=yes; fi
echo "RESULT $NAME: $OK"
if [ $OK = yes ]; then
  D=/verif/seeded/$NAME; mkdir -p $D
  cp $SV/$NAME.patch $D/patch.diff; cp "$SRC/demo.py" $D/demo.py
  python3 - "$SRC/meta.json" "$D/meta.json" "$T" $C $M <<'PY'
import json,sys
try: m=json.load(open(sys.argv[1]))
except Exception as e: m={"meta_error":str(e)}
m["verified_by_main"]={"tests":sys.argv[3],"demo_clean_exit":int(sys.argv[4]),"demo_mutant_exit":int(sys.argv[5]),
  "how":"tools/seed_verify.sh: fresh worktrees of /repo HEAD, patch applied, pytest, demo on both"}
json.dump(m,open(sys.argv[2],"w"),indent=1)
PY
else
  tail -5 $SV/$NAME.clean.log; echo ---; tail -5 $SV/$NAME.mut.log
fi
cleanup
