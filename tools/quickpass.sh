#!/bin/bash
cd /verif
for seed in 1 2 0; do
  for i in 01 02 03 04 05 06 07 08 09 10 11 12 13 14 15 16 17 18 19 20; do
    out=$(VERIF_SEED=$seed ./check C$i --tier quick 2>&1); rc=$?
    echo "seed=$seed C$i rc=$rc $(echo "$out" | grep -c '^VIOLATION') $(echo "$out" | tail -1 | cut -c1-120)"
    [ $rc -ne 0 ] && echo "$out" | grep "violation key\|HARNESS" | head -5 | cut -c1-400
  done
done
