#!/bin/bash
# thorough tier of every check, one after the other; evidence copies go to evidence/thorough/
cd /verif
mkdir -p evidence/thorough
for i in 01 02 03 04 05 06 07 08 09 10 11 12 13 14 15 16 17 18 19 20; do
  t0=$(date +%s)
  out=$(./check C$i --tier thorough 2>&1); rc=$?
  echo "C$i rc=$rc $(( $(date +%s) - t0 ))s $(echo "$out" | grep -c '^VIOLATION') $(echo "$out" | tail -1 | cut -c1-100)"
  [ $rc -ne 0 ] && echo "$out" | grep "violation key\|HARNESS\|Traceback" | head -8 | cut -c1-500
  cp evidence/C$i.json evidence/thorough/C$i.json 2>/dev/null
done
