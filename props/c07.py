"""C07 — resuming an interrupted run yields the outputs of an uninterrupted run.

For every file-system mutation point i of the pipeline (both variants: before the call / after the call) the run is
killed there (os._exit: buffers lost, OS-level data kept), then continued with --resume; the resumed run must exit 0 and
every final output file must equal the uninterrupted run's.  Worlds: one chromosome; two chromosomes with a read-group
table and unmapped reads; the same with --keep_tmp; gzipped reference.  Thorough: double crashes (the resumed run is
killed at each of its own mutation points and resumed again) and resume with another --threads value.
"""
import os
import pickle
import shutil

from vlib import core

LEVEL = "fault_enumeration"


def world(name):
    from vlib import worlds as W
    if name == "w1":
        w = W.mixed_world(1, groups=False, multimappers=False)
        return w, []
    w = W.mixed_world(2, groups=True, multimappers=True)
    w["reads"].append({"name": "unm_2", "unmapped": True})
    extra = []
    if name in ("w2", "w3"):
        extra = ["--read_group", "file:TABLE"]
    if name == "w3":
        extra += ["--keep_tmp"]
    if name == "w4":
        extra = ["--check_canonical"]
    if name == "w5":
        extra = ["--count_exons", "--sqanti_output"]
    if name == "w6":
        extra = ["NO_GENEDB", "--read_group", "read_id:_"]                      # annotation-free run
    if name == "w7":
        extra = ["YAML2"]                                                      # two experiments from one YAML file
    if name == "w8":
        extra = ["--high_memory", "--read_group", "read_id:_", "--count_exons"]
    if name == "w9":
        extra = ["GZ_GTF", "--transcript_quantification", "all", "--gene_quantification", "all"]   # gzipped GTF converted by the run itself
    if name == "w10":
        # the output folder holds a COMPLETE earlier run made with other options and --keep_tmp (its saved assignments and lock files are
        # there); the run that is interrupted and resumed is a fresh start (--force) with default options in that folder
        extra = ["STALE"]
    if name == "w13":
        # the stale-folder world with read groups from a table: the earlier run split ANOTHER table (other group names)
        extra = ["STALE", "--read_group", "file:TABLE"]
    if name == "w12":
        # a run restarted from the saved assignments of a --keep_tmp run (--read_assignments); next to those saves lie the traces of
        # ANOTHER restart from them that was killed right after it had finished its first chromosome
        extra = ["RESTART"]
    if name == "w14":
        # two BAM files given through symbolic links whose targets have other base names (libA.bam -> data/run1.sorted.bam): the groups
        # of the automatic file-name grouping are named after the paths on the command line, in the resumed run as well
        extra = ["LINKS"]
    if name == "w11":
        # the stale-folder world with a gzipped reference (unpacked into the output folder by the run): the earlier run worked on
        # another assembly whose file has the same name
        extra = ["STALE", "ALTREF", "--check_canonical"]
    return w, extra


def build_template(name, d):
    from vlib import syn
    w, extra = world(name)
    paths = syn.materialise(w, d, gz_ref=(name in ("w4", "w11")))
    if "file:TABLE" in extra:
        tbl = os.path.join(d, "groups.tsv")
        with open(tbl, "w") as f:
            for r in w["reads"]:
                if not r.get("unmapped") and "_" in r["name"]:
                    # one of the group names starts with a blank (tables split at ", " and the like): names are kept as they are
                    g = r["name"].split("_")[-1]
                    f.write("%s\t%s\n" % (r["name"], " " + g if g == "gA" else g))
        extra = [x if x != "file:TABLE" else "file:" + tbl for x in extra]
        if "STALE" in extra:
            with open(os.path.join(d, "groups_old.tsv"), "w") as f:
                for r in w["reads"]:
                    if not r.get("unmapped"):
                        f.write("%s\told%d\n" % (r["name"], len(r["name"]) % 2))
    if "YAML2" in extra:
        # experiment E1 = reads of chr1, E2 = reads of chr2 + the unmapped ones
        seqs = syn.genome_sequences(w)
        r1 = [r for r in w["reads"] if r.get("chr") == "chr1"]
        r2 = [r for r in w["reads"] if r.get("chr") != "chr1"]
        names2 = set(r["name"] for r in r2)
        r1 = [r for r in r1 if r["name"] not in names2]        # records of one read stay in one experiment
        # E1 has one file, E2 two (its reads alternate between them): only E2 is grouped by file name automatically
        names2s = sorted(names2)
        half = set(names2s[::2])
        syn.write_bam(w, os.path.join(d, "e1.bam"), reads=r1, seqs=seqs)
        syn.write_bam(w, os.path.join(d, "e2.bam"), reads=[r for r in r2 if r["name"] in half], seqs=seqs)
        syn.write_bam(w, os.path.join(d, "e2b.bam"), reads=[r for r in r2 if r["name"] not in half], seqs=seqs)
        import yaml
        with open(os.path.join(d, "in.yaml"), "w") as f:
            yaml.safe_dump([{"data format": "bam"}, {"name": "E1", "long read files": ["e1.bam"]},
                            {"name": "E2", "long read files": ["e2.bam", "e2b.bam"]}], f)
    if "LINKS" in extra:
        seqs = syn.genome_sequences(w)
        names = sorted(set(r["name"] for r in w["reads"]))
        half = set(names[::2])
        os.makedirs(os.path.join(d, "data"), exist_ok=True)
        for lib, run_, sel in (("libA", "run1.sorted", True), ("libB", "run2.sorted", False)):
            syn.write_bam(w, os.path.join(d, "data", run_ + ".bam"), reads=[r for r in w["reads"] if (r["name"] in half) == sel], seqs=seqs)
            os.symlink(os.path.join("data", run_ + ".bam"), os.path.join(d, lib + ".bam"))
            os.symlink(os.path.join("data", run_ + ".bam.bai"), os.path.join(d, lib + ".bam.bai"))
    if "STALE" in extra:
        # the earlier run in the same folder worked on other reads (every second record-name): its saved assignments are not this run's
        seqs = syn.genome_sequences(w)
        names = sorted(set(r["name"] for r in w["reads"]))
        keep = set(names[::2])
        syn.write_bam(w, os.path.join(d, "reads_a.bam"), reads=[r for r in w["reads"] if r["name"] in keep], seqs=seqs)
        # ... and with another annotation of the same file name (an older release in another folder: the second isoform of every gene is
        # missing), so the database it left in the output folder has the name the new run's database will get
        os.makedirs(os.path.join(d, "alt"), exist_ok=True)
        w_alt = dict(w, genes=[dict(g, transcripts=g["transcripts"][:1]) for g in w["genes"]])
        syn.write_gtf(w_alt, os.path.join(d, "alt", "annot.gtf"))
    if "RESTART" in extra:
        from vlib import run, crash
        home = os.path.join(d, "home")
        a0 = argv_for(d, ["--keep_tmp"])
        a0[1] = os.path.join(d, "out0")
        if run.run_isoquant(a0, home, os.path.join(d, "saving.txt")) != 0:
            raise core.HarnessError("the saving run of world %s failed" % name)
        a1 = argv_for(d, extra)
        a1[1] = os.path.join(d, "out1")
        norm = crash.make_normaliser(d, list(w["chroms"]))
        rec = os.path.join(d, "pre.rec")
        run.run_isoquant(a1, home, os.path.join(d, "pre.txt"), pre_hook=lambda: crash.Injector(0, "none", rec, norm).install())
        pts, _ = crash.read_record(rec)
        first = next(i for i, l in pts if l.startswith("open-w:") and l.split("#")[0].endswith("_processed"))
        os.remove(rec)
        shutil.rmtree(os.path.join(d, "out1"))
        rc = run.run_isoquant(a1, home, os.path.join(d, "pre.txt"), pre_hook=lambda: crash.Injector(first, "after", rec, norm).install())
        if rc != 137:
            raise core.HarnessError("the interrupted restart of world %s ended with %d" % (name, rc))
        shutil.rmtree(os.path.join(d, "out1"))
        for f in ("pre.rec", "pre.txt", "saving.txt"):
            os.remove(os.path.join(d, f))
    if "ALTREF" in extra:
        # the other assembly: same sequence names and lengths, no splice-site dinucleotides anywhere (A -> C, T -> G)
        import gzip
        os.makedirs(os.path.join(d, "alt"), exist_ok=True)
        with gzip.open(os.path.join(d, "ref.fa.gz"), "rt") as fi, gzip.open(os.path.join(d, "alt", "ref.fa.gz"), "wt") as fo:
            for line in fi:
                fo.write(line if line.startswith(">") else line.replace("A", "C").replace("T", "G").replace("a", "c").replace("t", "g"))
    if "GZ_GTF" in extra:
        import gzip
        with open(os.path.join(d, "annot.gtf"), "rb") as fi, gzip.open(os.path.join(d, "annot.gtf.gz"), "wb") as fo:
            fo.write(fi.read())
    return w, paths, extra


def fresh_copy(template, dest):
    shutil.rmtree(dest, ignore_errors=True)
    shutil.copytree(template, dest, symlinks=True)


def argv_for(d, extra, threads=1):
    ref = os.path.join(d, "ref.fa.gz") if os.path.exists(os.path.join(d, "ref.fa.gz")) else os.path.join(d, "ref.fa")
    extra = [x.replace("TEMPLATE_DIR", d) for x in extra]
    flags = set(x for x in extra if x in ("NO_GENEDB", "YAML2", "GZ_GTF", "STALE", "ALTREF", "RESTART", "LINKS"))
    extra = [x for x in extra if x not in flags]
    inp = ["--yaml", os.path.join(d, "in.yaml")] if "YAML2" in flags else ["--bam", os.path.join(d, "reads.bam")]
    if "LINKS" in flags:
        inp = ["--bam", os.path.join(d, "libA.bam"), os.path.join(d, "libB.bam")]
    if "RESTART" in flags:
        inp = ["--read_assignments", os.path.join(d, "out0", "OUT", "aux", "OUT.save")]
    if "NO_GENEDB" in flags:
        gdb = []
    elif "GZ_GTF" in flags:
        gdb = ["--genedb", os.path.join(d, "annot.gtf.gz")]
    else:
        gdb = ["--genedb", os.path.join(d, "annot.gtf"), "--complete_genedb"]
    return ["--output", os.path.join(d, "out"), "--reference", ref] + inp + ["--data_type", "nanopore",
            "--prefix", "OUT", "--threads", str(threads)] + gdb + extra + (["--force"] if "STALE" in flags else [])


def earlier_argv(d, extra):
    """the complete earlier run of the stale-folder world: other reads, other options, intermediate files kept"""
    a = argv_for(d, [x for x in extra if x != "STALE"] + ["--keep_tmp", "--transcript_quantification", "all", "--gene_quantification", "all"] +
                 ([] if "--read_group" in extra else ["--read_group", "read_id:_"]))
    a = [x.replace("groups.tsv", "groups_old.tsv") if x.startswith("file:") else x for x in a]
    sub = {os.path.join(d, "reads.bam"): os.path.join(d, "reads_a.bam"), os.path.join(d, "annot.gtf"): os.path.join(d, "alt", "annot.gtf")}
    if "ALTREF" in extra:
        sub[os.path.join(d, "ref.fa.gz")] = os.path.join(d, "alt", "ref.fa.gz")
    return [sub.get(x, x) for x in a]


def out_tree(d):
    """final output files of a run: <out>/OUT, or every experiment folder (and the combined tables) of a multi-experiment run"""
    from vlib import run
    root = os.path.join(d, "out")
    if os.path.isdir(os.path.join(root, "OUT")):
        return run.read_tree(os.path.join(root, "OUT"))
    t = run.read_tree(root)
    return {k: v for k, v in t.items() if os.sep in k or k.startswith("combined_")}


def params_ok(d):
    p = os.path.join(d, "out", ".params")
    if not os.path.exists(p):
        return False
    try:
        pickle.Unpickler(open(p, "rb"), fix_imports=False).load()
        return True
    except Exception:
        return False


def crash_case(args):
    """runs: doomed(points[0]) -> [resume doomed(points[1]) ...] -> final resume; returns (labels, status, detail)"""
    wname, crashes, resume_threads, scratch, wid, t0, chroms = args
    from vlib import run, crash
    template = os.path.join(scratch, "tmpl_" + wname)
    d = os.path.join(scratch, "case_%s_%d" % (wname, wid))
    fresh_copy(template, d)
    extra = [l.rstrip("\n") for l in open(os.path.join(template, "EXTRA"))]
    extra = [x.replace(template, d) for x in extra]
    norm = crash.make_normaliser(d, chroms)
    labels = []
    argv = argv_for(d, extra)
    if "STALE" in extra:
        rc = run.run_isoquant(earlier_argv(d, extra), os.path.join(d, "home"), os.path.join(d, "stale.txt"))
        if rc != 0:
            raise core.HarnessError("the earlier run of the stale-folder world failed: %s" % open(os.path.join(d, "stale.txt")).read()[-300:])
    stale_params = open(os.path.join(d, "out", ".params"), "rb").read() if "STALE" in extra else None
    for k, (idx, variant) in enumerate(crashes):
        rec = os.path.join(d, "crash%d.rec" % k)
        inj_args = (idx, variant, rec, norm)

        def hook(inj_args=inj_args):
            inj = crash.Injector(*inj_args)
            inj.install()
        a = argv if k == 0 else ["--resume", "--output", os.path.join(d, "out")]
        rc = run.run_isoquant(a, os.path.join(d, "home"), os.path.join(d, "doomed%d.txt" % k), pre_hook=hook)
        pts, died = crash.read_record(rec)
        if rc != 137 or died is None:
            # the run finished (or failed by itself) before reaching point idx
            shutil.rmtree(d, ignore_errors=True)
            return labels, "unreached", "run %d ended with %d before mutation point %d (%d points seen)" % (k, rc, idx, len(pts)), len(pts)
        lab = next(l for i, l in pts if i == idx)
        occ = sum(1 for i, l in pts if l == lab and i <= idx)
        labels.append("%s:%s#%d" % (variant, lab, occ))
        if k == 0 and (not params_ok(d) or (stale_params is not None and open(os.path.join(d, "out", ".params"), "rb").read() == stale_params)):
            shutil.rmtree(d, ignore_errors=True)
            return labels, "out-of-scope", "parameters were not saved yet", len(pts)
    a = ["--resume", "--output", os.path.join(d, "out")] + (["--threads", str(resume_threads)] if resume_threads else [])
    rc = run.run_isoquant(a, os.path.join(d, "home"), os.path.join(d, "resume.txt"))
    status, detail = "ok", ""
    if rc != 0:
        txt = open(os.path.join(d, "resume.txt")).read()
        import re
        m = re.findall(r"(\w+(?:Error|Exception)[^\n]*)", txt)
        status, detail = "resume-failed", "resumed run exit %d: %s" % (rc, (m[-1] if m else txt[-200:])[:200])
        if os.environ.get("VERIF_C07_KEEP"):
            shutil.copytree(d, os.path.join(os.environ["VERIF_C07_KEEP"], "fail_%s_%d_%d" % (wname, wid, os.getpid())), dirs_exist_ok=True)
    else:
        t1 = out_tree(d)
        diffs = []
        for kf in sorted(set(t0) | set(t1)):
            if kf not in t1:
                diffs.append("%s missing" % kf)
            elif kf not in t0:
                diffs.append("%s extra" % kf)
            elif t0[kf] != t1[kf]:
                l0, l1 = t0[kf].split(b"\n"), t1[kf].split(b"\n")
                i = next((i for i, (x, y) in enumerate(zip(l0, l1)) if x != y), min(len(l0), len(l1)))
                diffs.append("%s line %d: %r vs %r" % (kf, i, (l0[i] if i < len(l0) else b"")[:60], (l1[i] if i < len(l1) else b"")[:60]))
        if diffs:
            status, detail = "wrong-output", "resumed run exit 0 but %d file(s) differ: %s" % (len(diffs), "; ".join(diffs[:3]))
    shutil.rmtree(d, ignore_errors=True)
    return labels, status, detail, 0


def worker_discover(wname, scratch):
    """mutation points of every pool task (stage, task) in a --threads 2 run under the virtual pool"""
    from vlib import run, crash, vpool
    template = os.path.join(scratch, "tmpl_" + wname)
    d = os.path.join(scratch, "case_%s_wdisc" % wname)
    fresh_copy(template, d)
    extra = [l.rstrip("\n").replace(template, d) for l in open(os.path.join(template, "EXTRA"))]
    w, _ = world(wname)
    norm = crash.make_normaliser(d, list(w["chroms"]))

    def hook():
        def task_hook(stage, i):
            crash.Injector(0, "none", os.path.join(d, "task_%d_%d.rec" % (stage, i)), norm).install()
        vpool.install(None, task_hook=task_hook)
    rc = run.run_isoquant(argv_for(d, extra, threads=2), os.path.join(d, "home"), os.path.join(d, "ref.txt"), pre_hook=hook)
    if rc != 0:
        raise core.HarnessError("threads=2 reference run of %s failed" % wname)
    counts = {}
    for f in os.listdir(d):
        if f.startswith("task_") and f.endswith(".rec"):
            _, st, ti = f[:-4].split("_")
            counts[(int(st), int(ti))] = len(crash.read_record(os.path.join(d, f))[0])
    shutil.rmtree(d, ignore_errors=True)
    return counts


def two_worker_case(args):
    """kill of a --threads 2 run: in pool stage `stage`, task k is in state specs[k]:
       'skip' (not started), None (finished) or (mutation index, variant)"""
    wname, stage, specs, scratch, wid, t0, chroms = args
    from vlib import run, crash, vpool
    template = os.path.join(scratch, "tmpl_" + wname)
    d = os.path.join(scratch, "case_%s_w%d" % (wname, wid))
    fresh_copy(template, d)
    extra = [l.rstrip("\n").replace(template, d) for l in open(os.path.join(template, "EXTRA"))]
    norm = crash.make_normaliser(d, chroms)

    def hook():
        def task_hook(st, i):
            if st != stage:
                return None
            sp = specs[i]
            if sp == "skip":
                return "skip"
            if sp is None:
                return None
            crash.Injector(sp[0], sp[1], os.path.join(d, "task_%d.rec" % i), norm).install()
            return None
        vpool.install(None, task_hook=task_hook, kill_main_after_stage=stage)
    rc = run.run_isoquant(argv_for(d, extra, threads=2), os.path.join(d, "home"), os.path.join(d, "doomed.txt"), pre_hook=hook)
    label = "stage%d:%s" % (stage, "|".join("skip" if sp == "skip" else ("done" if sp is None else "%s@%d" % (sp[1], sp[0])) for sp in specs))
    if rc != 137:
        shutil.rmtree(d, ignore_errors=True)
        return label, "unreached", "doomed run ended with %d" % rc
    labs = []
    for i, sp in enumerate(specs):
        if isinstance(sp, tuple):
            pts, died = crash.read_record(os.path.join(d, "task_%d.rec" % i))
            if died is None:
                shutil.rmtree(d, ignore_errors=True)
                return label, "unreached", "task %d never reached mutation %d" % (i, sp[0])
            labs.append(next(l for k, l in pts if k == sp[0]))
    rc = run.run_isoquant(["--resume", "--output", os.path.join(d, "out")], os.path.join(d, "home"), os.path.join(d, "resume.txt"))
    status, detail = "ok", ""
    if rc != 0:
        import re
        txt = open(os.path.join(d, "resume.txt")).read()
        m = re.findall(r"(\w+(?:Error|Exception)[^\n]*)", txt)
        status, detail = "resume-failed", "resumed run exit %d: %s" % (rc, (m[-1] if m else txt[-200:])[:200])
    else:
        t1 = out_tree(d)
        diffs = [k for k in sorted(set(t0) | set(t1)) if t0.get(k) != t1.get(k)]
        if diffs:
            status, detail = "wrong-output", "resumed run exit 0 but %d file(s) differ: %s" % (len(diffs), "; ".join(diffs[:3]))
    shutil.rmtree(d, ignore_errors=True)
    return label + " " + ",".join(labs), status, detail


def discover(wname, scratch, resume_after=None):
    """reference (uninterrupted) run in a fresh copy; returns (tree, number of mutation points, labels)"""
    from vlib import run, crash
    template = os.path.join(scratch, "tmpl_" + wname)
    d = os.path.join(scratch, "case_%s_disc" % wname)
    fresh_copy(template, d)
    extra = [l.rstrip("\n").replace(template, d) for l in open(os.path.join(template, "EXTRA"))]
    w, _ = world(wname)
    norm = crash.make_normaliser(d, list(w["chroms"]))
    rec = os.path.join(d, "disc.rec")

    def hook():
        crash.Injector(0, "none", rec, norm).install()

    def earlier(dd, ex):
        # the stale-folder world: the reference is the uninterrupted run in a folder that holds the same earlier run
        if "STALE" in ex:
            rc_ = run.run_isoquant(earlier_argv(dd, ex), os.path.join(dd, "home"), os.path.join(dd, "stale.txt"))
            if rc_ != 0:
                raise core.HarnessError("the earlier run of the stale-folder world failed")
    earlier(d, extra)
    rc = run.run_isoquant(argv_for(d, extra), os.path.join(d, "home"), os.path.join(d, "ref.txt"), pre_hook=hook)
    if rc != 0:
        raise core.HarnessError("reference run of %s failed: %s" % (wname, open(os.path.join(d, "ref.txt")).read()[-400:]))
    pts, _ = crash.read_record(rec)
    t0 = out_tree(d)
    # a second uninterrupted run in another fresh copy must give the same tree (determinism of the oracle itself)
    d2 = os.path.join(scratch, "case_%s_disc2" % wname)
    fresh_copy(template, d2)
    extra2 = [l.rstrip("\n").replace(template, d2) for l in open(os.path.join(template, "EXTRA"))]
    earlier(d2, extra2)
    rc = run.run_isoquant(argv_for(d2, extra2), os.path.join(d2, "home"), os.path.join(d2, "ref.txt"))
    t0b = out_tree(d2)
    if rc != 0 or t0b != t0:
        raise core.HarnessError("two uninterrupted runs of %s differ: the oracle is not deterministic" % wname)
    shutil.rmtree(d, ignore_errors=True)
    shutil.rmtree(d2, ignore_errors=True)
    return t0, pts, list(w["chroms"])


def classify(label):
    """structural key of a crash point: variant + operation + file role (chromosome / occurrence removed)"""
    import re
    lab = label.split("#")[0]
    lab = re.sub(r"<root>/", "", lab)
    return lab


def phase_of(label):
    """pipeline phase of a crash label (structural, derived from the file the mutation touches)"""
    lab = label
    if "/aux/" in lab:
        if "_collected" in lab or "_groups" in lab or "_bamstat" in lab or lab.split("#")[0].endswith(".save_<chr>") \
                or "read_group" in lab:
            return "collect"
        if "multimappers" in lab or "_info" in lab or "_lock" in lab or "_alignment_stat" in lab:
            return "resolve"
        if "_processed" in lab or "_stat" in lab:
            return "process"
        return "aux"
    if "OUT_<chr>." in lab:
        return "process-or-merge" if not lab.split(":")[1].startswith("remove") else "merge"
    if "/out/OUT/OUT." in lab:
        return "merge"
    if ".fai" in lab or "home" in lab or ".db" in lab or "create_db" in lab or "ref.fa" in lab:
        return "setup"
    return "other"


def signature(status, detail):
    import re
    if status == "resume-failed":
        m = re.search(r"(\w+(?:Error|Exception))", detail)
        exc = m.group(1) if m else "exit"
        f = re.search(r"OUT[._][^'\s]*", detail)
        fn = re.sub(r"chr\d+", "<chr>", f.group(0)) if f else ""
        return "%s:%s" % (exc, fn)
    m = re.search(r"differ: (\S+)", detail)
    return m.group(1) if m else "diff"


def run(ctx):
    quick = ctx.tier == "quick"
    worlds_ = ["w1", "w2", "w3", "w7", "w10", "w11", "w12", "w13", "w14"] if quick else ["w1", "w2", "w3", "w4", "w5", "w6", "w7", "w8", "w9", "w10", "w11", "w12", "w13", "w14"]
    if os.environ.get("VERIF_C07_WORLDS"):
        worlds_ = os.environ["VERIF_C07_WORLDS"].split(",")      # development aid: restrict the worlds
    total = 0
    in_scope = 0
    classes = {}
    statuses = {}
    samples = []
    for wname in worlds_:
        template = os.path.join(ctx.scratch, "tmpl_" + wname)
        w, paths, extra = build_template(wname, template)
        with open(os.path.join(template, "EXTRA"), "w") as f:
            for x in extra:
                f.write(x + "\n")
        t0, pts, chroms = discover(wname, ctx.scratch)
        n = len(pts)
        ctx.note("%s: %d mutation points in an uninterrupted run" % (wname, n))
        jobs = []
        wid = 0
        for i in range(1, n + 1):
            for variant in ("before", "after"):
                if quick and wname == "w3" and not (variant == "after" and phase_of("x:" + pts[i - 1][1]) in ("merge", "process-or-merge", "process")):
                    continue        # quick tier: the --keep_tmp world only in the phases where keeping intermediate files matters
                if quick and wname == "w7" and (variant == "before" or i % 6):
                    continue        # quick tier: the two-experiment world at every sixth mutation point
                if quick and wname == "w14" and (variant == "before" or phase_of("x:" + pts[i - 1][1]) not in ("collect",)):
                    continue        # quick tier: the linked-inputs world while reads are collected (the group names are fixed there)
                if wname in ("w10", "w11", "w13") and (variant == "before" or (quick and i > 16)):
                    continue        # the stale-folder world: the window is the start of the run (until the old state is cleaned)
                jobs.append((wname, [(i, variant)], None, ctx.scratch, wid, t0, chroms))
                wid += 1
        if wname == "w1" or (not quick and wname in ("w2", "w5", "w6")):
            # torn files: the run is killed while a file it has opened for writing holds only the first half of its content
            for i in range(1, n + 1):
                if pts[i - 1][1].startswith("open-"):
                    jobs.append((wname, [(i, "torn")], None, ctx.scratch, wid, t0, chroms))
                    wid += 1
        if not quick and wname == "w2":
            for i in range(1, n + 1, 3):
                jobs.append((wname, [(i, "after")], 2, ctx.scratch, wid, t0, chroms))
                wid += 1
        ctx.rng.shuffle(jobs)
        # give each concurrently running case its own directory: wid is unique
        results = core.pmap(crash_case, jobs)
        second = []
        for job, (labels, status, detail, npts) in zip(jobs, results):
            total += 1
            if status in ("unreached", "out-of-scope"):
                statuses[status] = statuses.get(status, 0) + 1
                continue
            in_scope += 1
            statuses[status] = statuses.get(status, 0) + 1
            if len(samples) < 4:
                samples.append({"world": wname, "crash": labels, "result": status})
            if status != "ok":
                key = "%s:%s:%s" % (status, phase_of(labels[-1]), signature(status, detail))
                classes.setdefault(key, []).append(labels[-1])
                ctx.violation(key, "world %s, killed %s, then --resume%s: %s" % (wname, labels, " --threads %d" % job[2] if job[2] else "", detail),
                              {"world": wname, "crashes": job[1], "resume_threads": job[2], "labels": labels})
        # double crashes (thorough, world w1): kill, resume, kill the resumed run at each of ITS mutation points, resume again
        if wname == "w1":
            jobs2 = []
            step = 7
            for i in (range(2, n + 1, step) if not quick else (n // 2,)):
                # mutation points of the resumed run are discovered by running it once with a huge target; its first points (the
                # parameters are saved again, configuration files are touched) with both variants, later ones every second
                for j in (list(range(1, 8)) + list(range(9, 60, 2)) if not quick else range(1, 8)):
                    for variant in (("after", "before") if j < 8 else ("after",)):
                        jobs2.append((wname, [(i, "after"), (j, variant)], None, ctx.scratch, wid, t0, chroms))
                        wid += 1
            for job, (labels, status, detail, npts) in zip(jobs2, core.pmap(crash_case, jobs2)):
                total += 1
                if status in ("unreached", "out-of-scope"):
                    statuses[status] = statuses.get(status, 0) + 1
                    continue
                in_scope += 1
                statuses["double:" + status] = statuses.get("double:" + status, 0) + 1
                if status != "ok":
                    key = "double:%s:%s:%s" % (status, phase_of(labels[-1]), signature(status, detail))
                    classes.setdefault(key, []).append("+".join(labels))
                    ctx.violation(key, "world %s, killed %s, resumed, killed again, resumed: %s" % (wname, labels, detail),
                                  {"world": wname, "crashes": job[1], "labels": labels})
        # two-worker crash states: a kill of a --threads 2 run leaves each of the two chromosome tasks of a pool stage at one of
        # its own mutation points (or not started / finished); all pairs are enumerated for both stages (world w2)
        if wname == "w2":
            counts = worker_discover(wname, ctx.scratch)
            jobs3 = []
            for stage in (0, 1):
                na, nb = counts.get((stage, 0), 0), counts.get((stage, 1), 0)
                step = 1 if not quick else 3
                sa = ["skip", None] + [(i, "after") for i in range(1, na + 1, step)]
                sb = ["skip", None] + [(i, "after") for i in range(1, nb + 1, step)]
                for a in sa:
                    for b in sb:
                        if a is None and b is None:
                            continue
                        jobs3.append((wname, stage, (a, b), ctx.scratch, wid, t0, chroms))
                        wid += 1
            ctx.note("%s: two-worker crash states: %d (per-task mutation points %s)" % (wname, len(jobs3), dict(counts)))
            for job, (label, status, detail) in zip(jobs3, core.pmap(two_worker_case, jobs3)):
                total += 1
                if status == "unreached":
                    statuses[status] = statuses.get(status, 0) + 1
                    continue
                in_scope += 1
                statuses["2w:" + status] = statuses.get("2w:" + status, 0) + 1
                if status != "ok":
                    key = "two-worker:%s:stage%d:%s" % (status, job[1], signature(status, detail))
                    classes.setdefault(key, []).append(label)
                    ctx.violation(key, "world %s, --threads 2 run killed in state %s, then --resume: %s" % (wname, label, detail),
                                  {"world": wname, "stage": job[1], "specs": [list(x) if isinstance(x, tuple) else x for x in job[2]]})
        shutil.rmtree(template, ignore_errors=True)
    ctx.note("crash states: %d enumerated, %d in scope; outcomes %s" % (total, in_scope, statuses))
    for k in sorted(classes):
        ctx.note("class %s: %d crash states, e.g. %s" % (k, len(classes[k]), sorted(set(classes[k]))[:3]))
    ctx.coverage.update({
        "evaluations": total, "distinct_nontrivial": in_scope,
        "rule": "case = (world, mutation point index, before/after[, second crash point of the resumed run][, --threads of the resume]); every "
                "mutation call of the uninterrupted run is used; non-trivial = the crash happened after .params was saved (in scope) and "
                "before the run ended",
        "exhaustive": True, "outcomes": statuses, "worlds": worlds_,
        "samples": samples or [{"note": "no in-scope case"}],
    })
    ctx.assumptions += [
        "kill model: process death with loss of user-space buffers; data handed to the OS is kept (no power-loss reordering)",
        "sqlite writes of gffutils.create_db happen below Python: treated as one mutation (not started / complete)",
        "crash points are file-system mutation CALLS (creation, append-open, removal, rename, mkdir), as the property's quantifier says; "
        "single-process runs (--threads 1) are crashed; a resume with --threads 2 is included in the thorough tier",
    ]


def replay(ctx, case):
    wname = case["world"]
    template = os.path.join(ctx.scratch, "tmpl_" + wname)
    w, paths, extra = build_template(wname, template)
    with open(os.path.join(template, "EXTRA"), "w") as f:
        for x in extra:
            f.write(x + "\n")
    t0, pts, chroms = discover(wname, ctx.scratch)
    labels, status, detail, n = crash_case((wname, [tuple(c) for c in case["crashes"]], case.get("resume_threads"), ctx.scratch, 0, t0, chroms))
    return None if status in ("ok", "unreached", "out-of-scope") else "%s: %s" % (labels, detail)
