"""C14 — corrected alignments are well-formed; junctions move only onto annotated ones.

A. pipeline: reads derived from an isoform by <=d edits from a noise menu (jitter within / beyond delta, skipped
   micro-exon, fake terminal exons, intron shift, retained micro-intron, indel next to a junction, misplaced terminal
   exon) x 6 splice-correction strategies x matching presets; oracle on corrected_reads.bed.
B. IlluminaExonCorrector.from_data(...).correct_exons driven exhaustively: read exon lists x all subsets of a short-read
   intron menu built around the constants 4 / 25 / 50 of the corrector.
C. pipeline, annotation-free with a synthetic Illumina BAM whose junction set ranges over subsets of the menu.
"""
import itertools
import os
import shutil

from vlib import core

LEVEL = "exploration"

STRATEGIES = {"none": (0, 0, 0, 0, 0, 0), "default_pacbio": (1, 0, 1, 0, 0, 1), "conservative_ont": (1, 0, 1, 0, 0, 0),
              "default_ont": (1, 0, 1, 0, 1, 1), "all": (1, 1, 1, 1, 1, 1), "assembly": (0, 0, 1, 0, 0, 0)}
# flags: fuzzy_junctions, intron_shifts, skipped_exons, terminal_exons, fake_terminal_exons, microintron_retention
PRESETS = {"precise": 4, "default": 6}

E = {"e0": (1001, 1200), "e1": (1601, 1800), "em": (2101, 2130), "e2": (2501, 2700), "e3": (3101, 3300), "e4a": (3701, 3850), "e4b": (3891, 4100)}
T1 = ["e0", "e1", "em", "e2", "e3", "e4a", "e4b"]
T2 = ["e0", "e1", "e2", "e3", "e4a", "e4b"]
# T3: T2 with an alternative acceptor 3 bp downstream (NAGNAG-like): two annotated introns within every delta of each other at both ends
E["e3x"] = (3104, 3300)
T3 = ["e0", "e1", "e2", "e3x", "e4a", "e4b"]


# a second gene for the pipeline world: U1 (sorted first) and U2 share every intron inside the reads below, U2 has two more introns upstream
# (outside the reads) and U1 a last exon that ends 500 bp earlier, so the reads belong to U2 alone
F = {"f00": (6001, 6200), "f0": (6601, 6800), "f1": (7201, 7400), "fm": (7701, 7730), "f2": (8101, 8300), "f3": (8701, 8900),
     "f4": (9301, 10000), "f4s": (9301, 9500)}
U2 = ["f00", "f0", "f1", "fm", "f2", "f3", "f4"]
U1 = ["f1", "fm", "f2", "f3", "f4s"]


def add_second_gene(w, reads, delta):
    from vlib import syn
    w["chroms"]["chr1"] = 16000
    w["genes"].append({"id": "G2", "chr": "chr1", "strand": "+", "transcripts": [
        {"id": "U1", "exons": [list(F[x]) for x in U1]}, {"id": "U2", "exons": [list(F[x]) for x in U2]}]})
    syn.plant_for_transcripts(w)
    base = [[7241, 7400]] + [list(F[x]) for x in ("fm", "f2", "f3", "f4")]
    variants = [(("g2-exact",), base)]
    b = [list(x) for x in base]
    b[0][1] += 30
    del b[1]
    variants.append((("g2-skip-microexon",), b))
    for sh in (10, 40, -25):
        b = [list(x) for x in base]
        b[2][1] += sh
        b[3][0] += sh
        variants.append((("g2-shift", 2, sh), b))
    for sh in (delta, -delta):
        b = [list(x) for x in base]
        b[3][1] += sh
        variants.append((("g2-jitter", 3, 0, sh), b))
    # a third gene with an annotated 5-bp intron (11201-11205) and reads whose 5-bp gap lies up to delta bases beside it
    w["genes"].append({"id": "G3", "chr": "chr1", "strand": "+", "transcripts": [
        {"id": "V1", "exons": [[10501, 10700], [11001, 11200], [11206, 11400]]}]})
    syn.plant_for_transcripts(w)
    for sh in (-delta, -3, 3, delta):
        variants.append((("g3-tiny-intron", sh), [[10551, 10700], [11001, 11200 + sh], [11206 + sh, 11400]]))
    # a fourth gene: W2's first intron (12531-12900) lies inside the long first exon of W1 and W2's last intron inside W1's last exon;
    # W3 has the mirror-image shape.  A read with W1's body whose short first (last) exon is attached by exactly that ANNOTATED junction
    # carries no spurious terminal exon: the junction is annotated, start and end stay
    w["genes"].append({"id": "G4", "chr": "chr1", "strand": "+", "transcripts": [
        {"id": "W1", "exons": [[12501, 13100], [13401, 13600], [13901, 14500]]},
        {"id": "W2", "exons": [[12501, 12530], [12901, 13100], [13401, 13600], [14801, 15000]]},
        {"id": "W3", "exons": [[12101, 12300], [13401, 13600], [13901, 14100], [14471, 14500]]}]})
    syn.plant_for_transcripts(w)
    variants.append((("g4-annotated-junction-first",), [[12501, 12530], [12901, 13100], [13401, 13600], [13901, 14500]]))
    variants.append((("g4-annotated-junction-last",), [[12501, 13100], [13401, 13600], [13901, 14100], [14471, 14500]]))
    for k, (dev, b) in enumerate(variants):
        nm = "u%d" % k
        rd = {"name": nm, "chr": "chr1", "blocks": [list(x) for x in b], "clip_right": "A" * 30}
        reads[nm] = (rd, (dev,), [tuple(x) for x in b])
        w["reads"].append(rd)


def annotation():
    from vlib import syn
    w = {"chroms": {"chr1": 7000}, "genes": [{"id": "G1", "chr": "chr1", "strand": "+", "transcripts": [
        {"id": "T1", "exons": [list(E[x]) for x in T1]}, {"id": "T2", "exons": [list(E[x]) for x in T2]},
        {"id": "T3", "exons": [list(E[x]) for x in T3]}]}], "reads": [], "sites": []}
    syn.plant_for_transcripts(w)
    return w


def noise_menu(delta):
    m = []
    for j in range(0, 4):
        for side in (0, 1):
            for sh in (delta, -delta, delta + 3, -(delta + 3), 2 * delta):
                m.append(("jitter", j, side, sh))
    m.append(("skip-microexon",))
    m.append(("fake-left",))
    m.append(("fake-right",))
    for j in (0, 3):
        for sh in (10, 40, -25):
            m.append(("shift", j, sh))
    m.append(("retain-microintron",))
    m.append(("indel-near", 1))
    m.append(("indel-near", 3))
    m.append(("misplaced-first",))
    m.append(("misplaced-last",))
    m.append(("misplaced-first-inside",))      # terminal exon aligned inside the first annotated intron
    m.append(("trunc-left",))
    m.append(("tiny-first",))                  # 3-bp first block right behind the first annotated exon, its bases mismatching the reference
    m.append(("tiny-last",))                   # mirror image: 3-bp last block right before the last annotated exon
    m.append(("x-first-base", 1))              # a 2-base mismatch at the first aligned bases of an exon (right behind an intron)
    m.append(("x-first-base", 0))              # ... and of the read (right behind the soft clip, if any)
    m.append(("aligned-polya",))               # the polyA tail aligned as a separate terminal block behind a spurious intron (IsoQuant trims it)
    return m


def derive(devs):
    """returns (blocks, edits) or None; base = T1 full length"""
    blocks = [list(E[x]) for x in T1]
    edits = []
    names = [d[0] for d in devs]
    if names.count("skip-microexon") and any(d[0] == "jitter" and d[1] in (1, 2) for d in devs):
        return None
    for d in devs:
        if d[0] == "jitter":
            j, side, sh = d[1], d[2], d[3]
            if side == 0:
                blocks[j][1] += sh
            else:
                blocks[j + 1][0] += sh
        elif d[0] == "shift":
            j, sh = d[1], d[2]
            blocks[j][1] += sh
            blocks[j + 1][0] += sh
    if "skip-microexon" in names:
        # the 30 bases of the micro-exon are glued to the previous exon (typical misalignment)
        i = T1.index("em")
        blocks[i - 1][1] += 30
        del blocks[i]
    if "retain-microintron" in names:
        a = [b for b in blocks if b[0] == E["e4a"][0] or b[1] == E["e4a"][1]]
        i = next(k for k, b in enumerate(blocks) if b[1] == E["e4a"][1]) if any(b[1] == E["e4a"][1] for b in blocks) else None
        if i is None or i + 1 >= len(blocks):
            return None
        blocks[i][1] = blocks[i + 1][1]
        del blocks[i + 1]
    if "misplaced-first" in names:
        blocks[0] = [601, 800]
    if "misplaced-last" in names:
        blocks[-1] = [4501, 4710]
    if "misplaced-first-inside" in names:
        if "misplaced-first" in names:
            return None
        blocks[0] = [1301, 1500]
    if "trunc-left" in names:
        blocks = blocks[1:]
        blocks[0][0] += 40
    if "fake-left" in names:
        blocks = [[blocks[0][0] - 400, blocks[0][0] - 376]] + blocks
    if "fake-right" in names:
        blocks = blocks + [[blocks[-1][1] + 380, blocks[-1][1] + 404]]
    for d in devs:
        if d[0] == "x-first-base":
            if d[1] >= len(blocks):
                return None
            edits.append([d[1], 0, "X", 2])
    for d in devs:
        if d[0] == "indel-near":
            i = d[1]
            if i >= len(blocks):
                return None
            ln = blocks[i][1] - blocks[i][0] + 1
            if ln < 40:
                return None
            edits.append([i, ln - 8, "D", 3])
    tiny = set()
    if "tiny-first" in names:
        if len(names) > 1:
            return None
        blocks[0] = [E["e0"][1] + 3, E["e0"][1] + 5]
        edits.append([0, 0, "X", 3])
        tiny.add(0)
    if "tiny-last" in names:
        if len(names) > 1:
            return None
        blocks[-1] = [E["e4b"][0] - 5, E["e4b"][0] - 3]
        edits.append([len(blocks) - 1, 0, "X", 3])
        tiny.add(len(blocks) - 1)
    if any(b[0] > b[1] - 9 for i, b in enumerate(blocks) if i not in tiny) or \
            any(blocks[k][1] + 20 >= blocks[k + 1][0] for k in range(len(blocks) - 1)) or blocks[0][0] < 50:
        return None
    return [tuple(b) for b in blocks], edits


def bed_validity(b, chrom_len):
    errs = []
    n = b["blockCount"]
    if n != len(b["blockSizes"]) or n != len(b["blockStarts"]) or n < 1:
        return ["blockCount %d, %d sizes, %d starts" % (n, len(b["blockSizes"]), len(b["blockStarts"]))]
    if any(s <= 0 for s in b["blockSizes"]):
        errs.append("non-positive block size %s" % b["blockSizes"])
    if b["blockStarts"][0] != 0:
        errs.append("first block does not start at chromStart")
    for i in range(n - 1):
        if b["blockStarts"][i] + b["blockSizes"][i] > b["blockStarts"][i + 1]:
            errs.append("blocks overlap or are unsorted: starts %s sizes %s" % (b["blockStarts"], b["blockSizes"]))
            break
    if b["blockStarts"][-1] + b["blockSizes"][-1] != b["end"] - b["start"]:
        errs.append("last block ends at %d, chromEnd-chromStart is %d" % (b["blockStarts"][-1] + b["blockSizes"][-1], b["end"] - b["start"]))
    if b["start"] < 0 or b["end"] > chrom_len or b["start"] >= b["end"]:
        errs.append("coordinates %d-%d outside chromosome of length %d" % (b["start"], b["end"], chrom_len))
    return errs


def noise_world(delta, d):
    """C14's annotation with every read derived by <=d edits of the noise menu (plus the pairs of terminal-exon edits when d < 2);
       returns (world, {read name: (read dict, edits, expected input blocks)})"""
    w = annotation()
    menu = noise_menu(delta)
    reads = {}
    k = 0
    combos = []
    for n in range(0, d + 1):
        combos += list(itertools.combinations(menu, n))
    if d < 2:
        term = [m for m in menu if m[0] in ("fake-left", "fake-right", "misplaced-first", "misplaced-last", "misplaced-first-inside", "trunc-left")]
        combos += list(itertools.combinations(term, 2))
    for devs in combos:
        r = derive(devs)
        if r is None:
            continue
        blocks, edits = r
        nm = "r%d" % k
        k += 1
        rd = {"name": nm, "chr": "chr1", "blocks": [list(b) for b in blocks], "clip_right": "A" * 30}
        if edits:
            rd["edits"] = edits
        if any(x[0] == "aligned-polya" for x in devs):
            if any(x[0] in ("fake-right", "misplaced-last") for x in devs):
                continue
            rd["blocks"].append([blocks[-1][1] + 301, blocks[-1][1] + 325])
            rd["block_seq"] = {len(rd["blocks"]) - 1: "A" * 25}
            rd["clip_right"] = "A" * 12
        reads[nm] = (rd, devs, blocks)
    w["reads"] = [v[0] for v in reads.values()]
    return w, reads


def pipeline_case(args):
    strategy, preset, d, scratch = args[:4]
    mirror = args[4] if len(args) > 4 else 0      # 1: the whole world reverse-complemented ('-' strand gene, polyT heads)
    delta_opt = args[5] if len(args) > 5 else None    # explicit --delta (overrides the preset's tolerance; 0 = exact comparison)
    eqx = args[6] if len(args) > 6 else 0         # 1: the alignments carry extended CIGAR strings (= / X instead of M)
    from vlib import syn, run
    delta = PRESETS[preset]
    flags = STRATEGIES[strategy]
    w = annotation()
    menu = noise_menu(delta)
    reads = {}
    k = 0
    combos = []
    for n in range(0, d + 1):
        combos += list(itertools.combinations(menu, n))
    if d < 2:
        # quick tier: besides all single edits, all pairs of terminal-exon edits (two cooperating corrections on one read)
        term = [m for m in menu if m[0] in ("fake-left", "fake-right", "misplaced-first", "misplaced-last", "misplaced-first-inside", "trunc-left")]
        combos += list(itertools.combinations(term, 2))
    for devs in combos:
        if True:
            r = derive(devs)
            if r is None:
                continue
            blocks, edits = r
            nm = "r%d" % k
            k += 1
            rd = {"name": nm, "chr": "chr1", "blocks": [list(b) for b in blocks], "clip_right": "A" * 30}
            if edits:
                rd["edits"] = edits
            if any(x[0] == "aligned-polya" for x in devs):
                # 25 A's of the tail aligned 300 bp downstream, the rest soft-clipped; the expected input alignment is the trimmed one
                if any(x[0] in ("fake-right", "misplaced-last") for x in devs):
                    continue
                rd["blocks"].append([blocks[-1][1] + 301, blocks[-1][1] + 325])
                rd["block_seq"] = {len(rd["blocks"]) - 1: "A" * 25}
                rd["clip_right"] = "A" * 12
            reads[nm] = (rd, devs, blocks)
    w["reads"] = [v[0] for v in reads.values()]
    add_second_gene(w, reads, delta)
    if eqx:
        for r_ in w["reads"]:
            r_["eqx"] = True
    if delta_opt is not None:
        delta = delta_opt          # the reads keep the jitter of the preset's menu (+-4/6 and beyond); the tolerance is the explicit one
    dd = os.path.join(scratch, "c14_%s_%s_%d_%d_%s_%d" % (strategy, preset, d, mirror, delta_opt, eqx))
    shutil.rmtree(dd, ignore_errors=True)
    if mirror:
        from props import c11
        w2, s2 = c11.reflect_world(w, syn.genome_sequences(w))
        paths = c11.write_world(w2, s2, dd)
    else:
        paths = syn.materialise(w, dd)
    out = os.path.join(dd, "out")
    rc = run.run_isoquant(run.base_argv(paths, out, extra=["--no_model_construction", "--matching_strategy", preset,
                                                          "--splice_correction_strategy", strategy] +
                                         (["--delta", str(delta_opt)] if delta_opt is not None else [])), paths["home"], os.path.join(dd, "o.txt"))
    errs = []
    if rc != 0:
        errs.append(("run-failed", "exit %d: %s" % (rc, open(os.path.join(dd, "o.txt")).read()[-300:])))
        shutil.rmtree(dd, ignore_errors=True)
        return (strategy, preset, mirror, delta_opt), errs, 0, 0
    bed = run.parse_bed(run.find(out, "OUT", ".corrected_reads.bed"))
    if mirror:
        # back to the coordinates of the unmirrored world (validity of the raw record is checked on the record as printed)
        n1 = w["chroms"]["chr1"] + 1
        for b in bed:
            b["blocks"] = [(n1 - e, n1 - s_) for s_, e in reversed(b["blocks"])]
    rows = run.parse_assignments(run.find(out, "OUT", ".read_assignments.tsv"))
    assigned = {}
    for r in rows:
        if r["isoform_id"] != ".":
            assigned.setdefault(r["read_id"], set()).add(r["isoform_id"])
    iso_introns = {"T1": [(E[T1[i]][1] + 1, E[T1[i + 1]][0] - 1) for i in range(len(T1) - 1)],
                   "T2": [(E[T2[i]][1] + 1, E[T2[i + 1]][0] - 1) for i in range(len(T2) - 1)],
                   "T3": [(E[T3[i]][1] + 1, E[T3[i + 1]][0] - 1) for i in range(len(T3) - 1)],
                   "U1": [(F[U1[i]][1] + 1, F[U1[i + 1]][0] - 1) for i in range(len(U1) - 1)],
                   "U2": [(F[U2[i]][1] + 1, F[U2[i + 1]][0] - 1) for i in range(len(U2) - 1)],
                   "V1": [(10701, 11000), (11201, 11205)],
                   "W1": [(13101, 13400), (13601, 13900)], "W2": [(12531, 12900), (13101, 13400), (13601, 14800)],
                   "W3": [(12301, 13400), (13601, 13900), (14101, 14470)]}
    annotated_sites_l = set(i[0] for v in iso_introns.values() for i in v)
    annotated_sites_r = set(i[1] for v in iso_introns.values() for i in v)
    changed = 0
    for b in bed:
        nm = b["name"]
        if nm not in reads:
            continue
        rd, devs, blocks = reads[nm]
        kinds = "+".join(sorted(set(x[0] for x in devs))) or "exact"
        for e in bed_validity(b, w["chroms"]["chr1"]):
            errs.append(("invalid-bed:" + kinds, "read %s %s (blocks %s): %s; record %s" % (nm, list(devs), blocks, e, b["raw"])))
        cb = b["blocks"]
        # input alignment as IsoQuant sees it: deletions are part of the exon
        if cb != list(blocks):
            changed += 1
        if strategy == "none" and cb != list(blocks):
            errs.append(("none-changes-alignment", "strategy none: read %s %s input %s corrected %s" % (nm, list(devs), blocks, cb)))
        # start / end may move only through a terminal correction the strategy enables: removal of a short spurious terminal exon (flag 4)
        # for reads that carry one, re-placement of a misplaced terminal exon (flag 3) for reads that carry one
        names_ = set(x[0] for x in devs)
        terminal_ok = (flags[4] and bool(names_ & {"fake-left", "fake-right", "tiny-first", "tiny-last"})) or \
                      (flags[3] and bool(names_ & {"misplaced-first", "misplaced-last", "misplaced-first-inside", "fake-left", "fake-right",
                                                   "tiny-first", "tiny-last"}))
        if not terminal_ok and (cb[0][0] != blocks[0][0] or cb[-1][1] != blocks[-1][1]):
            errs.append(("start-end-moved:" + kinds, "strategy %s has no terminal-exon correction but read %s %s moved from %d-%d to %d-%d" %
                         (strategy, nm, list(devs), blocks[0][0], blocks[-1][1], cb[0][0], cb[-1][1])))
        own_l = set(blocks[i][1] + 1 for i in range(len(blocks) - 1))
        own_r = set(blocks[i + 1][0] - 1 for i in range(len(blocks) - 1))
        iso_l = set(i[0] for t in assigned.get(nm, ()) for i in iso_introns[t])
        iso_r = set(i[1] for t in assigned.get(nm, ()) for i in iso_introns[t])
        tol = max(delta, 60)
        jitter_only = all(x[0] in ("jitter", "g2-jitter") for x in devs) and not flags[1]
        if jitter_only:
            tol = delta           # nothing but splice-site jitter and no intron-shift correction: only the fuzzy-junction correction applies
        for i in range(len(cb) - 1):
            l, r = cb[i][1] + 1, cb[i + 1][0] - 1
            for site, own, iso, ann, side in ((l, own_l, iso_l, annotated_sites_l, "left"), (r, own_r, iso_r, annotated_sites_r, "right")):
                if site in own or (site in iso and not (jitter_only and len(cb) == len(blocks))):
                    continue           # (an intron of the assigned isoform may be inserted / restored, not when nothing but jitter is present)
                if site in ann and any(abs(site - o) <= tol for o in own):
                    continue
                errs.append(("foreign-splice-site:" + kinds, "read %s %s (input %s): corrected %s site %d is neither the read's own, nor of "
                             "the assigned isoform %s, nor an annotated site within tolerance; corrected blocks %s" %
                             (nm, list(devs), blocks, side, site, sorted(assigned.get(nm, ())), cb)))
        # an intron of the read may move, be replaced by annotated introns overlapping it, or go away together with the terminal
        # exon beyond it (then the read starts / ends at the neighbouring exon) - it never just disappears from inside the alignment:
        # the corrected read would cover bases the read itself skipped
        cintr = [(cb[i][1] + 1, cb[i + 1][0] - 1) for i in range(len(cb) - 1)]
        for i in range(len(blocks) - 1):
            l, r = blocks[i][1] + 1, blocks[i + 1][0] - 1
            if any(a <= r and l <= b_ for a, b_ in cintr):
                continue
            if r < cb[0][0] or l > cb[-1][1]:
                continue
            errs.append(("intron-vanished:" + kinds, "read %s %s (input %s): its intron %d-%d lies inside the corrected alignment %s and overlaps none "
                         "of its introns" % (nm, list(devs), blocks, l, r, cb)))
    missing = set(reads) - set(b["name"] for b in bed)
    if missing:
        errs.append(("read-missing", "%d reads missing from the BED, e.g. %s %s" % (len(missing), sorted(missing)[0], list(reads[sorted(missing)[0]][1]))))
    shutil.rmtree(dd, ignore_errors=True)
    return (strategy, preset, mirror, delta_opt), errs, len(bed), changed


# ------------------------------------------------------------------------------------------------ B: Illumina corrector
def illumina_menu():
    """long-read exon lists and short-read intron menu built around the corrector's constants (4, 25, 50)"""
    reads = [[(100, 200), (301, 400), (501, 600)],
             [(100, 112), (301, 400), (501, 600)],            # short first exon
             [(100, 200), (301, 400), (501, 512)],            # short last exon
             [(100, 200), (301, 330), (501, 600)],            # short middle exon
             [(100, 200), (501, 600)]]
    menu = [(201, 300), (201, 304), (197, 300), (205, 300), (201, 296),      # +-4 around the first intron
            (401, 500), (401, 504), (397, 500),
            (180, 240), (270, 300), (201, 240), (260, 300),                   # pairs that look like a skipped exon inside intron 1
            (232, 255), (262, 268),                                           # pair members whose OUTER site lies > 25 bp inside the read's intron
            (90, 130), (160, 300),                                            # left intron starting before the read
            (401, 450), (480, 520), (470, 610)]                               # right side reaching beyond the read
    return reads, menu


def illumina_chunk(args):
    subsets, = args
    from src.illumina_exon_corrector import IlluminaExonCorrector
    reads, menu = illumina_menu()
    bad = []
    n = 0
    changed = 0
    for sub in subsets:
        short = set(menu[i] for i in sub)
        corr = IlluminaExonCorrector.from_data(short)
        for ex in reads:
            n += 1
            try:
                got = corr.correct_exons(list(ex))
            except Exception as e:  # noqa
                bad.append(("exception", ex, sorted(short), repr(e)))
                continue
            if got != ex:
                changed += 1
            if not got:
                bad.append(("empty", ex, sorted(short), "empty exon list"))
                continue
            if any(a > b or a < 1 for a, b in got) or any(got[i][1] >= got[i + 1][0] for i in range(len(got) - 1)):
                bad.append(("invalid-exons", ex, sorted(short), "corrected exons %s" % (got,)))
                continue
            if got[0][0] != ex[0][0] or got[-1][1] != ex[-1][1]:
                bad.append(("start-end-moved", ex, sorted(short), "corrected exons %s" % (got,)))
            own_l = set(ex[i][1] + 1 for i in range(len(ex) - 1))
            own_r = set(ex[i + 1][0] - 1 for i in range(len(ex) - 1))
            sl = set(s[0] for s in short)
            sr = set(s[1] for s in short)
            for i in range(len(got) - 1):
                l, r = got[i][1] + 1, got[i + 1][0] - 1
                if l not in own_l and l not in sl or r not in own_r and r not in sr:
                    bad.append(("foreign-splice-site", ex, sorted(short), "corrected intron %d-%d in %s" % (l, r, got)))
            # tolerances of the corrector: the junction(s) that replace a read intron keep its outer sites within 25 bp (SIDE_DIFF;
            # the single-junction rule moves one site by exactly 4)
            cintr = [(got[i][1] + 1, got[i + 1][0] - 1) for i in range(len(got) - 1)]
            for i in range(len(ex) - 1):
                a, b = ex[i][1] + 1, ex[i + 1][0] - 1
                over = [ci for ci in cintr if ci[0] <= b and a <= ci[1]]
                if over and (abs(over[0][0] - a) > 25 or abs(over[-1][1] - b) > 25):
                    bad.append(("site-beyond-tolerance", ex, sorted(short), "read intron %d-%d replaced by %s: an outer site moved by more than 25 bp" % (a, b, over)))
    return n, changed, bad[:20]


# ------------------------------------------------------------------------------------------------ C: short-read junctions end to end
SHORT_SETS = {
    "annotated": [],                                                     # the introns of T1 only
    "plus-skip": [(E["e1"][1] + 1, E["e2"][0] - 1)],                     # + the intron that skips the micro-exon
    "plus-shifted": [(1201, 1604), (1797, 2100), (2705, 2850), (2895, 3100)],   # + 4-bp shifted variants and a pair that looks like a skipped exon
    # + for every intron of T1 a short read that uses a donor 44 bp further downstream and carries a 4-bp DELETION 10 bases behind the
    # annotated donor (a deletion is no junction: only the N gaps of the short reads are)
    "with-deletions": [],
}


def illumina_e2e_case(args):
    """annotation-free run (every read goes through the short-read corrector) of the noise family with --illumina_bam: the short reads
       support the introns of T1 (+ a set of additional introns).  Every corrected record is valid BED12, keeps start and end, every splice
       site is the read's own or a site of a short-read intron; the result equals the corrector applied to the read with the complete set
       of short-read introns (wiring: region fetch, 0/1-based conversion, several short-read files)"""
    sset, nfiles, mirror, scratch = args
    from vlib import syn, run
    w, reads = noise_world(4, 1)
    w["genes"] = []
    t1_introns = [(E[T1[i]][1] + 1, E[T1[i + 1]][0] - 1) for i in range(len(T1) - 1)]
    short = t1_introns + SHORT_SETS[sset]
    dd = os.path.join(scratch, "c14c_%s_%d_%d" % (sset, nfiles, mirror))
    shutil.rmtree(dd, ignore_errors=True)
    seqs = syn.genome_sequences(w)
    sreads = []
    if sset == "with-deletions":
        for k, (a, b) in enumerate(t1_introns):
            if b - a > 150:
                short.append((a + 44, b))
                W_ = __import__("vlib.worlds", fromlist=["x"])
                W_.add_sites_for_blocks(w, "chr1", [[a - 40, a + 43], [b + 1, b + 40]], "+")
                for rep in range(2):
                    sreads.append({"name": "sd%d_%d" % (k, rep), "chr": "chr1", "blocks": [[a - 40 - rep, a + 43], [b + 1, b + 40 + rep]],
                                   "edits": [[0, 50 + rep, "D", 4]]})
        W_.dedup_sites(w)
        seqs = syn.genome_sequences(w)
        short = t1_introns + [x for x in short if x not in t1_introns]
    for k, (a, b) in enumerate(short):
        for rep in range(2):
            sreads.append({"name": "s%d_%d" % (k, rep), "chr": "chr1", "blocks": [[a - 40 - rep, a - 1], [b + 1, b + 40 + rep]]})
    # mirror == 1 here means: the same run with --splice_correction_strategy none
    paths = syn.materialise(w, dd, gtf=False)
    sb = []
    for fi in range(nfiles):
        sb.append(syn.write_bam(w, os.path.join(dd, "short%d.bam" % fi), reads=[r for i, r in enumerate(sreads) if i % nfiles == fi], seqs=seqs))
    out = os.path.join(dd, "out")
    rc = run.run_isoquant(run.base_argv(paths, out, genedb=False, extra=(["--splice_correction_strategy", "none"] if mirror else []) +
                                        ["--no_model_construction", "--illumina_bam"] + sb), paths["home"],
                          os.path.join(dd, "o.txt"))
    errs = []
    if rc != 0:
        errs.append(("run-failed", "exit %d: %s" % (rc, open(os.path.join(dd, "o.txt")).read()[-300:])))
        shutil.rmtree(dd, ignore_errors=True)
        return (sset, nfiles, mirror), errs, 0, 0
    bed = run.parse_bed(run.find(out, "OUT", ".corrected_reads.bed"))
    from src.illumina_exon_corrector import IlluminaExonCorrector
    corr = IlluminaExonCorrector.from_data(set(short))
    sl = set(x[0] for x in short)
    sr = set(x[1] for x in short)
    changed = 0
    for b in bed:
        nm = b["name"]
        if nm not in reads:
            continue
        rd, devs, blocks = reads[nm]
        kinds = "+".join(sorted(set(x[0] for x in devs))) or "exact"
        if any(x[0] == "aligned-polya" for x in devs):
            continue          # the trimmed tail block changes the input alignment itself (covered by part A)
        for e in bed_validity(b, w["chroms"]["chr1"]):
            errs.append(("invalid-bed:" + kinds, "read %s %s (blocks %s): %s; record %s" % (nm, list(devs), blocks, e, b["raw"])))
        cb = b["blocks"]
        if cb != list(blocks):
            changed += 1
            if mirror and not any(e[0] == "none-changes-alignment" for e in errs):
                errs.append(("none-changes-alignment", "--splice_correction_strategy none with --illumina_bam: read %s %s input %s corrected %s" %
                             (nm, list(devs), blocks, cb)))
        if cb[0][0] != blocks[0][0] or cb[-1][1] != blocks[-1][1]:
            errs.append(("start-end-moved:" + kinds, "read %s %s moved from %d-%d to %d-%d" % (nm, list(devs), blocks[0][0], blocks[-1][1], cb[0][0], cb[-1][1])))
        own_l = set(blocks[i][1] + 1 for i in range(len(blocks) - 1))
        own_r = set(blocks[i + 1][0] - 1 for i in range(len(blocks) - 1))
        for i in range(len(cb) - 1):
            l, r = cb[i][1] + 1, cb[i + 1][0] - 1
            if (l not in own_l and l not in sl) or (r not in own_r and r not in sr):
                errs.append(("foreign-splice-site:" + kinds, "read %s %s (input %s): corrected intron %d-%d has a site that is neither the read's own "
                             "nor a short-read one; corrected blocks %s" % (nm, list(devs), blocks, l, r, cb)))
        exp = [tuple(x) for x in corr.correct_exons([tuple(x) for x in blocks])]
        if not rd.get("edits") and cb != exp:
            errs.append(("differs-from-corrector:" + kinds, "read %s %s (input %s): pipeline prints %s, the corrector with all %d short-read introns gives %s" %
                         (nm, list(devs), blocks, cb, len(short), exp)))
    missing = set(n for n, v in reads.items() if not any(x[0] == "aligned-polya" for x in v[1])) - set(b["name"] for b in bed)
    if missing:
        errs.append(("read-missing", "%d reads missing from the BED, e.g. %s" % (len(missing), sorted(missing)[0])))
    shutil.rmtree(dd, ignore_errors=True)
    return (sset, nfiles, mirror), errs, len(bed), changed


def run(ctx):
    quick = ctx.tier == "quick"
    d = 1 if quick else 2
    jobs = [(s, p, d, ctx.scratch, m) for s in STRATEGIES for p in PRESETS for m in (0, 1)]
    # explicit --delta (0 = exact, 2, 9) on top of the default preset
    jobs += [(s, "default", d, ctx.scratch, 0, dv) for s in STRATEGIES for dv in ((0, 9) if quick else (0, 2, 9))]
    # extended CIGAR strings
    jobs += [(s, "default", d, ctx.scratch, m, None, 1) for s in (("none", "default_ont") if quick else STRATEGIES) for m in (0, 1)]
    nbed = nchanged = 0
    for key, errs, nb, ch in core.pmap(pipeline_case, jobs):
        nbed += nb
        nchanged += ch
        for k, msg in errs:
            ctx.violation("%s:%s%s%s" % (k, key[0], ":mirrored" if key[2] else "", ":delta-option" if key[3] is not None else ""),
                          "strategy %s preset %s%s%s: %s" %
                          (key[0], key[1], " (reverse-complemented world, coordinates mapped back)" if key[2] else "",
                           " --delta %s" % key[3] if key[3] is not None else "", msg),
                          {"strategy": key[0], "preset": key[1], "d": d, "mirror": key[2], "delta": key[3]})
    ctx.note("A: %d pipeline runs, %d BED records checked, %d of them changed by correction" % (len(jobs), nbed, nchanged))
    reads, menu = illumina_menu()
    maxk = 3 if quick else 5
    subsets = []
    for k in range(0, maxk + 1):
        subsets += list(itertools.combinations(range(len(menu)), k))
    nb = cb = 0
    for n, ch, bad in core.pmap(illumina_chunk, [(c,) for c in core.chunks(subsets, core.NCPU * 2)]):
        nb += n
        cb += ch
        for kind, ex, short, msg in bad:
            ctx.violation("illumina:" + kind, "IlluminaExonCorrector: read exons %s, short-read introns %s: %s" % (ex, short, msg),
                          {"exons": ex, "short_introns": short})
    ctx.note("B: %d short-read intron subsets (<=%d of %d) x %d reads = %d corrector calls, %d changed the alignment" %
             (len(subsets), maxk, len(menu), len(reads), nb, cb))
    cjobs = [(ss, nf, 0, ctx.scratch) for ss in SHORT_SETS for nf in ((1, 2) if quick else (1, 2, 3))] + [("annotated", 1, 1, ctx.scratch)]
    nc = cc = 0
    for key, errs, n, ch in core.pmap(illumina_e2e_case, cjobs):
        nc += n
        cc += ch
        for k, msg in errs:
            ctx.violation("illumina-e2e:%s" % k, "short-read intron set %s in %d file(s): %s" % (key[0], key[1], msg),
                          {"illumina_e2e": [key[0], key[1], key[2]]})
    ctx.note("C: %d annotation-free runs with --illumina_bam, %d BED records checked, %d changed by the short-read correction" % (len(cjobs), nc, cc))
    nbed += nc
    nchanged += cc
    ctx.coverage.update({
        "evaluations": nbed + nb, "distinct_nontrivial": nchanged + cb,
        "rule": "A: case = (read derived from T1 by <=%d noise edits, strategy, preset); B: case = (read exon list, subset of the short-read intron "
                "menu); non-trivial = the corrected alignment differs from the input alignment" % d,
        "exhaustive": True, "pipeline_runs": len(jobs), "bed_records": nbed, "illumina_calls": nb,
        "samples": [{"strategy": jobs[0][0], "preset": jobs[0][1]}, {"short_read_introns": [menu[i] for i in subsets[len(subsets) // 2]]}],
    })
    ctx.assumptions += ["'within tolerance' for a moved splice site: annotated site at most max(delta, 60) from one of the read's own sites, or a "
                        "site of an intron of an assigned isoform",
                        "reads carry soft-clipped polyA only (no aligned polyA exons), so the input alignment is the BAM record itself"]


def replay(ctx, c):
    if "illumina_e2e" in c:
        key, errs, n, ch = illumina_e2e_case(tuple(c["illumina_e2e"]) + (ctx.scratch,))
        return errs[0][1] if errs else None
    if "exons" in c:
        return "IlluminaExonCorrector.from_data(%r).correct_exons(%r)" % (c["short_introns"], c["exons"])
    key, errs, nb, ch = pipeline_case((c["strategy"], c["preset"], c.get("d", 1), ctx.scratch, c.get("mirror", 0), c.get("delta")))
    return errs[0][1] if errs else None
