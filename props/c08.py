"""C08 — multi-mapped reads resolve to one best locus, order-independently, counted once.

L1: all alignment lists (multisets, length 2..k) over a record alphabet x EVERY permutation through the real
MultimapResolver.resolve on real BasicReadAssignment objects; canonical outcome must be permutation-invariant and equal
to an independent priority/tie reference model.
L2: pipeline; one read with 2-3 alignments on loci built to yield chosen assignment types, primary/secondary flags in all
assignments, chromosome lengths permuted (IsoQuant orders chromosomes by length), default and --high_memory.
"""
import itertools
import os
import shutil

from vlib import core

LEVEL = "model_checking"

CONSISTENT = ("unique", "unique_minor_difference", "ambiguous")
INCONSISTENT = ("inconsistent", "inconsistent_non_intronic", "inconsistent_ambiguous")


def alphabet():
    """records: dict(type, secondary, chr, isoforms, genes, start, end, region, penalty)"""
    recs = []
    for chrom, (t1, t2, t3, g1, g2) in (("c1", ("T1", "T2", "T3", "G1", "G2")), ("c2", ("T4", "T5", "T6", "G3", "G4"))):
        for sec in (False, True):
            # a secondary alignment is a different alignment: never the same coordinates as the primary one
            off = 7 if sec else 0
            # the same coordinates on both chromosomes (a locus and its copy on an alternative contig), in read clusters of different extent
            reg = (900, 3500) if chrom == "c1" else (880, 3520)
            b = dict(chr=chrom, secondary=sec, start=1000 + off, end=3000 + off, region=reg, penalty=0.0)
            recs.append(dict(b, type="unique", isoforms=[t1], genes=[g1]))
            recs.append(dict(b, type="unique_minor_difference", isoforms=[t2], genes=[g1]))
            recs.append(dict(b, type="ambiguous", isoforms=[t1, t2], genes=[g1]))
            recs.append(dict(b, type="ambiguous", isoforms=[t1, t3], genes=[g1, g2]))
            recs.append(dict(b, type="inconsistent", isoforms=[t1], genes=[g1], penalty=1.0))
            recs.append(dict(b, type="inconsistent", isoforms=[t3], genes=[g2], penalty=2.0))
            recs.append(dict(b, type="inconsistent_non_intronic", isoforms=[t1], genes=[g1], penalty=0.5))
            recs.append(dict(b, type="inconsistent_ambiguous", isoforms=[t1, t2], genes=[g1], penalty=1.0))
            recs.append(dict(b, type="noninformative", isoforms=[], genes=[], start=1100 + off, end=1400 + off, region=reg))
            recs.append(dict(b, type="noninformative", isoforms=[], genes=[], start=800 + off, end=1400 + off, region=reg))
            recs.append(dict(b, type="intergenic", isoforms=[], genes=[], start=5000 + off, end=5400 + off, region=(5000 + off, 5400 + off)))
    # same chromosome, second locus (different coordinates) - ties inside one chromosome
    b = dict(chr="c1", secondary=False, start=7000, end=9000, region=(6900, 9500), penalty=0.0)
    recs.append(dict(b, type="unique", isoforms=["T7"], genes=["G7"]))
    recs.append(dict(b, type="inconsistent", isoforms=["T7"], genes=["G7"], penalty=1.0))
    recs.append(dict(b, type="intergenic", isoforms=[], genes=[], start=7000, end=7400, region=(7000, 7400)))
    for i, r in enumerate(recs):
        r["idx"] = i
    return recs


def make_obj(rec, aid, region_shift=0):
    from src.isoform_assignment import BasicReadAssignment, ReadAssignmentType
    o = BasicReadAssignment.__new__(BasicReadAssignment)
    o.assignment_id = aid
    o.read_id = "read"
    o.chr_id = rec["chr"]
    o.start = rec["start"]
    o.end = rec["end"]
    o.genomic_region = (rec["region"][0] - region_shift, rec["region"][1] + region_shift)
    o.multimapper = rec["secondary"]
    o.polyA_found = False
    o.assignment_type = ReadAssignmentType[rec["type"]]
    o.gene_assignment_type = ReadAssignmentType[rec["type"]]
    if rec["type"] == "ambiguous" and len(rec["genes"]) == 1:
        o.gene_assignment_type = ReadAssignmentType.unique
    if rec["type"] == "inconsistent_ambiguous" and len(rec["genes"]) == 1:
        o.gene_assignment_type = ReadAssignmentType.inconsistent
    o.penalty_score = rec["penalty"]
    o.isoforms = list(rec["isoforms"])
    o.genes = list(rec["genes"])
    return o


def klass(rec):
    t = rec["type"]
    if t in CONSISTENT:
        return "C"
    if t in INCONSISTENT:
        return "I"
    return "N"


def reference(records):
    """returns (set of kept record idx (duplicates collapsed), ambiguity flags) or a set of alternatives for unspecified ties"""
    idx = list(range(len(records)))
    pu = [i for i in idx if klass(records[i]) == "C" and not records[i]["secondary"] and records[i]["type"] != "ambiguous"]
    cons = [i for i in idx if klass(records[i]) == "C"]
    pi = [i for i in idx if klass(records[i]) == "I" and not records[i]["secondary"]]
    inc = [i for i in idx if klass(records[i]) == "I"]
    non = [i for i in idx if klass(records[i]) == "N"]
    alternatives = None
    if pu:
        keep = pu
    elif cons:
        keep = cons
    elif pi or inc:
        pool = pi or inc
        best = min(records[i]["penalty"] for i in pool)
        keep = [i for i in pool if records[i]["penalty"] == best]
    else:
        def ov(r):
            return max(0, min(r["region"][1], r["end"]) - max(r["region"][0], r["start"]) + 1)
        m = max(ov(records[i]) for i in non)
        cand = [i for i in non if ov(records[i]) == m]
        if any(not records[i]["secondary"] for i in cand):
            cand = [i for i in cand if not records[i]["secondary"]]      # the primary alignment is preferred to secondary ones
        ms = min(records[i]["region"][0] for i in cand)
        cand = [i for i in cand if records[i]["region"][0] == ms]
        keep = cand[:1]
        alternatives = cand           # the statement does not say which of fully tied unassigned loci survives
    # exact duplicates collapse
    seen = set()
    kept = []
    for i in keep:
        r = records[i]
        k = (r["chr"], r["start"], r["end"], tuple(r["isoforms"]))
        if k in seen:
            continue
        seen.add(k)
        kept.append(i)
    isoforms = set()
    genes = set()
    for i in kept:
        isoforms.update(records[i]["isoforms"])
        genes.update(records[i]["genes"])
    return kept, len(isoforms) > 1, len(genes) > 1, alternatives


def content_key(rec):
    return (rec["chr"], rec["start"], rec["end"], tuple(rec["isoforms"]), rec["type"], rec["secondary"])


def l1_chunk(args):
    multisets, recs = args
    from src.multimap_resolver import MultimapResolver, MultimapResolvingStrategy
    from src.isoform_assignment import ReadAssignmentType
    resolver = MultimapResolver(MultimapResolvingStrategy.take_best)
    bad = []
    n = 0
    nontriv = 0
    outcomes = set()
    for ms in multisets:
        records = [recs[i] for i in ms]
        kept_ref, amb_t, amb_g, alternatives = reference(records)
        ref_keys = sorted(content_key(records[i]) for i in kept_ref)
        classes = set(klass(r) + ("p" if not r["secondary"] else "s") for r in records)
        if len(classes) > 1 or len(kept_ref) > 1:
            nontriv += 1
        results = {}
        for perm in set(itertools.permutations(range(len(records)))):
            n += 1
            objs = [make_obj(records[p], aid, region_shift=(10 if k == 1 and records[p] in records[:0] else 0))
                    for k, (aid, p) in enumerate(enumerate(perm))]
            try:
                out = resolver.resolve(objs)
            except Exception as e:  # noqa
                bad.append(("exception", [recs[i]["idx"] for i in ms], list(perm), repr(e)))
                continue
            kept = []
            for o, p in zip(objs, perm):
                if o.assignment_type != ReadAssignmentType.suspended:
                    kept.append((content_key(records[p]), o.assignment_type.name, o.gene_assignment_type.name, bool(o.multimapper)))
                elif o.gene_assignment_type != ReadAssignmentType.suspended:
                    bad.append(("half-suspended", [recs[i]["idx"] for i in ms], list(perm), "gene type not suspended"))
            if out is not objs and (out is None or len(out) != len(objs)):
                bad.append(("dropped-records", [recs[i]["idx"] for i in ms], list(perm), "resolve returned %s" % (None if out is None else len(out))))
            results[perm] = tuple(sorted(kept))
        canon = set(results.values())
        outcomes |= canon
        if len(canon) > 1:
            p1, p2 = sorted(results)[0], next(p for p in sorted(results) if results[p] != results[sorted(results)[0]])
            bad.append(("order-dependent", [recs[i]["idx"] for i in ms], [list(p1), list(p2)],
                        "permutation %s keeps %s but permutation %s keeps %s" % (p1, [k[0][:3] + (k[1],) for k in results[p1]],
                                                                               p2, [k[0][:3] + (k[1],) for k in results[p2]])))
        # agreement with the reference model (any permutation; for unspecified ties any alternative is accepted)
        for perm, res in results.items():
            got_keys = sorted(k[0] for k in res)
            ok = got_keys == ref_keys
            if not ok and alternatives:
                ok = any(got_keys == [content_key(records[a])] for a in alternatives)
            if not ok:
                bad.append(("priority", [recs[i]["idx"] for i in ms], list(perm),
                            "kept %s, reference model keeps %s" % ([k[:3] + (k[4],) for k in got_keys], [k[:3] + (k[4],) for k in ref_keys])))
                break
            for (ck, tname, gname, mm) in res:
                orig = ck[4]
                if amb_t:
                    exp_t = "inconsistent_ambiguous" if orig in INCONSISTENT else "ambiguous"
                    if tname != exp_t or not mm:
                        bad.append(("tie-not-flagged", [recs[i]["idx"] for i in ms], list(perm),
                                    "kept loci tie over several isoforms but record %s is typed %s multimapper=%s" % (ck[:3], tname, mm)))
                        break
                else:
                    if tname != orig:
                        bad.append(("type-changed", [recs[i]["idx"] for i in ms], list(perm), "record %s retyped %s -> %s" % (ck[:3], orig, tname)))
                        break
            else:
                continue
            break
    return n, nontriv, bad[:30], len(outcomes)


# ------------------------------------------------------------------------------------------------ L1b: from full assignments
PENALTIES = (0.5, 0.6, 0.7, 1.0, 3.0, 0.6 + 0.1 + 0.1, 0.8)      # the last two differ in the last bit only (0.7999999999999999 / 0.8)


def l1b_all(_):
    """two inconsistent alignments of one read on two chromosomes, every pair of penalties, every flag pair without two primaries,
       both presentation orders; the records the resolver sees are made from full ReadAssignment objects by the two routes the
       pipeline uses: BasicReadAssignment(ra) (--high_memory) and the abridged reader of the saved stream (default)"""
    import io
    import src.isoform_assignment as IA
    from src.polya_finder import PolyAInfo
    from src.multimap_resolver import MultimapResolver, MultimapResolvingStrategy
    resolver = MultimapResolver(MultimapResolvingStrategy.take_best)
    bad = []
    n = 0

    def full(aid, chrom, gene, tids, pen, sec):
        ev = IA.MatchEvent(IA.MatchEventSubtype.intron_retention, (1, 1), (0, 0), 0)
        ms = [IA.IsoformMatch(IA.MatchClassification.novel_in_catalog, gene, t, [ev], "+", pen) for t in tids]
        t = IA.ReadAssignmentType.inconsistent if len(tids) == 1 else IA.ReadAssignmentType.inconsistent_ambiguous
        ra = IA.ReadAssignment("read", t, ms)
        ra.gene_assignment_type = IA.ReadAssignmentType.inconsistent
        ra.assignment_id = aid
        ra.genomic_region = (900, 3500)
        ra.exons = [(1001 + aid, 1200), (1601, 1800 + aid)]
        ra.corrected_exons = list(ra.exons)
        ra.polya_info = PolyAInfo(-1, -1, -1, -1)
        ra.chr_id = chrom
        ra.strand = "+"
        ra.mapped_strand = "+"
        ra.mapping_quality = 60
        ra.multimapper = sec
        return ra

    def basic(ra, route):
        if route == "ctor":
            return IA.BasicReadAssignment(ra)
        if route == "pickle":
            # --high_memory with several threads: the records come back from the worker processes pickled
            import pickle
            return pickle.loads(pickle.dumps(IA.BasicReadAssignment(ra)))
        buf = io.BytesIO()
        ra.serialize(buf)
        buf.seek(0)
        return IA.BasicReadAssignment.deserialize_from_read_assignment(buf)
    by_route = {}
    for p1, p2 in itertools.product(PENALTIES, PENALTIES):
        for sec1, sec2 in ((False, True), (True, False), (True, True)):
            for nt1, nt2 in ((1, 1), (2, 1), (2, 2)):
                for route in ("ctor", "stream", "pickle"):
                    for order in ((0, 1), (1, 0)):
                        n += 1
                        ras = [full(0, "c1", "G1", ["T1", "T2"][:nt1], p1, sec1), full(1, "c2", "G3", ["T4", "T5"][:nt2], p2, sec2)]
                        try:
                            objs = [basic(ras[i], route) for i in order]
                            resolver.resolve(objs)
                        except Exception as e:  # noqa
                            bad.append(("l1b:exception", (p1, p2, sec1, sec2, nt1, nt2, route, order), repr(e)))
                            continue
                        kept = sorted(o.assignment_id for o in objs if o.assignment_type != IA.ReadAssignmentType.suspended)
                        # reference: a primary inconsistent alignment is preferred; otherwise the lowest penalty wins, equal penalties tie
                        prim = [i for i, sec in enumerate((sec1, sec2)) if not sec]
                        by_route.setdefault((p1, p2, sec1, sec2, nt1, nt2, order), {})[route] = kept
                        if prim:
                            exp = prim
                        else:
                            best = min(p1, p2)
                            exp = [i for i, p in enumerate((p1, p2)) if p == best]
                        if abs(p1 - p2) < 1e-6 and p1 != p2 and not prim:
                            continue          # penalties closer than the resolution of the saved stream: only the two routes have to agree
                        if kept != exp:
                            bad.append(("l1b:penalty-ignored" if len(kept) > len(exp) else "l1b:priority",
                                        (p1, p2, sec1, sec2, nt1, nt2, route, order),
                                        "two inconsistent alignments with penalties %s / %s (%s, records made by %s): kept %s, the lower penalty "
                                        "keeps %s" % (p1, p2, "both secondary" if not prim else "one primary", route, kept, exp)))
    # default mode (stream) and --high_memory (constructor) must retain the same alignments
    for case_, r in sorted(by_route.items(), key=str):
        if len(set(map(tuple, r.values()))) > 1:
            bad.append(("l1b:mode-dependent", case_[:6] + ("both", case_[6]),
                        "penalties %r / %r: records made by the constructor (--high_memory) keep %s, pickled records (--high_memory, "
                        "several threads) keep %s, records read from the saved stream (default) keep %s" %
                        (case_[0], case_[1], r.get("ctor"), r.get("pickle"), r.get("stream"))))
            break
    return n, bad[:20]


# ------------------------------------------------------------------------------------------------ L2 pipeline
LOCUS_TYPES = ("fsm", "ism_amb", "incons", "intergenic")


def l2_world_same_chr(assign, same_locus=False):
    """both alignments of the read on ONE chromosome: locus 1 at 1000 (gene GA), locus 2 at 5500 (gene GB or nothing);
       same_locus: both at locus 1, the second one 20 bases shorter at either end (two placements of the read on one gene)"""
    from vlib import worlds as W, syn
    w = {"chroms": {"chrA": 12000, "chrB": 6000}, "genes": [], "reads": [], "sites": []}
    w["genes"].append(W.locus_gene("GchrA", "chrA", "+", 1000, {"TchrA1": [0, 1, 2, 3], "TchrA2": [0, 1, 3], "TchrA3": [1, 2, 3]}))
    w["genes"].append(W.locus_gene("GB2", "chrA", "+", 5500, {"TB21": [0, 1, 2, 3], "TB22": [0, 1, 3], "TB23": [1, 2, 3]}))
    w["genes"].append(W.locus_gene("GchrB", "chrB", "+", 1000, {"TchrB1": [0, 1, 2]}))
    syn.plant_for_transcripts(w)
    blocks = []
    for k_, ((lt, flag), base) in enumerate(zip(assign, (1000, 5500) if not same_locus else (1000, 1000))):
        if lt == "fsm":
            b = W.exons(base, [0, 1, 2, 3])
        elif lt == "ism_amb":
            b = [[base + 651, base + 800], [base + 1201, base + 1400], [base + 1801, base + 1950]]
        elif lt == "incons":
            b = W.exons(base, [0, 2, 3])
        elif lt == "ir":
            e = W.exons(base, [0, 1, 2, 3])
            b = [e[0], [e[1][0], e[2][1]], e[3]]           # intron between slots 1 and 2 retained: inconsistent with every isoform
        else:
            b = W.exons(9000, [0, 1]) if base == 5500 else W.exons(3800, [0, 1])
        if same_locus and k_ == 1:
            b = [list(x) for x in b]
            b[0][0] += 20
            b[-1][1] -= 20
        blocks.append(b)
        W.add_sites_for_blocks(w, "chrA", W.exons(base, [0, 2, 3]), "+")
    W.add_sites_for_blocks(w, "chrA", W.exons(9000, [0, 1]), "+")
    W.dedup_sites(w)
    for k in range(2):
        w["reads"].append(W.read_of("bgA_%d" % k, "chrA", W.exons(1000, [0, 1, 2, 3])))
        w["reads"].append(W.read_of("bgB_%d" % k, "chrB", W.exons(1000, [0, 1, 2])))
    for (lt, flag), b in zip(assign, blocks):
        w["reads"].append(W.read_of("mm", "chrA", b, polya=False, secondary=(flag == "s")))
    if len(assign) > 2:
        # a third alignment of the read on the other chromosome (gene GchrB: one isoform over slots 0,1,2)
        lt, flag = assign[2]
        e = W.exons(1000, [0, 1, 2])
        b = {"fsm": e, "ir": [[e[0][0], e[1][1]], e[2]], "intergenic": W.exons(3800, [0, 1])}[lt]
        W.add_sites_for_blocks(w, "chrB", W.exons(1000, [0, 2]), "+")
        W.add_sites_for_blocks(w, "chrB", W.exons(3800, [0, 1]), "+")
        W.dedup_sites(w)
        w["reads"].append(W.read_of("mm", "chrB", b, polya=False, secondary=(flag == "s")))
    return w, ["chrA", "chrB"]


def expected_loci(assign):
    """retained loci (indices into assign) by the statement: a uniquely and consistently assigned PRIMARY alignment wins alone; otherwise
       consistent beats inconsistent beats uninformative and all alignments of the best class are kept; None = not decided by the statement
       (several uninformative alignments)"""
    cls = {"fsm": 0, "ism_amb": 0, "ir": 1, "intergenic": 2}
    prim_unique = [i for i, (lt, f) in enumerate(assign) if lt == "fsm" and f == "p"]
    if prim_unique:
        return set(prim_unique[:1])
    best = min(cls[lt] for lt, f in assign)
    if best == 2:
        return None
    keep = set(i for i, (lt, f) in enumerate(assign) if cls[lt] == best)
    if best == 1 and len(keep) > 1:
        return None           # several inconsistent alignments are ranked by their penalties (resolver level: L1), not decided here
    return keep


def l2_world(assign, lengths):
    """assign: list of (locus_type, flag) per chromosome in order chrA, chrB(, chrC); flag 'p' primary / 's' secondary.
       lengths: permutation index deciding which chromosome is longest (processing order)"""
    from vlib import worlds as W, syn
    n = len(assign)
    names = ["chrA", "chrB", "chrC"][:n]
    w = {"chroms": {names[i]: 9000 + 500 * lengths[i] for i in range(n)}, "genes": [], "reads": [], "sites": []}
    mm_blocks = {}
    for i, (lt, flag) in enumerate(assign):
        c = names[i]
        g = W.locus_gene("G%s" % c, c, "+", 1000, {"T%s1" % c: [0, 1, 2, 3], "T%s2" % c: [0, 1, 3], "T%s3" % c: [1, 2, 3]})
        w["genes"].append(g)
        if lt == "fsm":
            mm_blocks[c] = W.exons(1000, [0, 1, 2, 3])
        elif lt == "ism_amb":
            mm_blocks[c] = [[1651, 1800], [2201, 2400], [2801, 2950]]   # slots 1-2-3 inner: compatible with T1 and T3
        elif lt == "incons":
            mm_blocks[c] = W.exons(1000, [0, 2, 3])                     # unannotated combination (skips slot 1, keeps 2)
        else:
            mm_blocks[c] = W.exons(5500, [0, 1])                        # no gene there
        # a few unique background reads so that every chromosome has content
        for k in range(2):
            w["reads"].append(W.read_of("bg_%s_%d" % (c, k), c, W.exons(1000, [0, 1, 2, 3])))
    syn.plant_for_transcripts(w)
    for c in names:
        W.add_sites_for_blocks(w, c, W.exons(1000, [0, 2, 3]), "+")
        W.add_sites_for_blocks(w, c, W.exons(5500, [0, 1]), "+")
    W.dedup_sites(w)
    for i, (lt, flag) in enumerate(assign):
        c = names[i]
        w["reads"].append(W.read_of("mm", c, mm_blocks[c], polya=False, secondary=(flag == "s")))
    return w, names


def l2_case(args):
    assign, scratch, tag = args
    from vlib import syn, run
    n = len(assign)
    results = {}
    errs = []
    nruns = 0
    same_chr = (tag.startswith("same_") or tag.startswith("same3_") or tag.startswith("sameloc_"))
    for lengths in (itertools.permutations(range(n)) if not same_chr else [(0, 1)]):
        for mode in (("default", "high_memory", "reused-folder") if tag.startswith("same3_") and "_mq0_" not in tag else ("default", "high_memory")):
            w, names = l2_world(assign, lengths) if not same_chr else l2_world_same_chr(assign, tag.startswith("sameloc_"))
            if "_mq0_" in tag:
                # what aligners write for a read with equally good placements: MAPQ 0 on every record, the primary one included
                for r in w["reads"]:
                    if r["name"] == "mm":
                        r["mapq"] = 0
            d = os.path.join(scratch, "c08_%s_%s_%s" % (tag, "".join(map(str, lengths)), mode))
            shutil.rmtree(d, ignore_errors=True)
            paths = syn.materialise(w, d)
            out = os.path.join(d, "out")
            extra = ["--high_memory"] if mode == "high_memory" else []
            if mode == "reused-folder":
                # the output folder holds a complete earlier run (--keep_tmp) of the same reads with primary and secondary flags of the
                # multi-mapped read exchanged: what that run decided about the read is not this run's business
                flip = tuple((lt, "s" if f == "p" else "p") for lt, f in assign)
                w_old, _ = l2_world_same_chr(flip)
                p_old = syn.materialise(w_old, d + "_old")
                rc_old = run.run_isoquant(run.base_argv(p_old, out, extra=["--keep_tmp", "--gene_quantification", "all", "--transcript_quantification", "all"]),
                                          paths["home"], os.path.join(d, "o_old.txt"))
                shutil.rmtree(d + "_old", ignore_errors=True)
                if rc_old != 0:
                    errs.append(("run-failed", "earlier run in the reused folder: exit %d" % rc_old))
                extra = ["--force"]
            rc = run.run_isoquant(run.base_argv(paths, out, extra=extra + ["--gene_quantification", "all", "--transcript_quantification", "all"]),
                                  paths["home"], os.path.join(d, "o.txt"))
            nruns += 1
            if rc != 0:
                errs.append(("run-failed", "%s %s exit %d: %s" % (lengths, mode, rc, open(os.path.join(d, "o.txt")).read()[-300:])))
                shutil.rmtree(d, ignore_errors=True)
                continue
            rows = [r for r in run.parse_assignments(run.find(out, "OUT", ".read_assignments.tsv")) if r["read_id"] == "mm"]
            kept = sorted(set((r["chr"], r["assignment_type"]) for r in rows))
            if tag.startswith("same3_"):
                locus = lambda r: 2 if r["chr"] == "chrB" else (0 if r["exon_list"][0][0] < 5000 and not (assign[0][0] == "intergenic" and r["exon_list"][0][0] > 3700) else
                                                                 (0 if assign[0][0] == "intergenic" and 3700 < r["exon_list"][0][0] < 5000 else 1))
                got = set(locus(r) for r in rows)
                exp = expected_loci(assign)
                if exp is not None and got != exp:
                    errs.append(("retained-set", "%s: alignments kept at loci %s (0/1 = first/second locus of chrA, 2 = chrB), the priority rules keep %s" %
                                 (mode, sorted(got), sorted(exp))))
            bed = sorted(set(r["chr"] for r in run.parse_bed(run.find(out, "OUT", ".corrected_reads.bed")) if r["name"] == "mm"))
            if sorted(set(k[0] for k in kept)) != bed:
                errs.append(("bed-tsv-disagree", "%s %s: tsv loci %s, bed loci %s" % (lengths, mode, kept, bed)))
            # contribution of the read to the count tables: compare with the same world without the multimapper
            w0 = dict(w, reads=[r for r in w["reads"] if r["name"] != "mm"])
            d0 = d + "_0"
            p0 = syn.materialise(w0, d0)
            out0 = os.path.join(d0, "out")
            rc0 = run.run_isoquant(run.base_argv(p0, out0, extra=extra + ["--gene_quantification", "all", "--transcript_quantification", "all"]),
                                   p0["home"], os.path.join(d0, "o.txt"))
            nruns += 1
            for table in (".gene_counts.tsv", ".transcript_counts.tsv", ".transcript_model_counts.tsv"):
                h1, t1 = run.parse_counts(run.find(out, "OUT", table))
                h0, t0 = run.parse_counts(run.find(out0, "OUT", table)) if rc0 == 0 else (None, None)
                if t1 is None or t0 is None:
                    continue
                contrib = 0.0
                for f in t1:
                    if f.startswith("__"):
                        continue
                    v1 = float(t1[f][0][0])
                    v0 = float(t0.get(f, [["0"]])[0][0])
                    contrib += v1 - v0
                if contrib > 1.0 + 1e-6:
                    errs.append(("weight-above-one:" + ("tied-loci" if len(kept) > 1 else
                                                        ("same-gene-placements" if tag.startswith("sameloc_") else "single-locus")),
                                 "%s %s: the multi-mapped read adds %.2f to %s (loci kept: %s)" %
                                 (lengths, mode, contrib, table, kept)))
            # transcript_model_reads must not mention suspended loci: read listed at most once per kept locus
            results[(lengths, mode)] = tuple(kept)
            shutil.rmtree(d, ignore_errors=True)
            shutil.rmtree(d0, ignore_errors=True)
    vals = set(results.values())
    if len(vals) > 1:
        a, b = sorted(results.items())[0], next(x for x in sorted(results.items()) if x[1] != sorted(results.items())[0][1])
        errs.append(("order-or-mode-dependent", "retained loci differ: %s -> %s but %s -> %s" % (a[0], a[1], b[0], b[1])))
    # expected winner per reference priorities
    return assign, nruns, sorted(vals), errs


def run(ctx):
    quick = ctx.tier == "quick"
    k = 3 if quick else 4
    recs = alphabet()
    R = len(recs)
    multisets = []
    for n in range(2, k + 1):
        multisets += list(itertools.combinations_with_replacement(range(R), n))
    if not quick:
        # k=4 over the full alphabet is 10^5 multisets x 24 permutations: keep all of them
        pass
    ctx.note("L1: %d records in the alphabet, %d multisets of length 2..%d, every permutation" % (R, len(multisets), k))
    ctx.rng.shuffle(multisets)
    total = nontriv = 0
    outcomes = 0
    for n, nt, bad, oc in core.pmap(l1_chunk, [(c, recs) for c in core.chunks(multisets, core.NCPU * 4)]):
        total += n
        nontriv += nt
        outcomes = max(outcomes, oc)
        for kind, ms, perm, msg in bad:
            types = "+".join(sorted(set("%s%s" % (recs[i]["type"], "" if not recs[i]["secondary"] else "(sec)") for i in ms)))
            ctx.violation("l1:%s:%s" % (kind, types), "records %s permutation %s: %s" % ([(recs[i]["chr"], recs[i]["type"], "sec" if recs[i]["secondary"] else "prim") for i in ms], perm, msg),
                          {"records": [recs[i] for i in ms], "perm": perm})
    ctx.note("L1 executions (list x permutation): %d" % total)
    for n1b, bad in core.pmap(l1b_all, [0]):
        total += n1b
        for kind, case_, msg in bad:
            ctx.violation(kind, "%s: %s" % (case_, msg), {"l1b": list(case_[:6]) + [case_[6], list(case_[7])]})
        ctx.note("L1b (records made from full assignments by both routes): %d resolutions" % n1b)
    # L2
    jobs = []
    pairs = list(itertools.product(LOCUS_TYPES, "ps"))
    seen = set()
    for a in pairs:
        for b in pairs:
            if a[1] == "p" and b[1] == "p" and quick:
                pass
            key = tuple(sorted([a, b]))
            if key in seen:
                continue
            seen.add(key)
            jobs.append(((a, b), ctx.scratch, "%s%s_%s%s" % (a[0], a[1], b[0], b[1])))
    # both alignments on one chromosome
    for a in pairs:
        for b in pairs:
            if a[0] == "intergenic" and b[0] == "intergenic":
                continue
            if quick and not (a[1] == "p" and b[1] == "s"):
                continue
            jobs.append(((a, b), ctx.scratch, "same_%s%s_%s%s" % (a[0], a[1], b[0], b[1])))
    # two placements of the read on ONE gene (the second one 20 bases shorter at either end)
    for a in itertools.product(("fsm", "ism_amb", "incons", "ir"), "ps"):
        for b in itertools.product(("fsm", "ism_amb", "incons", "ir"), "ps"):
            if a[1] == "p" and b[1] == "p":
                continue
            jobs.append(((a, b), ctx.scratch, "sameloc_%s%s_%s%s" % (a[0], a[1], b[0], b[1])))
    # three alignments, two of them on one chromosome (the losers / tied ones share a chromosome)
    third = [("fsm", "p"), ("fsm", "s"), ("ir", "p"), ("intergenic", "p")]
    pairs3 = list(itertools.product(("fsm", "ism_amb", "ir", "intergenic"), "ps"))
    for a in pairs3:
        for b in pairs3:
            for c in third:
                flags = [a[1], b[1], c[1]]
                if flags.count("p") != 1:
                    continue                      # exactly one primary alignment
                if quick and not (c[1] == "p" and (a[0], b[0]) in (("fsm", "fsm"), ("fsm", "ir"), ("ir", "fsm"), ("ism_amb", "fsm"), ("ir", "ir"),
                                                                   ("intergenic", "fsm"), ("fsm", "intergenic"))):
                    continue
                jobs.append(((a, b, c), ctx.scratch, "same3_%s%s_%s%s_%s%s" % (a + b + c)))
                prim = [x for x in (a, b, c) if x[1] == "p"][0]
                if prim[0] == "fsm":
                    # the same with MAPQ 0 on all records of the read (a consistent alignment is not subject to the MAPQ filters)
                    jobs.append(((a, b, c), ctx.scratch, "same3_mq0_%s%s_%s%s_%s%s" % (a + b + c)))
    if not quick:
        for a, b, c in itertools.combinations_with_replacement([("fsm", "p"), ("fsm", "s"), ("ism_amb", "s"), ("incons", "s"), ("intergenic", "s")], 3):
            jobs.append(((a, b, c), ctx.scratch, "%s%s_%s%s_%s%s" % (a + b + c)))
    nruns = 0
    distinct = set()
    for assign, n, vals, errs in core.pmap(l2_case, jobs):
        nruns += n
        distinct.update(vals)
        for key, msg in errs:
            ctx.violation("l2:%s" % key if key.startswith("weight-above-one") else "l2:%s:%s" % (key, "+".join("%s%s" % a for a in sorted(assign))), "alignments %s: %s" % (list(assign), msg), {"assign": list(assign)})
    ctx.note("L2 pipeline: %d scenarios, %d runs, %d distinct retained-loci outcomes" % (len(jobs), nruns, len(distinct)))
    ctx.coverage.update({
        "states": len(multisets) + len(jobs), "transitions": total + nruns, "traces_validated_against_impl": total + nruns,
        "depth": k, "alphabet_records": R, "pipeline_scenarios": len(jobs), "pipeline_runs": nruns,
        "distinct_outcomes": len(distinct), "exhaustive": True,
        "evaluations": total + nruns, "distinct_nontrivial": nontriv,
        "rule": "state = multiset of alignment records of one read; transition = one presentation order; non-trivial = records of "
                ">=2 priority classes or a tie between >=2 kept loci",
        "samples": [[(recs[i]["chr"], recs[i]["type"], recs[i]["secondary"]) for i in multisets[0]], {"pipeline": [list(x) for x in jobs[0][0]]}],
    })
    ctx.assumptions += ["records called duplicates agree in every field except assignment id (exact BAM duplicates)",
                        "fully tied unassigned (noninformative/intergenic) loci: the statement does not say which survives; any one is "
                        "accepted by the priority oracle, order-independence is still required"]


def replay(ctx, case):
    recs = case["records"]
    n, nt, bad, oc = l1_chunk(([tuple(range(len(recs)))], recs))
    return bad[0][3] if bad else None
