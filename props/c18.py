"""C18 — strand and canonical-site flags are pure functions of the reference sequence.

L1: explicit-state search over query histories (<=k) of the real IOSupport.check_sites_are_canonical /
add_canonical_info_for_model on one GeneInfo with a reference sequence; state = memo table; oracle = reference function
of (FASTA, intron, strand) and history-independence (differential: same query on a fresh object).
L2: pipeline with --check_canonical: antisense genes sharing an intron, reads of both genes in every processing
order, novel loci with +/-/non-canonical sites and polyA/polyT evidence, all --report_canonical levels.
"""
import itertools
import os
import shutil
from types import SimpleNamespace

from vlib import core

LEVEL = "model_checking"

FWD = {("GT", "AG"), ("GC", "AG"), ("AT", "AC")}
REV = {("CT", "AC"), ("CT", "GC"), ("GT", "AT")}


def ref_canonical(seq, intron, strand, seq_start=1):
    l = seq[intron[0] - seq_start:intron[0] - seq_start + 2].upper()
    r = seq[intron[1] - seq_start - 1:intron[1] - seq_start + 1].upper()
    if strand == "+":
        return (l, r) in FWD
    if strand == "-":
        return (l, r) in REV
    return None


# ------------------------------------------------------------------------------------------------ L1
INTRON_CLASSES = [("+", "GT", "AG"), ("-", "CT", "AC"), ("gc+", "GC", "AG"), ("at+", "AT", "AC"), ("gc-", "CT", "GC"),
                  ("at-", "GT", "AT"), ("nc", "CC", "GG"), ("lower+", "gt", "ag"), ("half", "GT", "AC")]


def l1_search(depth):
    from src.gene_info import GeneInfo, TranscriptModel, TranscriptModelType
    from src.assignment_io import IOSupport
    seq = list("C" * 2000)
    introns = []
    for i, (name, l, r) in enumerate(INTRON_CLASSES):
        s = 101 + 150 * i
        e = s + 99
        seq[s - 1:s + 1] = list(l)
        seq[e - 2:e] = list(r)
        introns.append((s, e))
    seq = "".join(seq)
    io = IOSupport(SimpleNamespace())

    def fresh():
        gi = GeneInfo.from_region("chr1", 1, 2000, delta=6)
        gi.set_reference_sequence(1, 2000, seq)
        return gi
    queries = []
    for i, it in enumerate(introns):
        for strand in ("+", "-", "."):
            queries.append(((it,), strand))
    # two-intron queries (a read/model with two introns): canonical pair + every other class
    for j in range(1, len(introns)):
        for strand in ("+", "-"):
            queries.append(((introns[0], introns[j]), strand))
    # model queries through add_canonical_info_for_model
    bad = []
    states = transitions = 0
    frontier = [()]
    seen = set()
    samples = []

    def execute(hist):
        gi = fresh()
        res = []
        for (its, strand) in hist:
            res.append(io.check_sites_are_canonical(list(its), gi, strand))
        return gi, res
    while frontier:
        nxt = []
        for hist in frontier:
            states += 1
            if len(hist) >= depth:
                continue
            for q in queries:
                transitions += 1
                h2 = hist + (q,)
                gi, res = execute(h2)
                its, strand = q
                if strand in "+-":
                    exp = all(ref_canonical(seq, i, strand) for i in its)
                else:
                    exp = execute((q,))[1][0]          # unspecified strand: only history independence is required
                if res[-1] != exp:
                    fresh_res = execute((q,))[1][0]
                    cls = "+".join(INTRON_CLASSES[(it[0] - 101) // 150][0] for it in its)
                    kind = "l1:history-dependent" if fresh_res == exp else "l1:wrong-on-fresh:%s:%s" % (cls, strand)
                    bad.append((h2, kind, "query %s strand %s after history %s returned %s, reference function gives %s" %
                                (list(its), strand, [(list(a), b) for a, b in hist], res[-1], exp)))
                    continue
                key = tuple(sorted((repr(k), v) for k, v in gi.canonical_sites.items()))
                if key not in seen:
                    seen.add(key)
                    nxt.append(h2)
                    if len(samples) < 3 and len(h2) >= min(depth, 2):
                        samples.append([(list(a), b) for a, b in h2])
        frontier = nxt
    # models: Canonical attribute via add_canonical_info_for_model, all ordered pairs of (intron, strand) models
    nmodel = 0
    model_specs = [(it, s) for it in introns for s in ("+", "-")]
    for a, b in itertools.permutations(model_specs, 2):
        gi = fresh()
        nmodel += 1
        transitions += 2
        out = []
        for (it, strand) in (a, b):
            m = TranscriptModel("chr1", strand, "t", "g", [(it[0] - 50, it[0] - 1), (it[1] + 1, it[1] + 50)],
                                TranscriptModelType.novel_not_in_catalog)
            io.add_canonical_info_for_model(m, gi)
            out.append(m.additional_info.get("Canonical"))
        exp = [str(ref_canonical(seq, it, s)) for it, s in (a, b)]
        if out != exp:
            bad.append(((a, b), "l1:model-memo", "models %s then %s got Canonical=%s, reference function gives %s" % (a, b, out, exp)))
    gi = fresh()
    m = TranscriptModel("chr1", "+", "t", "g", [(100, 300)], TranscriptModelType.novel_not_in_catalog)
    io.add_canonical_info_for_model(m, gi)
    if m.additional_info.get("Canonical") != "Unspliced":
        bad.append((("mono",), "l1:mono", "mono-exonic model got Canonical=%s" % m.additional_info.get("Canonical")))
    return states, transitions, nmodel, bad, samples


def l1_strand_votes():
    """the strand implied by splice sites: every one of the 256 (left, right) dinucleotide pairs as a single intron x the four polyA/polyT
       evidence combinations, and every ordered pair of introns from the 6 canonical pairs, the 4 hybrid pairs (left site of one
       canonical pair with the right site of another), one half-site and one non-site, against the definition (an intron votes '+' iff
       its pair is one of GT-AG, GC-AG, AT-AC, '-' iff it is a reverse complement of those; majority; ties decided by the tail evidence)"""
    from src.gene_info import StrandDetector
    nts = "ACGT"
    dinucs = [a + b for a in nts for b in nts]
    pairs = [(l, r) for l in dinucs for r in dinucs]
    seq = list("C" * (150 * len(pairs) + 300))
    introns = []
    for i, (l, r) in enumerate(pairs):
        s_ = 101 + 150 * i
        e_ = s_ + 99
        seq[s_ - 1:s_ + 1] = list(l)
        seq[e_ - 2:e_] = list(r)
        introns.append((s_, e_))
    seq = "".join(seq)
    vote = lambda p: "+" if p in FWD else ("-" if p in REV else ".")

    def model(ps, pa, pt):
        f = sum(1 for p in ps if vote(p) == "+")
        r = sum(1 for p in ps if vote(p) == "-")
        if f == r:
            return "+" if pa and not pt else ("-" if pt and not pa else ".")
        return "+" if f > r else "-"

    def clean(ps):
        f = sum(1 for p in ps if vote(p) == "+")
        r = sum(1 for p in ps if vote(p) == "-")
        # "all splice sites must be canonical from the same strand, not just the majority" (the function's own comment; the documented
        # meaning of --report_canonical only_canonical): an intron that is canonical on neither strand makes the chain unclean
        return "-" if (r == len(ps) and r > 0) else ("+" if (f == len(ps) and f > 0) else ".")
    bad = []
    n = 0
    special = sorted(FWD | REV) + [("AT", "AG"), ("GC", "AC"), ("CT", "AT"), ("GT", "GC"), ("GT", "AC"), ("GT", "CC"), ("CC", "GG")]
    queries = [(p,) for p in pairs] + [(a, b) for a in special for b in special]
    for ps in queries:
        its = [introns[pairs.index(p)] for p in ps]
        for pa in (False, True):
            for pt in (False, True):
                n += 1
                sd = StrandDetector(seq)          # fresh: no memo from earlier queries
                got = sd.get_strand(list(its), pa, pt)
                exp = model(ps, pa, pt)
                if got != exp:
                    bad.append((ps, "l1:strand-vote:%s" % ("single" if len(ps) == 1 else "pair"),
                                "introns with sites %s, polyA=%s polyT=%s: get_strand says %s, the definition gives %s" % (list(ps), pa, pt, got, exp)))
        n += 1
        got = StrandDetector(seq).get_clean_strand(list(its))
        if got != clean(ps):
            bad.append((ps, "l1:clean-strand:%s" % ("single" if len(ps) == 1 else "pair"),
                        "introns with sites %s: get_clean_strand says %s, the definition gives %s" % (list(ps), got, clean(ps))))
    return n, bad


# ------------------------------------------------------------------------------------------------ L2
def antisense_world(order, lower=False):
    """GP(+): exons A B C ; GM(-): exons Z B C (Z left of A or right) sharing intron B-C.  Intron B-C is canonical for '+'.
       order: sequence of 'p'/'m' giving the coordinate order (= processing order) of the reads"""
    from vlib import worlds as W
    w = W.base_world(1, 12000)
    A, B, C = [2001, 2200], [2601, 2800], [3201, 3400]
    Z = [1401, 1600]
    w["genes"].append({"id": "GP", "chr": "chr1", "strand": "+", "transcripts": [{"id": "TP", "exons": [A, B, C]}]})
    w["genes"].append({"id": "GM", "chr": "chr1", "strand": "-", "transcripts": [{"id": "TM", "exons": [Z, B, C]}]})
    w["sites"] = [["chr1", 2201, 2600, "+"], ["chr1", 2801, 3200, "+"], ["chr1", 1601, 2600, "-"]]
    reads = []
    # start offsets decide the order in the BAM: GP reads start inside A (2001..2150), GM reads inside Z (1401..1550)
    # to interleave freely both kinds are 5'/3'-truncated to start inside B?  No: keep full chains, and put GM first or later by
    # using a second copy of the pair on a shifted locus is unnecessary: GM reads always start left of GP reads.  To obtain
    # the other orders the roles are mirrored: see antisense_world_mirrored.
    for i, k in enumerate(order):
        if k == "p":
            reads.append(W.read_of("p%d" % i, "chr1", [[2001 + 10 * i, 2200], B, C], strand="+"))
        else:
            reads.append(W.read_of("m%d" % i, "chr1", [[1401 + 10 * i, 1600], B, C], strand="-"))
    w["reads"] = reads
    if lower:
        w["patches"] = []
    return w


def antisense_world2(order):
    """free interleaving: GP(+): A B C, GM(-): B C D (D right of C) ; reads truncated at the 5'/3' side start inside A or B.
       GP read blocks: [A', B, C] starting at 2001+off ; GM read blocks: [B', C, D] starting at 2601+off.
       To let a GM read come first in coordinate order, GP reads may be truncated to start inside B too: [B'', C] would be ISM of
       both genes -> ambiguous, so instead the two gene copies are laid out twice with swapped roles (locus 1: '+' gene left,
       locus 2: '-' gene left); both loci are far apart but the extended annotation shares one memo per chromosome."""
    from vlib import worlds as W
    w = W.base_world(1, 16000)
    reads = []
    genes = []
    sites = []
    for li, (base, left_strand) in enumerate(((2000, "+"), (8000, "-"))):
        A = [base + 1, base + 200]
        B = [base + 601, base + 800]
        C = [base + 1201, base + 1400]
        D = [base + 1801, base + 2000]
        right_strand = "-" if left_strand == "+" else "+"
        genes.append({"id": "GL%d" % li, "chr": "chr1", "strand": left_strand, "transcripts": [{"id": "TL%d" % li, "exons": [A, B, C]}]})
        genes.append({"id": "GR%d" % li, "chr": "chr1", "strand": right_strand, "transcripts": [{"id": "TR%d" % li, "exons": [B, C, D]}]})
        # shared intron B-C canonical for '+' in locus 0 and for '-' in locus 1; private introns canonical for their own gene
        sites.append(["chr1", A[1] + 1, B[0] - 1, left_strand])
        sites.append(["chr1", B[1] + 1, C[0] - 1, "+" if li == 0 else "-"])
        sites.append(["chr1", C[1] + 1, D[0] - 1, right_strand])
        for i, k in enumerate(order):
            if k == "l":
                reads.append(W.read_of("L%d_%d" % (li, i), "chr1", [[A[0] + 10 * i, A[1]], B, C], strand=left_strand))
            else:
                reads.append(W.read_of("R%d_%d" % (li, i), "chr1", [[B[0] + 10 * i, B[1]], C, D], strand=right_strand))
    w["genes"] = genes
    w["sites"] = sites
    w["reads"] = reads
    return w


def antisense_novel_world(variant):
    """antisense_world2 loci (an intron annotated on both strands, canonical for the left gene's strand in locus 0 and for the right
    gene's... see there) plus reads of a NOVEL isoform per locus whose chain contains the shared intron and one unannotated
    non-canonical intron, with polyA/polyT evidence agreeing with the shared intron's dinucleotides.  variant 0: known reads of
    both genes present; 1: only the novel reads; 2: novel reads plus known reads of the gene whose strand disagrees"""
    from vlib import worlds as W
    w = antisense_world2(("l", "r") if variant == 0 else ())
    reads = list(w["reads"])
    loci = []
    for li, base in enumerate((2000, 8000)):
        A, B, C, D = [base + 1, base + 200], [base + 601, base + 800], [base + 1201, base + 1400], [base + 1801, base + 2000]
        true_strand = "+" if li == 0 else "-"        # strand for which the shared intron B-C is canonical in the FASTA
        if li == 0:
            E = [base + 2401, base + 2600]
            blocks = [A, B, C, E]
            w["sites"].append(["chr1", C[1] + 1, E[0] - 1, "nc"])
        else:
            E = [base - 399, base - 200]
            blocks = [E, A, B, C]
            w["sites"].append(["chr1", E[1] + 1, A[0] - 1, "nc"])
        for i in range(6):
            reads.append(W.read_of("nov%d_%d" % (li, i), "chr1", blocks, strand=true_strand))
        if variant == 2:
            # known reads of the gene annotated on the other strand only
            left_strand = "+" if li == 0 else "-"
            if left_strand != true_strand:
                reads.append(W.read_of("kl%d" % li, "chr1", [A, B, C], strand=left_strand))
            else:
                reads.append(W.read_of("kr%d" % li, "chr1", [B, C, D], strand="-" if left_strand == "+" else "+"))
        loci.append(("antinovel%d" % li, "chr1", base - 500, true_strand, true_strand))
    w["reads"] = reads
    return w, loci


def shared_intron_world(m_first, with_known):
    """gene P (+, 4 exons) and gene M (-, 2 exons) overlap and share P's first intron, which the FASTA makes canonical for '+' only;
       reads of a novel isoform use the shared intron plus one unannotated intron that is canonical on neither strand (annotated
       donor, background acceptor) and carry a polyA tail: every piece of evidence says '+'.  m_first: M starts left of P (order in
       which the annotation is iterated)"""
    from vlib import worlds as W
    b = 2000
    P = [[b + 1, b + 200], [b + 501, b + 700], [b + 1001, b + 1200], [b + 1801, b + 2000]]
    M = [[b - 99 if m_first else b + 101, b + 200], [b + 501, b + 650]]
    w = W.base_world(1, 8000)
    w["genes"].append({"id": "P", "chr": "chr1", "strand": "+", "transcripts": [{"id": "TP", "exons": P}]})
    w["genes"].append({"id": "M", "chr": "chr1", "strand": "-", "transcripts": [{"id": "TM", "exons": M}]})
    w["sites"] = [["chr1", P[i][1] + 1, P[i + 1][0] - 1, "+"] for i in range(3)]
    reads = [W.read_of("nov_%d" % i, "chr1", [P[0], P[1], [b + 1401, b + 1600]], strand="+") for i in range(8)]
    if with_known:
        reads += [W.read_of("kp_%d" % i, "chr1", P, strand="+") for i in range(3)]
        reads += [W.read_of("km_%d" % i, "chr1", M, strand="-") for i in range(3)]
    w["reads"] = reads
    return w


def majority_world(with_known):
    """a novel four-exon isoform whose first two introns are unannotated and canonical for '+' and whose third intron is the (CT-AC,
       i.e. '-' canonical) intron of an annotated '-' gene M; the reads carry polyA tails: the splice sites vote 2:1 for '+', the tail
       agrees - the model is a '+' transcript whatever gene its third intron is annotated in"""
    from vlib import worlds as W
    b = 2000
    A, B, C, D = [b + 1, b + 200], [b + 501, b + 700], [b + 1001, b + 1200], [b + 1601, b + 1800]
    w = W.base_world(1, 8000)
    w["genes"].append({"id": "M", "chr": "chr1", "strand": "-", "transcripts": [{"id": "TM", "exons": [C, D]}]})
    w["sites"] = [["chr1", A[1] + 1, B[0] - 1, "+"], ["chr1", B[1] + 1, C[0] - 1, "+"], ["chr1", C[1] + 1, D[0] - 1, "-"]]
    reads = [W.read_of("nov_%d" % i, "chr1", [A, B, C, D], strand="+") for i in range(8)]
    if with_known:
        reads += [W.read_of("km_%d" % i, "chr1", [C, D], strand="-") for i in range(3)]
    w["reads"] = reads
    return w


def undecided_sites_world(variant):
    """novel spliced isoforms ANTISENSE to an annotated '+' gene P and overlapping it, whose splice sites do not decide the strand -
       locus 0: both introns non-canonical on both strands; locus 1: one intron of P (GT-AG) and one CT-AC intron (a 1:1 tie) - and whose
       reads are '-' reads with polyT heads: the tails are the only deciding evidence, the models are '-' transcripts.
       variant 1: the reads of the annotated gene are present as well"""
    from vlib import worlds as W
    w = W.base_world(1, 12000)
    loci = []
    w["sites"] = []
    for li, b in enumerate((2000, 7000)):
        P = [[b + 1, b + 200], [b + 501, b + 700], [b + 1001, b + 1200], [b + 1501, b + 1700]]
        w["genes"].append({"id": "P%d" % li, "chr": "chr1", "strand": "+", "transcripts": [{"id": "TP%d" % li, "exons": P}]})
        w["sites"] += [["chr1", P[i][1] + 1, P[i + 1][0] - 1, "+"] for i in range(3)]
        if li == 0:
            nov = [[b + 251, b + 400], [b + 751, b + 900], [b + 1251, b + 1400]]          # inside P's introns, sites 'nc'
            w["sites"] += [["chr1", nov[0][1] + 1, nov[1][0] - 1, "nc"], ["chr1", nov[1][1] + 1, nov[2][0] - 1, "nc"]]
            kind = "nc"
        else:
            nov = [P[0], P[1], [b + 851, b + 950]]                                        # P's first intron (GT-AG) + a CT-AC intron
            w["sites"] += [["chr1", P[1][1] + 1, b + 850, "-"]]
            kind = "tie"
        for i in range(8):
            w["reads"].append(W.read_of("und%d_%d" % (li, i), "chr1", nov, strand="-"))
        if variant == 1:
            for i in range(3):
                w["reads"].append(W.read_of("kp%d_%d" % (li, i), "chr1", P, strand="+"))
        loci.append(("undecided%d" % li, "chr1", b - 500, kind, "-"))
    return w, loci


def islands_world(variant):
    """a 6-exon '+' gene (all introns GT-AG) whose reads form two disjoint islands (exons 1-3 and exons 4-6): the reference window of a
       region is the island, annotated introns of a reported known isoform lie outside it; island B also carries a novel isoform
       (exon 5 skipped).  variant 1: a second gene right at the chromosome start (read region starting at base 1)"""
    from vlib import worlds as W, syn
    if variant == 4:
        # a locus longer than 32 kb (split into sub-regions at coverage valleys): a read of the two-exon gene GL with a third exon 20 kb
        # further reaches beyond the sub-region it is processed in; all its introns are GT-AG
        w = W.base_world(1, 45000)
        ex = [[1001, 1300], [20001, 20300]]
        w["genes"].append({"id": "GL", "chr": "chr1", "strand": "+", "transcripts": [{"id": "TL", "exons": ex}]})
        syn.plant_for_transcripts(w)
        W.add_sites_for_blocks(w, "chr1", ex + [[40001, 40300]], "+")
        W.dedup_sites(w)
        w["reads"] = [W.read_of("long_%d" % i, "chr1", ex + [[40001, 40300]]) for i in range(1)] + \
                     [W.read_of("fsm_%d" % i, "chr1", ex) for i in range(3)]
        return w
    w = W.base_world(1, 12000)
    ex = [[2001 + 600 * i, 2200 + 600 * i] for i in range(6)]
    w["genes"].append({"id": "GI", "chr": "chr1", "strand": "+", "transcripts": [{"id": "TI", "exons": ex}]})
    if variant == 3:
        # the reference is an earlier IsoQuant output: its transcripts already carry a (here: wrong) Canonical attribute
        w["genes"][0]["transcripts"][0]["attrs"] = {"Canonical": "False"}
    if variant == 1:
        w["genes"].append({"id": "GE", "chr": "chr1", "strand": "+", "transcripts": [{"id": "TE", "exons": [[1, 300], [601, 900], [1201, 1500]]}]})
    syn.plant_for_transcripts(w)
    if variant == 5:
        # the last annotated intron is not canonical on either strand: reads that cover only the first three exons (uniquely assigned,
        # all their own introns GT-AG) are canonical, full-length reads are not
        w["sites"] = [[c, s_, e_, ("nc" if (s_, e_) == (ex[4][1] + 1, ex[5][0] - 1) else k)] for c, s_, e_, k in w["sites"]]
    W.add_sites_for_blocks(w, "chr1", [ex[3], ex[5]], "+")
    W.add_sites_for_blocks(w, "chr1", [ex[5], [5601, 5850]], "+")
    W.dedup_sites(w)
    reads = []
    for i in range(5):
        reads.append(W.read_of("ia_%d" % i, "chr1", ex[:3], polya=False))
        reads.append(W.read_of("ib_%d" % i, "chr1", ex[3:]))
        reads.append(W.read_of("in_%d" % i, "chr1", [ex[3], ex[5]]))
        reads.append(W.read_of("ix_%d" % i, "chr1", [ex[3], ex[4], ex[5], [5601, 5850]]))     # novel exon beyond the gene end (island B only)
        if variant == 1:
            reads.append(W.read_of("ie_%d" % i, "chr1", [[1, 300], [601, 900], [1201, 1500]]))
    if variant == 2:
        # unannotated spliced reads aligned from base 1 of the chromosome
        e = [[1, 300], [601, 900], [1201, 1500]]
        W.add_sites_for_blocks(w, "chr1", e, "+")
        W.dedup_sites(w)
        reads += [W.read_of("iu_%d" % i, "chr1", e) for i in range(5)]
    w["reads"] = reads
    return w


def novel_world(swap=False):
    """intergenic novel loci: '+' sites with polyA reads, '-' sites with polyT reads, non-canonical sites with polyA / polyT,
       contradicting evidence ('+' sites with polyT head); the second chromosome carries loci at the SAME coordinates with the
       opposite site kind (per-process memos keyed by coordinates only would leak between chromosomes); swap = which
       chromosome is longer, i.e. processed first"""
    from vlib import worlds as W
    from vlib import syn
    w = {"chroms": {"chr1": 23000 if not swap else 22000, "chr2": 22000 if not swap else 23000}, "genes": [], "reads": [], "sites": []}
    w["genes"].append(W.locus_gene("G1", "chr2", "+", 13000, {"T1": [0, 1, 2]}))
    syn.plant_for_transcripts(w)
    reads = []
    loci = [("plusA", "chr1", 1000, "+", "+"), ("minusT", "chr1", 4000, "-", "-"), ("ncA", "chr1", 7000, "nc", "+"),
            ("ncT", "chr1", 10000, "nc", "-"), ("plusT", "chr1", 13000, "+", "-"),
            ("minusT2", "chr2", 1000, "-", "-"), ("plusA2", "chr2", 4000, "+", "+"), ("ncT2", "chr2", 7000, "nc", "-"),
            ("ncA2", "chr2", 10000, "nc", "+"),
            # as many '+' canonical as '-' canonical introns: the splice sites are uninformative, the tail decides
            ("tieA", "chr1", 16000, "tie", "+"), ("tieT", "chr1", 19000, "tie", "-"), ("tieT2", "chr2", 16000, "tie", "-"),
            # two introns canonical on '+' and a third one canonical on neither strand: the strand is clear, the transcript is not canonical
            ("mixA", "chr2", 19000, "mix", "+")]
    for name, chrom, base, kind, tail in loci:
        blocks = W.exons(base, [0, 1, 2]) if kind != "mix" else W.exons(base, [0, 1, 2, 3])
        if kind == "mix":
            W.add_sites_for_blocks(w, chrom, blocks[:3], "+")
            W.add_sites_for_blocks(w, chrom, blocks[2:], "nc")
        elif kind == "tie":
            W.add_sites_for_blocks(w, chrom, blocks[:2], "+")
            W.add_sites_for_blocks(w, chrom, blocks[1:], "-")
        else:
            W.add_sites_for_blocks(w, chrom, blocks, kind)
        for i in range(6):
            reads.append(W.read_of("%s_%d" % (name, i), chrom, blocks, strand=tail))
    for i in range(3):
        reads.append(W.read_of("k_%d" % i, "chr2", W.exons(13000, [0, 1, 2])))
    w["reads"] = reads
    return w, loci


def pipeline_case(args):
    kind, param, scratch = args
    from vlib import syn, run
    d = os.path.join(scratch, "c18_%s_%s" % (kind, "".join(map(str, param)) if not isinstance(param, str) else param.replace("/", "_")))
    shutil.rmtree(d, ignore_errors=True)
    errs = []
    loci = None
    extra = ["--check_canonical"]
    if kind == "anti":
        w = antisense_world2(param)
    elif kind == "antinovel":
        w, loci = antisense_novel_world(param[0])
        extra += ["--report_canonical", param[1], "--model_construction_strategy", "all"]
    elif kind == "undecided":
        w, loci = undecided_sites_world(param[0])
        extra += ["--report_canonical", "all", "--model_construction_strategy", "all", "--polya_requirement", param[1]]
    elif kind == "shared":
        w = None
    elif kind == "islands":
        w = islands_world(param[0])
        extra += ["--report_canonical", param[1], "--model_construction_strategy", "all"]
    elif kind == "mixed":
        # the multi-chromosome world of C06/C10: novel isoforms whose extra exons lie beyond the annotated gene's end (canonical sites
        # planted), novel genes, ISM and mono-exonic reads, multimappers
        from vlib import worlds as W
        w = W.mixed_world(param[0], groups=False, multimappers=True)
        extra += ["--report_canonical", param[1], "--model_construction_strategy", "all"]
    else:
        w, loci = novel_world(swap="/swap" in param)
        extra += ["--report_canonical", param.split("/")[0], "--model_construction_strategy", "all"]
        if "/nopolya" in param:
            extra += ["--polya_requirement", "never"]
    if kind == "shared":
        from props import c11
        m_first, with_known, reflect, lvl = param
        w = shared_intron_world(m_first, with_known) if m_first < 2 else majority_world(with_known)
        seqs = syn.genome_sequences(w)
        true_strand = "+"
        if reflect:
            w, seqs = c11.reflect_world(w, seqs)
            true_strand = "-"
        loci = [("shared-intron", "chr1", 0, true_strand, true_strand)]
        extra += ["--report_canonical", lvl, "--model_construction_strategy", "all"]
        paths = c11.write_world(w, seqs, d)
    else:
        paths = syn.materialise(w, d)
        seqs = syn.genome_sequences(w)
    out = os.path.join(d, "out")
    rc = run.run_isoquant(run.base_argv(paths, out, extra=extra), paths["home"], os.path.join(d, "o.txt"))
    if rc != 0:
        errs.append(("run-failed", "exit %d %s" % (rc, open(os.path.join(d, "o.txt")).read()[-300:])))
        shutil.rmtree(d, ignore_errors=True)
        return kind, param, 0, errs
    rows = run.parse_assignments(run.find(out, "OUT", ".read_assignments.tsv"))
    nchecked = 0
    for r in rows:
        if r["isoform_id"] == ".":
            continue
        canon = r["info"].get("Canonical")
        ex = r["exon_list"]
        introns = [(ex[i][1] + 1, ex[i + 1][0] - 1) for i in range(len(ex) - 1)]
        if not introns:
            exp = "Unspliced"
        elif r["strand"] in "+-":
            exp = str(all(ref_canonical(seqs[r["chr"]], i, r["strand"]) for i in introns))
        else:
            continue
        nchecked += 1
        if canon != exp:
            errs.append(("read-canonical", "read %s strand %s introns %s: Canonical=%s, reference sequence says %s" %
                         (r["read_id"], r["strand"], introns, canon, exp)))
    for fn in ("OUT.transcript_models.gtf", "OUT.extended_annotation.gtf"):
        p = os.path.join(out, "OUT", fn)
        if not os.path.exists(p):
            continue
        for l in open(p):
            if "\ttranscript\t" in l and l.count('Canonical "') > 1:
                errs.append(("model-canonical-twice:" + fn.split(".")[1], "%s: a transcript record carries several Canonical attributes: %s" %
                             (fn, l.strip().split("\t")[8][:160])))
                break
        ts = run.gtf_transcripts(run.parse_gtf(p))
        for tid, t in ts.items():
            ex = sorted(t["exons"])
            introns = [(ex[i][1] + 1, ex[i + 1][0] - 1) for i in range(len(ex) - 1)]
            canon = t["attrs"].get("Canonical")
            if canon is None:
                errs.append(("model-no-canonical", "%s %s has no Canonical attribute" % (fn, tid)))
                continue
            if not introns:
                exp = "Unspliced"
            elif t["strand"] in "+-":
                exp = str(all(ref_canonical(seqs[t["chr"]], i, t["strand"]) for i in introns))
            else:
                continue
            nchecked += 1
            if canon != exp:
                errs.append(("model-canonical:" + fn.split(".")[1], "%s %s strand %s introns %s: Canonical=%s, reference sequence says %s" %
                             (fn, tid, t["strand"], introns, canon, exp)))
            # documented meaning of the level: only_canonical reports novel transcripts "which contain only canonical splice sites"
            if "only_canonical" in extra and introns and not tid.startswith("T") and fn == "OUT.transcript_models.gtf" and exp != "True":
                errs.append(("only-canonical-reports-noncanonical", "%s strand %s introns %s is reported under --report_canonical only_canonical "
                             "although the reference sequence says not all of its introns are canonical" % (tid, t["strand"], introns)))
            # strand of novel spliced transcripts vs evidence
            if loci and introns and not tid.startswith("T"):
                for name, chrom_, base, kind_, tail in loci:
                    if t["chr"] == chrom_ and ex[0][0] >= base and ex[-1][1] <= base + (3000 if base else 10 ** 9):
                        site_strand = {"+": "+", "-": "-", "nc": ".", "tie": ".", "mix": "+"}[kind_]
                        if site_strand != ".":
                            if t["strand"] != site_strand:
                                errs.append(("novel-strand-vs-sites", "%s locus %s: strand %s but splice sites imply %s" %
                                             (tid, name, t["strand"], site_strand)))
                        else:
                            if kind == "undecided" and t["strand"] != tail:
                                errs.append(("novel-strand-vs-polya", "%s locus %s: strand %s, the splice sites are uninformative and every read has "
                                             "a poly%s tail: %s" % (tid, name, t["strand"], "T" if tail == "-" else "A", tail)))
                            elif t["strand"] in "+-" and t["strand"] != tail:
                                errs.append(("novel-strand-vs-polya", "%s locus %s: strand %s but only evidence (polyA/T) implies %s" %
                                             (tid, name, t["strand"], tail)))
    # differential oracle (history independence): strands / Canonical flags of one chromosome must not depend on what was
    # processed on the other chromosome before -> re-run with the reads of a single chromosome and compare that chromosome
    if kind == "novel":
        def summary(outdir, chrom):
            ms = set()
            p_ = os.path.join(outdir, "OUT", "OUT.transcript_models.gtf")
            for tid, t in run.gtf_transcripts(run.parse_gtf(p_)).items():
                if t["chr"] == chrom:
                    ms.add((tuple(sorted(t["exons"])), t["strand"], t["attrs"].get("Canonical")))
            rs = set()
            for r in run.parse_assignments(run.find(outdir, "OUT", ".read_assignments.tsv")):
                if r["chr"] == chrom:
                    rs.add((r["read_id"], r["strand"], r["info"].get("Canonical")))
            return ms, rs
        for chrom in ("chr1", "chr2"):
            w1 = dict(w, reads=[r for r in w["reads"] if r.get("chr") == chrom])
            d1 = os.path.join(d, "only_" + chrom)
            p1 = syn.materialise(w1, d1)
            o1 = os.path.join(d1, "out")
            rc1 = run.run_isoquant(run.base_argv(p1, o1, extra=extra), p1["home"], os.path.join(d1, "o.txt"))
            if rc1 != 0:
                errs.append(("run-failed", "single-chromosome run exit %d" % rc1))
                continue
            mj, rj = summary(out, chrom)
            ms_, rs_ = summary(o1, chrom)
            nchecked += len(ms_) + len(rs_)
            if mj != ms_:
                errs.append(("history-dependent-models", "%s: models (exons, strand, Canonical) differ when the other chromosome is "
                             "processed in the same run: only-joint %s only-alone %s" % (chrom, sorted(mj - ms_)[:2], sorted(ms_ - mj)[:2])))
            if rj != rs_:
                errs.append(("history-dependent-reads", "%s: read strand/Canonical differ when the other chromosome is processed "
                             "in the same run: %s vs %s" % (chrom, sorted(rj - rs_)[:2], sorted(rs_ - rj)[:2])))
    shutil.rmtree(d, ignore_errors=True)
    return kind, param, nchecked, errs


def run(ctx):
    quick = ctx.tier == "quick"
    depth = 2 if quick else 3
    states, transitions, nmodel, bad, samples = l1_search(depth)
    for hist, kind, msg in bad:
        ctx.violation(kind, msg, {"history": str(hist)})
    ctx.note("L1 query-history search depth %d: %d states, %d transitions, %d model pairs" % (depth, states, transitions, nmodel))
    nv, badv = l1_strand_votes()
    for ps, kind, msg in badv:
        ctx.violation(kind, msg, {"sites": [list(p) for p in ps]})
    transitions += nv
    ctx.note("L1 strand votes: %d evaluations (all 256 dinucleotide pairs x tail evidence, all ordered pairs of 17 site classes)" % nv)
    n = 3 if quick else 4
    orders = sorted(set(itertools.product("lr", repeat=n)) - {("l",) * n, ("r",) * n})
    jobs = [("anti", o, ctx.scratch) for o in orders] + [("antinovel", (v, lvl), ctx.scratch) for v in (0, 1, 2) for lvl in ("all", "auto")] + \
        [("islands", (v, lvl), ctx.scratch) for v in (0, 1, 2, 3, 4, 5) for lvl in ("auto", "all")] + \
        [("mixed", (n, lvl), ctx.scratch) for n in ((2,) if quick else (1, 2, 3)) for lvl in ("auto", "all")] + \
        [("undecided", (v, pr), ctx.scratch) for v in (0, 1) for pr in ("never", "auto")] + [("shared", (mf, wk, rf, lvl), ctx.scratch) for mf in (0, 1, 2) for wk in (0, 1) for rf in (0, 1) for lvl in ("all", "auto")] + [("novel", lvl + sw, ctx.scratch) for lvl in ("auto", "only_canonical", "only_stranded", "all") for sw in ("", "/swap", "/nopolya")]
    nchecked = 0
    for kind, param, nc, errs in core.pmap(pipeline_case, jobs):
        nchecked += nc
        for key, msg in errs:
            ctx.violation("l2:%s:%s" % (kind, key), "%s %s: %s" % (kind, param, msg), {"kind": kind, "param": param})
    ctx.note("L2 pipeline: %d runs, %d Canonical flags compared with the FASTA" % (len(jobs), nchecked))
    ctx.coverage.update({
        "states": states, "transitions": transitions, "traces_validated_against_impl": transitions + len(jobs),
        "depth": depth, "model_pairs": nmodel, "pipeline_runs": len(jobs), "flags_checked": nchecked, "exhaustive": True,
        "samples": samples + [{"antisense_order": "".join(orders[0])}],
        "evaluations": transitions + len(jobs), "distinct_nontrivial": states,
        "rule": "state = memo table (gene_info.canonical_sites) after a query history; queries = 9 intron classes x 3 strands + 16 "
                "two-intron queries; histories that reach an already seen memo table are not extended",
    })
    ctx.assumptions += ["for strand '.' only history-independence is required (the statement defines canonicity on a reported strand)",
                        "state merging: check_sites_are_canonical reads only the memo and the immutable reference string"]


def replay(ctx, case):
    return "re-run ./check C18 (deterministic)"
