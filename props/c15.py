"""C15 — saved read assignments round-trip losslessly and can be reused.

L1 primitives on edge alphabets; L2 objects: default + <=2 non-default fields from per-field alphabets (real
ReadAssignment / IsoformMatch / MatchEvent / BasicReadAssignment / GeneInfo), incl. byte alignment of the abridged
reader; L3 explicit-state search over record streams (<=4 records) through TmpFileAssignmentPrinter and both
loaders + multimapper files; L4 pipeline: --keep_tmp run followed by --read_assignments run.
"""
import io
import itertools
import os
import shutil
from types import SimpleNamespace

from vlib import core

LEVEL = "model_checking"


# ------------------------------------------------------------------------------------------------ L1
def l1_primitives():
    import src.serialization as S
    bad = []
    n = 0

    def rt(w, r, v, eq=None):
        nonlocal n
        n += 1
        buf = io.BytesIO()
        try:
            w(v, buf)
            buf.write(b"\xAB\xCD")                      # sentinel: reader must stop exactly at the end
            buf.seek(0)
            got = r(buf)
            rest = buf.read()
        except Exception as e:  # noqa
            bad.append((w.__name__, repr(v)[:80], "EXC " + repr(e)))
            return
        if rest != b"\xAB\xCD":
            bad.append((w.__name__, repr(v)[:80], "reader consumed %d bytes too %s" %
                        (abs(len(rest) - 2), "few" if len(rest) > 2 else "many")))
        elif (eq(got, v) if eq else got != v):
            if eq is None:
                bad.append((w.__name__, repr(v)[:80], "read back %r" % (got,)))
    ints = [0, 1, 255, 256, (1 << 16) - 1, 1 << 16, (1 << 31) - 1, 1 << 31, (1 << 32) - 2]
    for v in ints:
        rt(S.write_int, S.read_int, v)
    for v in [0, 1, 255, 256, (1 << 16) - 2, (1 << 16) - 1]:
        rt(S.write_short_int, S.read_short_int, v)
    for v in [0, 1, -1, 2, -2, 65535, -65535, 65536, -65536, (1 << 31) - 1, -((1 << 31) - 1)]:
        rt(S.write_int_neg, S.read_int_neg, v)
    strs = ["", "a", "NA", "chr1", "x" * 255, "x" * 256, "x" * 65534, "gène", "β-cell", "細胞1", "é" * 300]
    # long strings: a modified-base tag (MM) of a long nanopore read copied with --bam_tags has tens of thousands of characters
    longs = ["x" * 65535, "x" * 65536, "C+m," + "1," * 40000]
    for v in strs + longs:
        rt(S.write_string, S.read_string, v)
    for v in strs + longs + [None]:
        rt(S.write_string_or_none, S.read_string_or_none, v)
    rt(S.write_dict, S.read_dict, {"MM": "C+m," + "1," * 40000, "k": 1})
    for k in range(0, 9):
        for bits in itertools.product([False, True], repeat=k):
            n += 1
            buf = io.BytesIO()
            S.write_bool_array(list(bits), buf)
            buf.seek(0)
            got = S.read_bool_array(buf, k)
            if got != list(bits):
                bad.append(("write_bool_array", bits, got))
    for lst in ([], [0], [1, 2, 3], [(1 << 31)], list(range(20))):
        rt(lambda v, o: S.write_list(v, o, S.write_int), lambda i: S.read_list(i, S.read_int), lst)
    for lst in ([], [-1], [-2, -1, 0, 1], [5, -5]):
        rt(lambda v, o: S.write_list(v, o, S.write_int_neg), lambda i: S.read_list(i, S.read_int_neg), lst)
    for lst in ([], ["a"], ["", "b", "c" * 300]):
        rt(lambda v, o: S.write_list(v, o, S.write_string), lambda i: S.read_list(i, S.read_string), lst)
    for lst in ([], [None], ["a", None, ""]):
        rt(lambda v, o: S.write_list(v, o, S.write_string_or_none), lambda i: S.read_list(i, S.read_string_or_none), lst)
    for lst in ([], [(1, 2)], [(1, 100), (200, 300), (1 << 31, 1 << 31)]):
        rt(lambda v, o: S.write_list_of_pairs(v, o, S.write_int), lambda i: S.read_list_of_pairs(i, S.read_int), lst)
    # every list length up to 300 and the lengths around 2^16 (a length byte or a 2-byte length would show here)
    for k in list(range(0, 301)) + [65535, 65536, 65537]:
        rt(lambda v, o: S.write_list(v, o, S.write_int), lambda i: S.read_list(i, S.read_int), list(range(k)))
        rt(lambda v, o: S.write_list_of_pairs(v, o, S.write_int), lambda i: S.read_list_of_pairs(i, S.read_int), [(10 * j + 1, 10 * j + 5) for j in range(k)])
        if k <= 300:
            rt(S.write_dict, S.read_dict, dict(("k%d" % j, j) for j in range(k)))
    vals = ["", "s", "x" * 300, 0, 1, -1, 65536, -65536, (1 << 31) - 1, -((1 << 31) - 1), (0, 0), (1, 2), (-1, 5), (3, -7), (-4, -4)]
    for v in vals:
        rt(S.write_dict, S.read_dict, {"k": v})
    for v1, v2 in itertools.permutations(vals, 2):
        rt(S.write_dict, S.read_dict, {"a": v1, "": v2})
    rt(S.write_dict, S.read_dict, {})
    return n, bad


# ------------------------------------------------------------------------------------------------ L2 objects
def _mods():
    import src.isoform_assignment as IA
    from src.polya_finder import PolyAInfo
    return IA, PolyAInfo


def default_event(IA):
    return IA.MatchEvent(IA.MatchEventSubtype.fsm)


def event_fields(IA):
    C = IA.SupplementaryMatchConstants
    regions = [C.undefined_region, C.extra_left_region, C.extra_right_region, (0, 0), (0, 3), (2, 2),
               (C.absent_position, C.absent_position)]
    return {
        "event_type": list(IA.MatchEventSubtype),
        "isoform_region": regions,
        "read_region": regions,
        "event_info": [0, 1, -1, 3000, -3000, (1 << 31) - 1, -((1 << 31) - 1)],
    }


def ev_state(e):
    return (e.event_type, tuple(e.isoform_region), tuple(e.read_region), e.event_info)


def default_match(IA):
    return IA.IsoformMatch(IA.MatchClassification.full_splice_match, "G1", "T1", default_event(IA), "+", 0)


def match_fields(IA):
    ev = default_event(IA)
    ev2 = IA.MatchEvent(IA.MatchEventSubtype.exon_elongation_left, (0, 0), (1, 1), -17)
    return {
        "assigned_gene": [None, "", "G" * 300, "G1"],
        "assigned_transcript": [None, "", "transcript7.chr1.nic", "T" * 65534],
        "transcript_strand": ["+", "-", "."],
        "match_classification": list(IA.MatchClassification),
        "penalty_score": [0, 0.0, 0.5, 1.0, 2.25, 1.0 / (1 << 20), 1000.0 + 3.0 / (1 << 20)],
        "match_subclassifications": [[], [ev], [ev, ev2], [ev2] * 5],
    }


def match_state(m):
    return (m.assigned_gene, m.assigned_transcript, m.transcript_strand, m.match_classification,
            float(m.penalty_score), tuple(ev_state(e) for e in m.match_subclassifications))


def default_ra(IA, PolyAInfo):
    ra = IA.ReadAssignment("read1", IA.ReadAssignmentType.unique, default_match(IA))
    ra.assignment_id = 7
    ra.genomic_region = (1000, 3000)
    ra.exons = [(1001, 1200), (1601, 1800)]
    ra.corrected_exons = [(1001, 1200), (1601, 1800)]
    ra.polya_info = PolyAInfo(-1, -1, -1, -1)
    ra.chr_id = "chr1"
    ra.strand = "+"
    ra.mapped_strand = "+"
    ra.mapping_quality = 60
    return ra


def ra_fields(IA, PolyAInfo):
    m = default_match(IA)
    m2 = IA.IsoformMatch(IA.MatchClassification.novel_in_catalog, "G2", "T2",
                         [IA.MatchEvent(IA.MatchEventSubtype.intron_retention, (1, 1), (0, 0), 0)], "-", 1.5)
    m3 = IA.IsoformMatch(IA.MatchClassification.intergenic)
    return {
        "assignment_id": [0, 1, (1 << 32) - 2],
        "read_id": ["", "r", "read/with:odd_chars|x", "x" * 65535],
        "genomic_region": [(0, 0), (1, 1), (1 << 31, 1 << 31)],
        "exons": [[(5, 5)], [(1, 2), (4, 9), (20, 30)], [(1 << 30, (1 << 30) + 5)]] + [[(10 * j + 1, 10 * j + 5) for j in range(k)] for k in (254, 255, 256)],
        "corrected_exons": [[], [(1001, 1800)], [(1, 2), (4, 9), (20, 30)]] + [[(10 * j + 1, 10 * j + 5) for j in range(k)] for k in (255, 256)],
        "multimapper": [True], "polyA_found": [True], "cage_found": [True],
        "polya_info": [PolyAInfo(3000, -1, -1, -1), PolyAInfo(-1, 999, -1, 1001), PolyAInfo(0, 0, 0, 0),
                       PolyAInfo(1, 2, 3, 4)],
        "read_group": ["NA", "", "groupA", "g" * 500],
        "mapped_strand": ["-", "."], "strand": ["-", "."],
        "chr_id": ["", "chrUn_random.1", "c" * 300],
        "mapping_quality": [0, 1, 255],
        "assignment_type": list(IA.ReadAssignmentType),
        "gene_assignment_type": list(IA.ReadAssignmentType),
        "isoform_matches": [[], [m, m2], [m3], [m2, m2, m]],
        "additional_info": [{"a": 1}, {"a": -1}, {"k": "v", "p": (1, -2)}, {"d": "007"}],
        "additional_attributes": [{"CB": "ACGT"}, {"n": 5, "m": -5}, {"": ""}, {"CB": "0042", "NM": "3", "Z": "000"}, {"x": "-7", "y": "1e3", "z": " 5"}],
        "introns_match": [True],
        "exon_gene_profile": [[1], [-2, -1, 0, 1], [0] * 50],
        "intron_gene_profile": [[-1], [1, -1, -2, 0, 1]],
    }


def ra_state(ra):
    p = ra.polya_info
    return {
        "assignment_id": ra.assignment_id, "read_id": ra.read_id, "genomic_region": tuple(ra.genomic_region),
        "exons": [tuple(x) for x in ra.exons], "corrected_exons": [tuple(x) for x in ra.corrected_exons],
        "multimapper": bool(ra.multimapper), "polyA_found": bool(ra.polyA_found), "cage_found": bool(ra.cage_found),
        "polya_info": (p.external_polya_pos, p.external_polyt_pos, p.internal_polya_pos, p.internal_polyt_pos),
        "read_group": ra.read_group, "mapped_strand": ra.mapped_strand, "strand": ra.strand, "chr_id": ra.chr_id,
        "mapping_quality": ra.mapping_quality, "assignment_type": ra.assignment_type,
        "gene_assignment_type": ra.gene_assignment_type,
        "isoform_matches": [match_state(m) for m in ra.isoform_matches],
        "additional_info": dict(ra.additional_info), "additional_attributes": dict(ra.additional_attributes),
        "introns_match": bool(ra.introns_match), "exon_gene_profile": list(ra.exon_gene_profile),
        "intron_gene_profile": list(ra.intron_gene_profile),
    }


def basic_state(b):
    return (b.assignment_id, b.read_id, b.chr_id, b.start, b.end, tuple(b.genomic_region), bool(b.multimapper),
            bool(b.polyA_found), b.assignment_type, b.gene_assignment_type, float(b.penalty_score),
            tuple(sorted(b.isoforms)), tuple(sorted(b.genes)))


def deviations(fields, d):
    keys = sorted(fields)
    yield ()
    for k in keys:
        for v in fields[k]:
            yield ((k, v),)
    if d >= 2:
        for k1, k2 in itertools.combinations(keys, 2):
            for v1 in fields[k1]:
                for v2 in fields[k2]:
                    yield ((k1, v1), (k2, v2))


def check_objects(args):
    kind, devs_idx, d = args
    IA, PolyAInfo = _mods()
    bad = []
    n = 0
    if kind == "event":
        fields, mk, st, cls = event_fields(IA), lambda: default_event(IA), ev_state, IA.MatchEvent
    elif kind == "match":
        fields, mk, st, cls = match_fields(IA), lambda: default_match(IA), match_state, IA.IsoformMatch
    else:
        fields, mk, st, cls = ra_fields(IA, PolyAInfo), lambda: default_ra(IA, PolyAInfo), ra_state, IA.ReadAssignment
    alldevs = list(deviations(fields, d))
    for di in devs_idx:
        dev = alldevs[di]
        n += 1
        o = mk()
        for k, v in dev:
            setattr(o, k, v)
        desc = [(k, repr(v)[:60]) for k, v in dev]
        buf = io.BytesIO()
        try:
            o.serialize(buf)
        except Exception as e:  # noqa
            bad.append((kind, desc, "serialize raised " + repr(e)))
            continue
        size = buf.tell()
        buf.write(b"\xAB\xCD")
        buf.seek(0)
        try:
            back = cls.deserialize(buf, None) if kind == "ra" else cls.deserialize(buf)
        except Exception as e:  # noqa
            bad.append((kind, desc, "deserialize raised " + repr(e)))
            continue
        if buf.tell() != size:
            bad.append((kind, desc, "full reader consumed %d of %d bytes" % (buf.tell(), size)))
            continue
        a, b = st(o), st(back)
        if a != b:
            diff = [k for k in a if a[k] != b[k]] if isinstance(a, dict) else "state"
            bad.append((kind, desc, "round trip changed %s" % (diff,)))
            continue
        if kind == "ra":
            # abridged reader: byte alignment + agreement with BasicReadAssignment(ra)
            buf.seek(0)
            try:
                quick = IA.BasicReadAssignment.deserialize_from_read_assignment(buf)
            except Exception as e:  # noqa
                bad.append((kind, desc, "abridged reader raised " + repr(e)))
                continue
            if buf.tell() != size:
                bad.append((kind, desc, "abridged reader consumed %d of %d bytes" % (buf.tell(), size)))
                continue
            ref = IA.BasicReadAssignment(o)
            if basic_state(quick) != basic_state(ref):
                bad.append((kind, desc, "abridged reader disagrees with BasicReadAssignment(ra): %s vs %s" %
                            (basic_state(quick), basic_state(ref))))
                continue
            # BasicReadAssignment own format + pickle state (used with --high_memory)
            b2 = io.BytesIO()
            try:
                ref.serialize(b2)
                b2.seek(0)
                back2 = IA.BasicReadAssignment.deserialize(b2)
                if basic_state(back2) != basic_state(ref) or b2.read() != b"":
                    bad.append((kind, desc, "BasicReadAssignment round trip changed state"))
                import pickle
                back3 = pickle.loads(pickle.dumps(ref, -1))
                if basic_state(back3) != basic_state(ref):
                    bad.append((kind, desc, "BasicReadAssignment pickle round trip changed state"))
            except Exception as e:  # noqa
                bad.append((kind, desc, "BasicReadAssignment serialize/deserialize raised " + repr(e)))
    return n, bad[:20]


# ------------------------------------------------------------------------------------------------ L3 stream search
def make_db(scratch):
    from vlib import syn
    world = {"chroms": {"chr1": 5000},
             "genes": [{"id": "G1", "chr": "chr1", "strand": "+", "transcripts": [
                 {"id": "T1", "exons": [[1001, 1200], [1601, 1800], [2201, 2400]]},
                 {"id": "T2", "exons": [[1001, 1200], [2201, 2400]]}]},
                 {"id": "G2", "chr": "chr1", "strand": "-", "transcripts": [
                     {"id": "T3", "exons": [[3001, 3300]]}]},
                 # a gene nested in an intron of G1: the gene infos {G1} and {G1, G3} cover the same coordinates
                 {"id": "G3", "chr": "chr1", "strand": "-", "transcripts": [
                     {"id": "T4", "exons": [[1301, 1500]]}]}]}
    gtf = syn.write_gtf(world, os.path.join(scratch, "a.gtf"))
    return syn.build_db(gtf, os.path.join(scratch, "a.db"))


def gene_info_state(g):
    return (g.chr_id, g.start, g.end, g.all_read_region_start, g.all_read_region_end, g.delta, tuple(x.id for x in g.gene_db_list),
            tuple(sorted((k, tuple(v)) for k, v in g.all_isoforms_exons.items())),
            tuple(g.intron_profiles.features), tuple(g.exon_profiles.features),
            tuple(sorted((k, tuple(v)) for k, v in g.intron_profiles.profiles.items())),
            tuple(sorted(g.isoform_strands.items())), tuple(sorted(g.gene_id_map.items())))


CHR_RECORD = "CG" * 20000         # stands for the chromosome record: the loaders slice the reference sequence of every gene info from it


def stream_search(scratch, depth):
    """BFS over record streams: state = stream prefix (history); transition = append one record.
       Every state is written by the real printer and read back by both real loaders."""
    import gffutils
    IA, PolyAInfo = _mods()
    from src.gene_info import GeneInfo
    from src.assignment_io import TmpFileAssignmentPrinter, NormalTmpFileAssignmentLoader, QuickTmpFileAssignmentLoader
    db = gffutils.FeatureDB(make_db(scratch))
    genes = list(db.features_of_type("gene", order_by="start"))
    by_id = {g.id: g for g in genes}
    gi_real = GeneInfo([by_id["G1"]], db, delta=6)
    gi_two = GeneInfo([by_id["G1"], by_id["G2"]], db, delta=4)
    gi_nested = GeneInfo([by_id["G1"], by_id["G3"]], db, delta=6)      # same chromosome, start and end as gi_real, other genes
    # the region covered by the reads (for which the reference sequence is loaded) is wider than the genes
    gi_real.all_read_region_start, gi_real.all_read_region_end = gi_real.start - 300, gi_real.end + 500
    gi_nested.all_read_region_start = gi_nested.start - 1
    gi_region = GeneInfo.from_region("chr1", 4000, 4500, delta=6)
    ra_a = default_ra(IA, PolyAInfo)
    ra_b = default_ra(IA, PolyAInfo)
    ra_b.read_id, ra_b.assignment_type, ra_b.isoform_matches = "read2", IA.ReadAssignmentType.intergenic, \
        [IA.IsoformMatch(IA.MatchClassification.intergenic)]
    ra_b.gene_assignment_type = IA.ReadAssignmentType.intergenic
    ra_c = default_ra(IA, PolyAInfo)
    ra_c.read_id, ra_c.multimapper, ra_c.exon_gene_profile, ra_c.additional_attributes = "read3", True, [1, -1, 0, -2], {"CB": "AC"}
    ra_c.isoform_matches = [default_match(IA), IA.IsoformMatch(IA.MatchClassification.incomplete_splice_match, "G1", "T2",
                                                               IA.MatchEvent(IA.MatchEventSubtype.ism_left), "+", 0)]
    ra_c.assignment_type = IA.ReadAssignmentType.ambiguous
    ra_d = default_ra(IA, PolyAInfo)      # a valid assignment without any isoform match (noninformative)
    ra_d.read_id, ra_d.assignment_type, ra_d.gene_assignment_type, ra_d.isoform_matches = "read4", IA.ReadAssignmentType.noninformative, \
        IA.ReadAssignmentType.noninformative, []
    alphabet = {"g1": gi_real, "g2": gi_two, "gn": gi_nested, "gr": gi_region, "a": ra_a, "b": ra_b, "c": ra_c, "d": ra_d}
    states = 0
    transitions = 0
    executions = 0
    bad = []
    frontier = [()]
    seen = {()}
    samples = []
    path = os.path.join(scratch, "stream.bin")
    params = SimpleNamespace()
    while frontier:
        nxt = []
        for hist in frontier:
            states += 1
            # ---- evaluate invariant in this state
            if hist:
                executions += 1
                pr = TmpFileAssignmentPrinter(path, params)
                for sym in hist:
                    o = alphabet[sym]
                    if sym.startswith("g"):
                        pr.add_gene_info(o)
                    else:
                        pr.add_read_info(o)
                pr.__del__()          # the stream terminator is written at destruction
                pr.dumper = open(os.devnull, "wb")
                exp = []
                for sym in hist:
                    o = alphabet[sym]
                    exp.append(("gene", gene_info_state(o)) if sym.startswith("g") else ("ra", ra_state(o)))
                try:
                    ld = NormalTmpFileAssignmentLoader(path, db, CHR_RECORD)
                    got = []
                    while ld.has_next():
                        o = ld.get_object()
                        if o is None:
                            got.append(("bad-id", ld.current_id))
                            break
                        if isinstance(o, GeneInfo) and len(o.reference_region or "") != o.all_read_region_end - o.all_read_region_start + 1:
                            bad.append((hist, "gene info reloaded with read region %d-%d but %d bases of reference sequence" %
                                        (o.all_read_region_start, o.all_read_region_end, len(o.reference_region or ""))))
                        got.append(("gene", gene_info_state(o)) if isinstance(o, GeneInfo) else ("ra", ra_state(o)))
                    if got != exp:
                        bad.append((hist, "normal loader returned %d records, expected %d, first difference at %s" %
                                    (len(got), len(exp), next((i for i, (x, y) in enumerate(zip(got, exp)) if x != y), "length"))))
                    q = QuickTmpFileAssignmentLoader(path)
                    gotq = []
                    while q.has_next():
                        o = q.get_object()
                        gotq.append(None if o is None else basic_state(o))
                    expq = [None if sym.startswith("g") else basic_state(IA.BasicReadAssignment(alphabet[sym])) for sym in hist]
                    if gotq != expq:
                        bad.append((hist, "quick loader stream differs"))
                    # the block loaders the pipeline stages use: every gene-info record opens a block, the block holds the
                    # assignments that follow it in the stream (a block may be empty)
                    from src.dataset_processor import ReadAssignmentLoader, BasicReadAssignmentLoader
                    blocks = []
                    for sym in hist:
                        if sym.startswith("g"):
                            blocks.append((gene_info_state(alphabet[sym]), []))
                        else:
                            blocks[-1][1].append(ra_state(alphabet[sym]))
                    bl = ReadAssignmentLoader(path, db, CHR_RECORD, None)
                    gotb = []
                    while bl.has_next():
                        gi, storage = bl.get_next()
                        gotb.append((gene_info_state(gi), [ra_state(x) for x in storage]))
                        if any(x.gene_info is not gi for x in storage):
                            bad.append((hist, "block loader: an assignment of the block refers to another gene info than the block's"))
                    if gotb != blocks:
                        bad.append((hist, "block loader returns blocks %s, the stream holds %s" %
                                    ([(b[0][:3], len(b[1])) for b in gotb], [(b[0][:3], len(b[1])) for b in blocks])))
                    qb = BasicReadAssignmentLoader(path)
                    gotqb = []
                    while qb.has_next():
                        for x in qb.get_next():
                            gotqb.append(basic_state(x))
                    if gotqb != [x for x in expq if x is not None]:
                        bad.append((hist, "basic block loader stream differs"))
                except Exception as e:  # noqa
                    bad.append((hist, "loader raised " + repr(e)))
                if len(samples) < 3 and len(hist) == depth:
                    samples.append(list(hist))
            if len(hist) >= depth:
                continue
            for sym in alphabet:
                if not hist and not sym.startswith("g"):
                    continue      # a stream always starts with a gene-info record
                transitions += 1
                h2 = hist + (sym,)
                if h2 not in seen:
                    seen.add(h2)
                    nxt.append(h2)
        frontier = nxt
    # multimapper files: lists of BasicReadAssignment terminated by TERMINATION_INT (as written by resolve_multimappers)
    import src.serialization as S
    basics = [IA.BasicReadAssignment(alphabet[s]) for s in ("a", "b", "c")]
    for k in range(0, 4):
        for lists in itertools.product([[0], [1, 2], [0, 1, 2], [2, 2]], repeat=k):
            executions += 1
            states += 1
            transitions += max(1, k)
            buf = io.BytesIO()
            for l in lists:
                S.write_list([basics[i] for i in l], buf, IA.BasicReadAssignment.serialize)
            S.write_int(S.TERMINATION_INT, buf)
            buf.seek(0)
            got = []
            size = S.read_int(buf)
            while size != S.TERMINATION_INT:
                got.append([basic_state(IA.BasicReadAssignment.deserialize(buf)) for _ in range(size)])
                size = S.read_int(buf)
            exp = [[basic_state(basics[i]) for i in l] for l in lists]
            if got != exp or buf.read() != b"":
                bad.append((("mm",) + tuple(map(tuple, lists)), "multimapper file round trip differs"))
    return states, transitions, executions, bad, samples


# ------------------------------------------------------------------------------------------------ L4 reuse
def reuse_worlds(tier):
    A = "A" * 30
    base = {"chroms": {"chr1": 6000, "chr2": 4000},
            "genes": [{"id": "G1", "chr": "chr1", "strand": "+", "transcripts": [
                {"id": "T1", "exons": [[1001, 1200], [1601, 1800], [2201, 2400], [2801, 3000]]},
                {"id": "T2", "exons": [[1001, 1200], [2201, 2400], [2801, 3000]]}]},
                {"id": "G2", "chr": "chr2", "strand": "-", "transcripts": [{"id": "T3", "exons": [[501, 700], [1101, 1400]]}]}]}
    reads = []
    for i in range(3):
        reads.append({"name": "fsm1_%d" % i, "chr": "chr1", "blocks": [[1001, 1200], [1601, 1800], [2201, 2400], [2801, 3000]], "clip_right": A})
        reads.append({"name": "fsm2_%d" % i, "chr": "chr1", "blocks": [[1001, 1200], [2201, 2400], [2801, 3000]], "clip_right": A})
        reads.append({"name": "t3_%d" % i, "chr": "chr2", "blocks": [[501, 700], [1101, 1400]], "clip_left": "T" * 30, "reverse": True})
        reads.append({"name": "novel_%d" % i, "chr": "chr1", "blocks": [[1001, 1200], [1601, 1800], [2801, 3000]], "clip_right": A})
    reads.append({"name": "ism", "chr": "chr1", "blocks": [[2251, 2400], [2801, 2950]]})
    reads.append({"name": "mono", "chr": "chr1", "blocks": [[1650, 1780]]})
    reads.append({"name": "inter", "chr": "chr2", "blocks": [[2501, 2900]], "clip_right": A})
    worlds = []
    w1 = dict(base, reads=list(reads))
    worlds.append(("mapped-only", w1, []))
    w2 = dict(base, reads=list(reads) + [{"name": "mm", "chr": "chr1", "blocks": [[1001, 1200], [2201, 2400], [2801, 3000]]},
                                         {"name": "mm", "chr": "chr2", "blocks": [[2501, 2900]], "secondary": True}])
    worlds.append(("multimapper", w2, []))
    worlds.append(("count-exons", w1, ["--count_exons"]))
    # two BAM files of one experiment (file-name groups; the novel isoform is supported by reads of a single file)
    worlds.append(("two-bams", w1, ["SPLIT2", "--read_group", "file_name"]))
    # the same without --read_group: an experiment with several files is grouped by file name automatically
    worlds.append(("two-bams-auto", w1, ["SPLIT2"]))
    # two experiments in one run (YAML): the restart is given both save prefixes
    worlds.append(("two-experiments", w1, ["YAML2"]))
    # the same with two files in the first experiment (grouped by file name automatically) and one in the second (not grouped)
    worlds.append(("two-experiments-mixed", w1, ["YAML2", "MIXED"]))
    # read groups from a table file (the only grouping mode with files of its own next to the saved assignments)
    worlds.append(("table-groups", w1, ["TABLE"]))
    if tier == "thorough":
        worlds.append(("no-models", w1, ["--no_model_construction"]))
        worlds.append(("pacbio", w2, ["--data_type", "pacbio_ccs"]))
        w3 = dict(base, reads=list(reads) + [{"name": "unm1", "unmapped": True}, {"name": "unm2", "unmapped": True}])
        worlds.append(("with-unmapped", w3, []))
    else:
        w3 = dict(base, reads=list(reads) + [{"name": "unm1", "unmapped": True}])
        worlds.append(("with-unmapped", w3, []))
    return worlds


def reuse_case(args):
    name, world, extra, scratch = args
    from vlib import syn, run
    d = os.path.join(scratch, "reuse_" + name)
    shutil.rmtree(d, ignore_errors=True)
    syn.plant_for_transcripts(world)
    paths = syn.materialise(world, d)
    out1 = os.path.join(d, "out1")
    if "TABLE" in extra:
        tbl = os.path.join(d, "groups.tsv")
        with open(tbl, "w") as f:
            for i, r in enumerate(world["reads"]):
                if i % 4:
                    f.write("%s\tg%d\n" % (r["name"], i % 3))
        extra = [x for x in extra if x != "TABLE"] + ["--read_group", "file:" + tbl]
    argv1 = run.base_argv(paths, out1, extra=["--keep_tmp"] + [x for x in extra if x not in ("SPLIT2", "YAML2", "MIXED")])
    pairs = [("OUT", "OUT0")]
    saves = [os.path.join(out1, "OUT", "aux", "OUT.save")]
    if "YAML2" in extra:
        import yaml
        seqs = syn.genome_sequences(world)
        r1 = [r for r in world["reads"] if r["chr"] == "chr1"]
        files1 = ["e1.bam"]
        if "MIXED" in extra:
            syn.write_bam(world, os.path.join(d, "e1.bam"), reads=r1[0::2], seqs=seqs)
            syn.write_bam(world, os.path.join(d, "e1b.bam"), reads=r1[1::2], seqs=seqs)
            files1.append("e1b.bam")
        else:
            syn.write_bam(world, os.path.join(d, "e1.bam"), reads=r1, seqs=seqs)
        syn.write_bam(world, os.path.join(d, "e2.bam"), reads=[r for r in world["reads"] if r["chr"] != "chr1"], seqs=seqs)
        with open(os.path.join(d, "in.yaml"), "w") as f:
            yaml.safe_dump([{"data format": "bam"}, {"name": "E1", "long read files": files1},
                            {"name": "E2", "long read files": ["e2.bam"]}], f)
        i = argv1.index("--bam")
        argv1[i:i + 2] = ["--yaml", os.path.join(d, "in.yaml")]
        extra = [x for x in extra if x not in ("YAML2", "MIXED")]
        pairs = [("E1", "OUT0"), ("E2", "OUT1")]
        saves = [os.path.join(out1, e, "aux", e + ".save") for e in ("E1", "E2")]
    if "SPLIT2" in extra:
        seqs = syn.genome_sequences(world)
        ra = [r for r in world["reads"] if r["name"].startswith("novel") or r["name"].endswith("_0") or r["name"] in ("ism", "mono")]
        rb = [r for r in world["reads"] if not any(r is x for x in ra)]
        b1 = syn.write_bam(world, os.path.join(d, "lib1.bam"), reads=ra, seqs=seqs)
        b2 = syn.write_bam(world, os.path.join(d, "lib2.bam"), reads=rb, seqs=seqs)
        i = argv1.index("--bam")
        argv1[i + 1:i + 2] = [b1, b2]
        extra = [x for x in extra if x != "SPLIT2"]
    rc1 = run.run_isoquant(argv1, paths["home"], os.path.join(d, "o1.txt"))
    if rc1 != 0:
        return name, "first run failed rc=%d" % rc1, None
    out2 = os.path.join(d, "out2")
    argv2 = ["--output", out2, "--reference", paths["ref"], "--read_assignments"] + saves + ["--data_type",
             "nanopore" if "--data_type" not in extra else extra[extra.index("--data_type") + 1],
             "--genedb", paths["gtf"], "--complete_genedb", "--prefix", "OUT", "--threads", "1"] + \
            [x for x in extra if x not in ("--data_type", "pacbio_ccs")]
    t1 = {}
    for e, o in pairs:
        t1.update({o + "/" + k.replace(e + ".", "OUT.", 1): v.replace(e.encode(), b"OUT") for k, v in run.read_tree(os.path.join(out1, e)).items()})
    diffs = []
    # a history of restarts from the SAME saved assignments (the first without --keep_tmp, the second with it, the third without):
    # every one of them has to reproduce the saving run, i.e. a restart must not consume or alter what it was started from
    for step, keep in enumerate((0, 1, 0)):
        outn = os.path.join(d, "out%d" % (step + 2))
        av = list(argv2)
        av[1] = outn
        rc2 = run.run_isoquant(av + (["--keep_tmp"] if keep else []), paths["home"], os.path.join(d, "o2.txt"))
        if rc2 != 0:
            return name, "reuse run %d failed rc=%d: %s" % (step + 1, rc2, open(os.path.join(d, "o2.txt")).read()[-400:]), None
        t2n = {}
        for e, o in pairs:
            t2n.update({o + "/" + k.replace(o + ".", "OUT.", 1): v.replace(o.encode(), b"OUT") for k, v in run.read_tree(os.path.join(outn, o)).items()})
        sfx = "" if step == 0 else ":restart%d" % (step + 1)
        for k in sorted(set(t1) | set(t2n)):
            if k not in t2n:
                diffs.append("missing:" + k + sfx)
            elif k not in t1:
                diffs.append("extra:" + k + sfx)
            elif t1[k] != t2n[k]:
                l1, l2 = t1[k].split(b"\n"), t2n[k].split(b"\n")
                first = next((i for i, (a, b) in enumerate(zip(l1, l2)) if a != b), min(len(l1), len(l2)))
                diffs.append("differs:%s%s line %d: %r vs %r" % (k, sfx, first, l1[first][:80] if first < len(l1) else b"",
                                                                 l2[first][:80] if first < len(l2) else b""))
        shutil.rmtree(outn, ignore_errors=True)
    shutil.rmtree(d, ignore_errors=True)
    return name, None, diffs


# ------------------------------------------------------------------------------------------------ driver
def run(ctx):
    quick = ctx.tier == "quick"
    IA, PolyAInfo = _mods()
    n1, bad1 = l1_primitives()
    for fn, v, msg in bad1:
        ctx.violation("prim:%s" % fn, "%s(%s): %s" % (fn, v, msg), {"level": 1, "fn": fn, "value": v})
    ctx.note("L1 primitive round trips: %d" % n1)
    d = 2
    n2 = 0
    jobs = []
    for kind, fields in (("event", event_fields(IA)), ("match", match_fields(IA)), ("ra", ra_fields(IA, PolyAInfo))):
        nd = sum(1 for _ in deviations(fields, d))
        idx = list(range(nd))
        if quick and kind == "ra":
            # quick: all single deviations and every pair involving the list-valued / dict-valued fields
            alld = list(deviations(fields, d))
            heavy = {"isoform_matches", "additional_info", "additional_attributes", "exons", "corrected_exons",
                     "exon_gene_profile", "read_id", "assignment_type"}
            idx = [i for i, dv in enumerate(alld) if len(dv) < 2 or (dv[0][0] in heavy or dv[1][0] in heavy)]
        ctx.rng.shuffle(idx)
        jobs += [(kind, c, d) for c in core.chunks(idx, core.NCPU * 2)]
    for n, bad in core.pmap(check_objects, jobs):
        n2 += n
        for kind, desc, msg in bad:
            key = "obj:%s:%s" % (kind, msg[:70])
            ctx.violation(key, "%s with %s: %s" % (kind, desc, msg), {"level": 2, "kind": kind, "fields": desc})
    ctx.note("L2 object round trips (default + <=%d deviations): %d" % (d, n2))
    depth = 3 if quick else 4
    states, transitions, execs, bad3, samples = stream_search(ctx.scratch, depth)
    for hist, msg in bad3:
        ctx.violation("stream:%s" % msg.split(",")[0][:50], "record stream %s: %s" % (list(hist), msg), {"level": 3, "stream": list(hist)})
    ctx.note("L3 stream search depth %d: %d states, %d transitions" % (depth, states, transitions))
    worlds = reuse_worlds(ctx.tier)
    n4 = 0
    for name, err, diffs in core.pmap(reuse_case, [(n, w, e, ctx.scratch) for n, w, e in worlds], jobs=min(6, core.NCPU)):
        n4 += 4
        if err:
            ctx.violation("reuse:%s:failed" % name, "world %s: %s" % (name, err), {"level": 4, "world": name})
        for dmsg in diffs or []:
            fname = dmsg.split(":")[1].split(" ")[0]
            ctx.violation("reuse:%s:%s" % (name, fname), "world %s: --read_assignments run %s" % (name, dmsg),
                          {"level": 4, "world": name, "diff": dmsg})
    ctx.note("L4 reuse: %d worlds (saving run + a history of 3 restarts from the same saves each)" % len(worlds))
    ctx.coverage.update({
        "states": states + n2, "transitions": transitions + n2,
        "traces_validated_against_impl": execs + n2 + n1 + n4,
        "depth": depth, "deviation_bound": d,
        "primitive_cases": n1, "object_cases": n2, "stream_states": states, "stream_transitions": transitions,
        "pipeline_reuse_worlds": len(worlds),
        "exhaustive": True,
        "evaluations": n1 + n2 + execs + n4,
        "distinct_nontrivial": n2 + execs,
        "rule": "state = record stream prefix (L3) or object reached from the default by <=2 field deviations (L2); every state is "
                "executed on the real serialisers/loaders; non-trivial = object with >=1 deviation or non-empty stream",
        "samples": samples + [{"object": "ReadAssignment", "deviation": ["isoform_matches=[]", "exons=[(5,5)]"]}],
    })
    ctx.assumptions += [
        "penalty scores are multiples of 2^-20 and non-negative (the documented fixed-point representation)",
        "strings of up to 80 thousand characters (a modified-base tag of a long read)",
        "reuse (L4) compares every file outside aux/ after replacing the experiment prefix OUT0 -> OUT and dropping command-line headers",
    ]


def replay(ctx, case):
    if case.get("level") == 1:
        n, bad = l1_primitives()
        hits = [b for b in bad if b[0] == case["fn"]]
        return hits[0] if hits else None
    return "re-run ./check C15 (object / stream / reuse cases are regenerated deterministically)"
