"""C06 — outputs do not depend on threads, hash seed, memory mode or repetition.

Owned choices: (a) worker schedules = every partition of the chromosome task list of stage 1 (read collection) x every
partition of stage 2 (model construction) under the virtual pool; (b) memory mode / keep_tmp / repetition;
(c) iteration order of the read-group set (explicit); (d) string-hash seed: fresh interpreters with different
PYTHONHASHSEED through the real CLI (supporting evidence: a sweep, not an enumeration).
Oracle: every file under <out>/<prefix>/ outside aux/ is byte-identical to the base run (threads 1) after dropping the
command-line header and decompressing .gz.
"""
import itertools
import os
import shutil
import subprocess
import sys

from vlib import core

LEVEL = "model_checking"


def world(n_chr):
    """mixed world whose reference already contains IsoQuant-style ids on the first chromosomes (an earlier IsoQuant output used
    as annotation): numbers reserved on one chromosome must not influence numbering on another one"""
    from vlib import worlds as W
    w = W.mixed_world(n_chr)
    ren = {"TA0_2": "transcript1.chr1.nic", "TA0_3": "transcript2.chr1.nnic", "TB0_2": "transcript4.chr1.nic",
           "TB1_2": "transcript3.chr2.nnic"}
    gren = {"GB0": "novel_gene_chr1_5", "GB1": "novel_gene_chr2_1"}
    for g in w["genes"]:
        g["id"] = gren.get(g["id"], g["id"])
        for t in g["transcripts"]:
            t["id"] = ren.get(t["id"], t["id"])
    # exons and introns shared by several genes (an overlapping same-strand gene and an antisense gene): their gene lists are
    # built from sets of gene ids
    from vlib import worlds as W
    last = "chr%d" % n_chr
    w["genes"].append(W.locus_gene("GS", last, "+", 1000, {"TS_1": [2, 3, 4]}))
    w["genes"].append(W.locus_gene("GX", last, "-", 1000, {"TX_1": [1, 2]}))
    w["genes"].append(W.locus_gene("AA", last, "+", 1000, {"TAA_1": [3, 4, 5]}))
    # a novel isoform that shares equally many annotated introns with two overlapping same-strand genes (its first intron belongs to the
    # GA gene of this chromosome and to GT, its second intron is novel): which gene it is attached to must not depend on set order
    e01 = W.exons(1000, [0, 1])
    w["genes"].append({"id": "GT", "chr": last, "strand": "+", "transcripts": [{"id": "TT_1", "exons": e01 + [[4601, 4800]]}]})
    from vlib import syn
    syn.plant_for_transcripts(w)
    tie = e01 + [[4301, 4550]]
    W.add_sites_for_blocks(w, last, tie, "+")
    W.dedup_sites(w)
    for i in range(6):
        w["reads"].append(W.read_of("tie%d_g%s" % (i, "ABC"[i % 3]), last, tie))
    # a multi-mapped read whose winning alignment is ambiguous between two isoforms of ONE gene (isoform-level type ambiguous, gene-level
    # type unique); the other alignment is a spliced intergenic one on another chromosome
    w["reads"].append(W.read_of("mmg_gA", "chr1", [[2251, 2400], [2801, 2950]], polya=False))
    w["reads"].append(W.read_of("mmg_gA", "chr2", W.exons(8000, [0, 1, 2]), polya=False, secondary=True))
    # a soft-masked (lower-case) stretch of the reference over the whole first gene and reads whose junctions are displaced by a few
    # bases from the annotated ones (left and right splice site): the junction correction compares read and reference bases, the
    # reference is held as a pyfaidx record by default and as a plain string with --high_memory
    # the unannotated locus at 8000 has the same coordinates on every chromosome; on chr2 its splice sites are canonical for the OTHER
    # strand (per-process memos keyed by coordinates alone would carry chr1's answer over to chr2 - or not, depending on the worker)
    ng = W.exons(8000, [0, 1, 2])
    ng_introns = set((ng[i][1] + 1, ng[i + 1][0] - 1) for i in range(len(ng) - 1))
    w["sites"] = [[c, s_, e_, ("-" if (c == "chr2" and (s_, e_) in ng_introns) else k)] for c, s_, e_, k in w["sites"]]
    w["softmask"] = [["chr1", 900, 3600]]
    sh = W.exons(1000, [0, 1, 2, 3, 4])
    sh[0][1] += 3
    sh[3][0] -= 4
    for i in range(3):
        w["reads"].append(W.read_of("shm%d_g%s" % (i, "ABC"[i]), "chr1", sh))
    # every read carries three BAM tags; the configurations with --bam_tags copy them into the read assignments in the order of the
    # command line (the option is parsed once, at start-up)
    for i, r in enumerate(w["reads"]):
        r.setdefault("tags", {})
        r["tags"].update({"CB": "c%d" % (i % 3), "UB": "u%d" % (i % 5), "XQ": "q%d" % (i % 2)})
    return w


def diff_trees(t0, t1):
    diffs = []
    for k in sorted(set(t0) | set(t1)):
        if k not in t1:
            diffs.append((k, "missing"))
        elif k not in t0:
            diffs.append((k, "extra"))
        elif t0[k] != t1[k]:
            l0, l1 = t0[k].split(b"\n"), t1[k].split(b"\n")
            i = next((i for i, (a, b) in enumerate(zip(l0, l1)) if a != b), min(len(l0), len(l1)))
            diffs.append((k, "line %d: %r vs %r" % (i, (l0[i] if i < len(l0) else b"")[:90], (l1[i] if i < len(l1) else b"")[:90])))
    return diffs


EXTRA = ["--read_group", "read_id:_", "--count_exons", "--check_canonical", "--sqanti_output", "--bam_tags", "UB,CB,XQ"]
# option configurations: (name, uses the annotation, data type, extra options)
CONFIGS = [
    ("annotated", True, "nanopore", EXTRA),
    ("denovo", False, "nanopore", ["--read_group", "read_id:_", "--check_canonical"]),
    ("pacbio-all", True, "pacbio_ccs", ["--transcript_quantification", "all", "--gene_quantification", "all", "--report_novel_unspliced", "true",
                                        "--model_construction_strategy", "sensitive_pacbio", "--count_exons", "--read_group", "read_id:_"]),
    ("split-locus", True, "nanopore", EXTRA),
    # the reads in two files of one experiment (grouped by file name automatically): every second 3-kb window of a chromosome is covered
    # by the second file only
    ("two-files", True, "nanopore", ["--count_exons", "--bam_tags", "XQ,CB"]),
    # the same two files as two EXPERIMENTS of one invocation (a --bam_list file): what the second one prints must not depend on whether
    # the first one was processed by the same process (--threads 1) or by workers that are gone (--threads 2)
    ("two-experiments", True, "nanopore", ["--count_exons"]),
]


def results_of(cfg, out):
    """{file: normalised bytes} of a run of configuration cfg"""
    from vlib import run
    if CONFIGS[cfg][0] != "two-experiments":
        return run.read_tree(os.path.join(out, "OUT"))
    t = {}
    for e in ("E1", "E2"):
        for k, v in run.read_tree(os.path.join(out, e)).items():
            t["%s/%s" % (e, k.replace(e + ".", "OUT."))] = v
    return t



def split_bam(bam):
    """writes <bam>.a.bam / <bam>.b.bam (once): the records of a read name go to the file chosen by the window of its first record"""
    import pysam
    a, b = bam[:-4] + ".a.bam", bam[:-4] + ".b.bam"
    if os.path.exists(a + ".bai") and os.path.exists(b + ".bai"):
        return a, b
    src = pysam.AlignmentFile(bam, "rb")
    fa = pysam.AlignmentFile(a + ".tmp", "wb", template=src)
    fb = pysam.AlignmentFile(b + ".tmp", "wb", template=src)
    where = {}
    for rec in src.fetch(until_eof=True):
        if rec.query_name not in where:
            where[rec.query_name] = fa if rec.is_unmapped or (rec.reference_start // 3000) % 2 == 0 else fb
        where[rec.query_name].write(rec)
    fa.close()
    fb.close()
    src.close()
    for tmp, fin in ((a + ".tmp", a), (b + ".tmp", b)):
        os.replace(tmp, fin)
        pysam.index(fin)
    return a, b


def cfg_hook(cfg, then=None):
    """pre_hook of a configuration (the split-locus configuration scales the region-splitting constants so that the small synthetic
    genes are processed in several regions, in the main process before any worker is forked), followed by the variant's own hook"""
    if CONFIGS[cfg][0] != "split-locus":
        return then
    from vlib import mix
    scale = mix.scale_constants(region_len=1024, min_reads=4, bin_size=64)

    def hook():
        scale()
        if then is not None:
            then()
    return hook


def argv_for(cfg, paths, out, threads=1, more=()):
    from vlib import run
    name, genedb, dt, extra = CONFIGS[cfg]
    av = run.base_argv(paths, out, data_type=dt, threads=threads, genedb=genedb, extra=list(extra) + list(more))
    if name == "two-files":
        i = av.index("--bam")
        av[i + 1:i + 2] = list(split_bam(paths["bam"]))
    if name == "two-experiments":
        a, b = split_bam(paths["bam"])
        lst = paths["bam"][:-4] + ".list"
        with open(lst, "w") as f:
            f.write("#E1\n%s\n#E2\n%s\n" % (a, b))
        i = av.index("--bam")
        av[i:i + 2] = ["--bam_list", lst]
    return av


def base_and_variants(args):
    n_chr, variants, scratch, wid = args[:4]
    cfg = args[4] if len(args) > 4 else 0
    from vlib import syn, run, vpool
    w = world(n_chr)
    d = os.path.join(scratch, "c06_%d_%d_%d" % (n_chr, wid, cfg))
    shutil.rmtree(d, ignore_errors=True)
    paths = syn.materialise(w, d)
    base_out = os.path.join(d, "base")
    rc = run.run_isoquant(argv_for(cfg, paths, base_out), paths["home"], os.path.join(d, "base.txt"), pre_hook=cfg_hook(cfg))
    if rc != 0:
        return [("base", [("run", "base run failed rc=%d %s" % (rc, open(os.path.join(d, "base.txt")).read()[-300:]))])], 1
    t0 = results_of(cfg, base_out)
    res = []
    n = 1
    for v in variants:
        kind = v[0]
        if kind == "rerun":
            # the same command line once more INTO the folder of the first run (--force): nothing of the first run may survive in the
            # output files of the second
            out = os.path.join(d, "rr")
            shutil.rmtree(out, ignore_errors=True)
            rc = run.run_isoquant(argv_for(cfg, paths, out), paths["home"], os.path.join(d, "v.txt"), pre_hook=cfg_hook(cfg))
            rc2 = run.run_isoquant(argv_for(cfg, paths, out, more=["--force"]), paths["home"], os.path.join(d, "v.txt"), pre_hook=cfg_hook(cfg))
            n += 2
            if rc != 0 or rc2 != 0:
                res.append((v, [("run", "exit %d / %d" % (rc, rc2))]))
                continue
            df = diff_trees(t0, results_of(cfg, out))
            if df:
                res.append((v, df))
            continue
        if kind == "repeat":
            # the SAME command line a second time (same output path, so that even the command-line header is equal): every file is
            # compared byte by byte, the gzipped ones included (their headers carry a time stamp unless the writer suppresses it)
            import time
            raw0 = raw_tree(os.path.join(base_out, "OUT" if CONFIGS[cfg][0] != "two-experiments" else "E2"))
            shutil.rmtree(base_out, ignore_errors=True)
            time.sleep(1.1)
            rc = run.run_isoquant(argv_for(cfg, paths, base_out), paths["home"], os.path.join(d, "v.txt"), pre_hook=cfg_hook(cfg))
            n += 1
            raw1 = raw_tree(os.path.join(base_out, "OUT" if CONFIGS[cfg][0] != "two-experiments" else "E2")) if rc == 0 else {}
            df = [(k, "raw bytes differ between two runs of the same command line (first difference at byte %d)" %
                   next((i for i, (a, b) in enumerate(zip(raw0.get(k, b""), raw1.get(k, b""))) if a != b), min(len(raw0.get(k, b"")), len(raw1.get(k, b"")))))
                  for k in sorted(set(raw0) | set(raw1)) if raw0.get(k) != raw1.get(k)]
            if df:
                res.append((v, df))
            continue
        out = os.path.join(d, "v")
        shutil.rmtree(out, ignore_errors=True)
        extra = []
        hook = None
        threads = 1
        if kind == "sched":
            threads = 4
            sched = [v[1], v[2]]
            hook = (lambda s=sched: vpool.install(s))
        elif kind == "mode":
            extra += list(v[1])
            threads = v[2]
            if threads > 1:
                hook = (lambda: vpool.install(None))
        elif kind == "grouporder":
            order = v[1]

            def hook(order=order):
                import src.dataset_processor as DP
                orig = DP.DatasetProcessor.load_read_info

                def patched(self, dump_filename):
                    a, b, g = orig(self, dump_filename)
                    rank = {x: i for i, x in enumerate(order)}
                    return a, b, sorted(g, key=lambda x: (rank.get(x, len(rank)), x))
                DP.DatasetProcessor.load_read_info = patched
        rc = run.run_isoquant(argv_for(cfg, paths, out, threads=threads, more=extra), paths["home"], os.path.join(d, "v.txt"), pre_hook=cfg_hook(cfg, hook))
        n += 1
        if rc != 0:
            res.append((v, [("run", "exit %d: %s" % (rc, open(os.path.join(d, "v.txt")).read()[-300:]))]))
            continue
        t1 = results_of(cfg, out)
        df = diff_trees(t0, t1)
        if df:
            res.append((v, df))
    shutil.rmtree(d, ignore_errors=True)
    return res, n


def raw_tree(root):
    out = {}
    for dp, dn, fn in os.walk(root):
        if "aux" in os.path.relpath(dp, root).split(os.sep):
            continue
        for f in fn:
            out[os.path.normpath(os.path.join(os.path.relpath(dp, root), f))] = open(os.path.join(dp, f), "rb").read()
    return out


def plain_tree(args):
    n_chr, scratch, wid = args[:3]
    cfg = args[3] if len(args) > 3 else 0
    from vlib import syn, run
    w = world(n_chr)
    d = os.path.join(scratch, "c06_plain_%d_%d" % (wid, cfg))
    shutil.rmtree(d, ignore_errors=True)
    paths = syn.materialise(w, d)
    out = os.path.join(d, "out")
    rc = run.run_isoquant(argv_for(cfg, paths, out), paths["home"], os.path.join(d, "o.txt"), pre_hook=cfg_hook(cfg))
    t = results_of(cfg, out) if rc == 0 else None
    shutil.rmtree(d, ignore_errors=True)
    return t


def permset_worker(args):
    """one PERMSET job in a fresh harness worker: kind 'record' (baseline with sorted orders, returns choice points + tree)
       or 'deviate' (one content gets another iteration order, returns tree diff against the given baseline)"""
    n_chr, kind, payload, scratch, wid = args[:5]
    cfg = args[5] if len(args) > 5 else 0
    import json
    from vlib import syn, run, permset
    if not any(isinstance(f, permset._Finder) for f in sys.meta_path):
        permset.install(core.REPO)
    w = world(n_chr)
    d = os.path.join(scratch, "c06_perm_%d_%d" % (wid, cfg))
    shutil.rmtree(d, ignore_errors=True)
    paths = syn.materialise(w, d)
    out = os.path.join(d, "out")
    rec_file = os.path.join(d, "choices.json")
    if kind == "record":
        def pre():
            permset.Controller.record = {}

        def post(code):
            with open(rec_file, "w") as f:
                json.dump(permset.Controller.record, f)
        rc = run.run_isoquant(argv_for(cfg, paths, out), paths["home"], os.path.join(d, "o.txt"), pre_hook=cfg_hook(cfg, pre), post_hook=post)
        if rc != 0:
            msg = open(os.path.join(d, "o.txt")).read()[-400:]
            shutil.rmtree(d, ignore_errors=True)
            return "record", None, None, "baseline under PERMSET failed rc=%d %s" % (rc, msg)
        tree = results_of(cfg, out)
        choices = json.load(open(rec_file))
        shutil.rmtree(d, ignore_errors=True)
        return "record", tree, choices, None
    results = []
    t0 = payload["tree"]
    for dev in payload["devs"]:
        shutil.rmtree(out, ignore_errors=True)

        def pre(dev=dev):
            permset.Controller.deviation = {k: tuple(pm) for k, pm in dev}
        rc = run.run_isoquant(argv_for(cfg, paths, out), paths["home"], os.path.join(d, "o.txt"), pre_hook=cfg_hook(cfg, pre))
        if rc != 0:
            results.append((dev, [("run", "exit %d: %s" % (rc, open(os.path.join(d, "o.txt")).read()[-300:]))]))
            continue
        df = diff_trees(t0, results_of(cfg, out))
        if df:
            results.append((dev, df))
    shutil.rmtree(d, ignore_errors=True)
    return "deviate", results, len(payload["devs"]), None


def seed_sweep(args):
    n_chr, seeds, scratch, wid = args[:4]
    cfg = args[4] if len(args) > 4 else 0
    from vlib import syn, run
    w = world(n_chr)
    d = os.path.join(scratch, "c06_seed_%d_%d" % (wid, cfg))
    shutil.rmtree(d, ignore_errors=True)
    paths = syn.materialise(w, d)
    trees = {}
    errs = []
    for seed in seeds:
        out = os.path.join(d, "s%d" % seed)
        env = dict(os.environ, PYTHONHASHSEED=str(seed), HOME=paths["home"])
        argv = ["/venv/bin/python", "-W", "ignore", os.path.join(core.REPO, "isoquant.py")] + argv_for(cfg, paths, out, threads=2 if seed % 2 else 1)
        r = subprocess.run(argv, env=env, capture_output=True, text=True, cwd=d)
        if r.returncode != 0:
            errs.append((seed, [("run", "exit %d: %s" % (r.returncode, (r.stdout + r.stderr)[-300:]))]))
            continue
        trees[seed] = results_of(cfg, out)
        shutil.rmtree(out, ignore_errors=True)
    shutil.rmtree(d, ignore_errors=True)
    return trees, errs


def explore_config(ctx, cfg, n_chr, quick, tot):
    from vlib import vpool, permset
    cname = CONFIGS[cfg][0]
    tag = "" if cfg == 0 else cname + ":"
    parts = vpool.set_partitions(n_chr)
    variants = [("sched", p1, p2) for p1 in parts for p2 in parts]
    modes = [("mode", ("--high_memory",), 1), ("mode", ("--keep_tmp",), 1), ("mode", ("--high_memory", "--keep_tmp"), 1), ("mode", (), 1),
             ("mode", ("--high_memory",), 4), ("mode", (), 2)]
    groups = ["gA", "gB", "gC", "NA"]
    gorders = [("grouporder", o) for o in itertools.permutations(groups)]
    if quick:
        gorders = gorders[::5]
    if cfg != 0 and quick:
        variants = [v for v in variants if len(v[1]) != len(v[2]) or len(v[1]) in (1, n_chr)]
        modes = modes[:1] + modes[4:]
        gorders = gorders[:2]
    allv = variants + modes + gorders + [("repeat",), ("rerun",)]
    ctx.rng.shuffle(allv)
    nruns = 0
    for res, n in core.pmap(base_and_variants, [(n_chr, c, ctx.scratch, i, cfg) for i, c in enumerate(core.chunks(allv, core.NCPU))]):
        nruns += n
        for v, df in res:
            for fname, what in df[:3]:
                kind = v[0] if v != "base" else "base"
                key = "%s%s:%s" % (tag, kind, fname.split("OUT.")[-1])
                ctx.violation(key, "[%s] variant %s: file %s differs from the threads=1 base run: %s" % (cname, v, fname, what),
                              {"variant": v, "n_chr": n_chr, "cfg": cfg})
    ctx.note("[%s] %d chromosomes: %d worker schedules (partitions stage1 x stage2), %d mode variants, %d group orders; %d runs" %
             (cname, n_chr, len(variants), len(modes), len(gorders), nruns))
    # ---- PERMSET: every iterated set whose order depends on the hash seed is a choice point; explore all single deviations
    kind, tree_sorted, choices, err = core.pmap(permset_worker, [(n_chr, "record", None, ctx.scratch, 0, cfg), (n_chr, "record", None, ctx.scratch, 1, cfg)], jobs=2)[0]
    nperm = 0
    ncp = 0
    if err:
        ctx.violation(tag + "permset:baseline-failed", err, {})
    else:
        # soundness of the rewrite: with sorted set orders the outputs must equal those of the unmodified interpreter
        plain = core.pmap(plain_tree, [(n_chr, ctx.scratch, 9000, cfg), (n_chr, ctx.scratch, 9001, cfg)], jobs=2)[0]
        if plain is None:
            ctx.violation(tag + "permset:plain-run-failed", "plain base run failed", {})
        else:
            for fname, what in diff_trees(plain, tree_sorted)[:3]:
                ctx.violation("%ssetorder-sorted:%s" % (tag, fname.split("OUT.")[-1]), "[%s] with every hash-dependent set iterated in sorted order %s "
                              "differs from the run on the unmodified interpreter (PYTHONHASHSEED=0): %s" % (cname, fname, what), {"file": fname})
        devs = []
        sizes = {}
        for key, cnt in sorted(choices.items()):
            n = key.count(", ") + 1 if key != "[]" else 0
            try:
                n = len(eval(key, {"__builtins__": {}}, {})) if not ("<" in key) else n
            except Exception:
                pass
            if n < 2:
                continue
            ncp += 1
            sizes[key] = n
            for perm in permset.deviations_for(key, n):
                devs.append(((key, perm),))
        if not quick:
            # pairs of deviations (d = 2): the reversal of one set combined with the reversal of another
            keys = sorted(sizes)
            for a in range(len(keys)):
                for b in range(a + 1, len(keys)):
                    devs.append(((keys[a], tuple(reversed(range(sizes[keys[a]])))), (keys[b], tuple(reversed(range(sizes[keys[b]]))))))
        ctx.rng.shuffle(devs)
        payloads = [{"tree": tree_sorted, "devs": c} for c in core.chunks(devs, core.NCPU)]
        for kind, results, n, e in core.pmap(permset_worker, [(n_chr, "deviate", p, ctx.scratch, 100 + i, cfg) for i, p in enumerate(payloads)]):
            nperm += n or 0
            for dev, df in results or []:
                for fname, what in df[:2]:
                    ctx.violation("%ssetorder:%s" % (tag, fname.split("OUT.")[-1]),
                                  "[%s] iteration order(s) %s change %s: %s" % (cname, "; ".join("%s of the set %s" % (list(pm), k[:100]) for k, pm in dev), fname, what),
                                  {"cfg": cfg, "n_chr": n_chr, "setorder": [[k, list(pm)] for k, pm in dev]})
    ctx.note("[%s] PERMSET: %d hash-order-dependent sets iterated (choice points), %d deviation runs%s" %
             (cname, ncp, nperm, "" if quick else " (all single deviations + all pairs of reversals)"))
    # hash-seed sweep through the real CLI (fresh interpreters)
    seeds = list(range(0, (8 if cfg == 0 else 4) if quick else 48))
    if cname == "split-locus":
        seeds = []          # the real CLI cannot be given scaled constants
    trees = {}
    for t, errs in core.pmap(seed_sweep, [(n_chr, c, ctx.scratch, i, cfg) for i, c in enumerate(core.chunks(seeds, core.NCPU))]):
        trees.update(t)
        for seed, df in errs:
            ctx.violation(tag + "hashseed:run-failed", "[%s] PYTHONHASHSEED=%d: %s" % (cname, seed, df[0][1]), {"seed": seed})
    if trees:
        s0 = min(trees)
        for seed in sorted(trees):
            df = diff_trees(trees[s0], trees[seed])
            for fname, what in df[:3]:
                ctx.violation("%shashseed:%s" % (tag, fname.split("OUT.")[-1]), "[%s] PYTHONHASHSEED=%d vs %d: %s differs: %s" % (cname, seed, s0, fname, what),
                              {"seeds": [s0, seed]})
    ctx.note("[%s] hash-seed sweep through the real CLI: %d seeds (supporting evidence, not an enumeration)" % (cname, len(trees)))
    tot["states"] += len(variants) + len(modes) + len(gorders)
    tot["runs"] += nruns
    tot["seeds"] += len(trees)
    tot["schedules"] += len(variants)
    tot["modes"] += len(modes)
    tot["gorders"] += len(gorders)
    tot["ncp"] += ncp
    tot["nperm"] += nperm
    tot["parts"] = parts


def run(ctx):
    quick = ctx.tier == "quick"
    n_chr = 3 if quick else 4
    tot = dict(states=0, runs=0, seeds=0, schedules=0, modes=0, gorders=0, ncp=0, nperm=0)
    cfgs = [0, 1, 3, 4, 5] if quick else [0, 1, 2, 3, 4, 5]
    for cfg in cfgs:
        explore_config(ctx, cfg, n_chr, quick, tot)
    parts = tot["parts"]
    ctx.coverage.update({
        "states": tot["states"], "transitions": tot["runs"] + tot["nperm"], "traces_validated_against_impl": tot["runs"] + tot["seeds"] + tot["nperm"],
        "schedules": tot["schedules"], "n_chromosomes": n_chr, "mode_variants": tot["modes"], "group_orders": tot["gorders"],
        "option_configurations": [CONFIGS[c][0] for c in cfgs],
        "hash_seeds_sampled": tot["seeds"], "exhaustive": True, "set_order_choice_points": tot["ncp"], "set_order_deviation_runs": tot["nperm"],
        "samples": [{"stage1_partition": parts[-1], "stage2_partition": parts[1]}],
        "evaluations": tot["runs"] + tot["seeds"] + tot["nperm"], "distinct_nontrivial": tot["schedules"] + tot["nperm"],
        "rule": "state = (stage-1 partition, stage-2 partition) of chromosome tasks to workers; every partition of %d tasks is enumerated for "
                "both stages; each schedule is one complete pipeline execution under the virtual pool; set orders: every hash-order-dependent "
                "set iterated during the run is a choice point, all single deviations%s" % (n_chr, "" if quick else " and all pairs of reversals"),
    })
    ctx.assumptions += [
        "worker processes share no memory and write disjoint per-chromosome files, so running the blocks of a partition one after another "
        "is equivalent to running them concurrently",
        "set iteration orders are explored up to one deviation per run (thorough: plus pairs of reversals); sets created inside third-party "
        "libraries are not rewritten; the PYTHONHASHSEED sweep is sampling and decides nothing on its own",
    ]


def replay(ctx, case):
    cfg = case.get("cfg", 0)
    if "setorder" in case:
        rec = permset_worker((case.get("n_chr", 3), "record", None, ctx.scratch, 990, cfg))
        if rec[3]:
            return rec[3]
        dev = tuple((k, tuple(pm)) for k, pm in case["setorder"])
        kind, results, n, e = permset_worker((case.get("n_chr", 3), "deviate", {"tree": rec[1], "devs": [dev]}, ctx.scratch, 991, cfg))
        return str(results[0][1][0]) if results else None
    v = case["variant"]
    res, n = base_and_variants((case.get("n_chr", 3), [tuple(v) if v[0] != "sched" else ("sched", v[1], v[2])], ctx.scratch, 999, cfg))
    return str(res[0][1][0]) if res else None
