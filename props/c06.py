"""C06 — outputs do not depend on threads, hash seed, memory mode or repetition.

Owned choices: (a) worker schedules = every partition of the chromosome task list of stage 1 (read collection) x every
partition of stage 2 (model construction) under the virtual pool; (b) memory mode / keep_tmp / repetition;
(c) iteration order of the read-group set (explicit); (d) string-hash seed: fresh interpreters with different
PYTHONHASHSEED through the real CLI (supporting evidence: a sweep, not an enumeration).
Oracle: every file under <out>/<prefix>/ outside aux/ is byte-identical to the base run (threads 1) after dropping the
command-line header and decompressing .gz.
"""
import itertools
import os
import shutil
import subprocess
import sys

from vlib import core

LEVEL = "model_checking"


def world(n_chr):
    """mixed world whose reference already contains IsoQuant-style ids on the first chromosomes (an earlier IsoQuant output used
    as annotation): numbers reserved on one chromosome must not influence numbering on another one"""
    from vlib import worlds as W
    w = W.mixed_world(n_chr)
    ren = {"TA0_2": "transcript1.chr1.nic", "TA0_3": "transcript2.chr1.nnic", "TB0_2": "transcript4.chr1.nic",
           "TB1_2": "transcript3.chr2.nnic"}
    gren = {"GB0": "novel_gene_chr1_5", "GB1": "novel_gene_chr2_1"}
    for g in w["genes"]:
        g["id"] = gren.get(g["id"], g["id"])
        for t in g["transcripts"]:
            t["id"] = ren.get(t["id"], t["id"])
    # exons and introns shared by several genes (an overlapping same-strand gene and an antisense gene): their gene lists are
    # built from sets of gene ids
    from vlib import worlds as W
    last = "chr%d" % n_chr
    w["genes"].append(W.locus_gene("GS", last, "+", 1000, {"TS_1": [2, 3, 4]}))
    w["genes"].append(W.locus_gene("GX", last, "-", 1000, {"TX_1": [1, 2]}))
    w["genes"].append(W.locus_gene("AA", last, "+", 1000, {"TAA_1": [3, 4, 5]}))
    return w


def diff_trees(t0, t1):
    diffs = []
    for k in sorted(set(t0) | set(t1)):
        if k not in t1:
            diffs.append((k, "missing"))
        elif k not in t0:
            diffs.append((k, "extra"))
        elif t0[k] != t1[k]:
            l0, l1 = t0[k].split(b"\n"), t1[k].split(b"\n")
            i = next((i for i, (a, b) in enumerate(zip(l0, l1)) if a != b), min(len(l0), len(l1)))
            diffs.append((k, "line %d: %r vs %r" % (i, (l0[i] if i < len(l0) else b"")[:90], (l1[i] if i < len(l1) else b"")[:90])))
    return diffs


EXTRA = ["--read_group", "read_id:_", "--count_exons", "--check_canonical", "--sqanti_output"]


def base_and_variants(args):
    n_chr, variants, scratch, wid = args
    from vlib import syn, run, vpool
    w = world(n_chr)
    d = os.path.join(scratch, "c06_%d_%d" % (n_chr, wid))
    shutil.rmtree(d, ignore_errors=True)
    paths = syn.materialise(w, d)
    base_out = os.path.join(d, "base")
    rc = run.run_isoquant(run.base_argv(paths, base_out, extra=EXTRA), paths["home"], os.path.join(d, "base.txt"))
    if rc != 0:
        return [("base", [("run", "base run failed rc=%d %s" % (rc, open(os.path.join(d, "base.txt")).read()[-300:]))])], 1
    t0 = run.read_tree(os.path.join(base_out, "OUT"))
    res = []
    n = 1
    for v in variants:
        kind = v[0]
        out = os.path.join(d, "v")
        shutil.rmtree(out, ignore_errors=True)
        extra = list(EXTRA)
        hook = None
        threads = 1
        if kind == "sched":
            threads = 4
            sched = [v[1], v[2]]
            hook = (lambda s=sched: vpool.install(s))
        elif kind == "mode":
            extra += list(v[1])
            threads = v[2]
            if threads > 1:
                hook = (lambda: vpool.install(None))
        elif kind == "grouporder":
            order = v[1]

            def hook(order=order):
                import src.dataset_processor as DP
                orig = DP.DatasetProcessor.load_read_info

                def patched(self, dump_filename):
                    a, b, g = orig(self, dump_filename)
                    rank = {x: i for i, x in enumerate(order)}
                    return a, b, sorted(g, key=lambda x: (rank.get(x, len(rank)), x))
                DP.DatasetProcessor.load_read_info = patched
        rc = run.run_isoquant(run.base_argv(paths, out, threads=threads, extra=extra), paths["home"], os.path.join(d, "v.txt"), pre_hook=hook)
        n += 1
        if rc != 0:
            res.append((v, [("run", "exit %d: %s" % (rc, open(os.path.join(d, "v.txt")).read()[-300:]))]))
            continue
        t1 = run.read_tree(os.path.join(out, "OUT"))
        df = diff_trees(t0, t1)
        if df:
            res.append((v, df))
    shutil.rmtree(d, ignore_errors=True)
    return res, n


def plain_tree(args):
    n_chr, scratch, wid = args
    from vlib import syn, run
    w = world(n_chr)
    d = os.path.join(scratch, "c06_plain_%d" % wid)
    shutil.rmtree(d, ignore_errors=True)
    paths = syn.materialise(w, d)
    out = os.path.join(d, "out")
    rc = run.run_isoquant(run.base_argv(paths, out, extra=EXTRA), paths["home"], os.path.join(d, "o.txt"))
    t = run.read_tree(os.path.join(out, "OUT")) if rc == 0 else None
    shutil.rmtree(d, ignore_errors=True)
    return t


def permset_worker(args):
    """one PERMSET job in a fresh harness worker: kind 'record' (baseline with sorted orders, returns choice points + tree)
       or 'deviate' (one content gets another iteration order, returns tree diff against the given baseline)"""
    n_chr, kind, payload, scratch, wid = args
    import json
    from vlib import syn, run, permset
    if not any(isinstance(f, permset._Finder) for f in sys.meta_path):
        permset.install(core.REPO)
    w = world(n_chr)
    d = os.path.join(scratch, "c06_perm_%d" % wid)
    shutil.rmtree(d, ignore_errors=True)
    paths = syn.materialise(w, d)
    out = os.path.join(d, "out")
    rec_file = os.path.join(d, "choices.json")
    if kind == "record":
        def pre():
            permset.Controller.record = {}

        def post(code):
            with open(rec_file, "w") as f:
                json.dump(permset.Controller.record, f)
        rc = run.run_isoquant(run.base_argv(paths, out, extra=EXTRA), paths["home"], os.path.join(d, "o.txt"), pre_hook=pre, post_hook=post)
        if rc != 0:
            msg = open(os.path.join(d, "o.txt")).read()[-400:]
            shutil.rmtree(d, ignore_errors=True)
            return "record", None, None, "baseline under PERMSET failed rc=%d %s" % (rc, msg)
        tree = run.read_tree(os.path.join(out, "OUT"))
        choices = json.load(open(rec_file))
        shutil.rmtree(d, ignore_errors=True)
        return "record", tree, choices, None
    results = []
    t0 = payload["tree"]
    for key, perm in payload["devs"]:
        shutil.rmtree(out, ignore_errors=True)

        def pre(key=key, perm=perm):
            permset.Controller.deviation = (key, tuple(perm))
        rc = run.run_isoquant(run.base_argv(paths, out, extra=EXTRA), paths["home"], os.path.join(d, "o.txt"), pre_hook=pre)
        if rc != 0:
            results.append((key, perm, [("run", "exit %d: %s" % (rc, open(os.path.join(d, "o.txt")).read()[-300:]))]))
            continue
        df = diff_trees(t0, run.read_tree(os.path.join(out, "OUT")))
        if df:
            results.append((key, perm, df))
    shutil.rmtree(d, ignore_errors=True)
    return "deviate", results, len(payload["devs"]), None


def seed_sweep(args):
    n_chr, seeds, scratch, wid = args
    from vlib import syn, run
    w = world(n_chr)
    d = os.path.join(scratch, "c06_seed_%d" % wid)
    shutil.rmtree(d, ignore_errors=True)
    paths = syn.materialise(w, d)
    trees = {}
    errs = []
    for seed in seeds:
        out = os.path.join(d, "s%d" % seed)
        env = dict(os.environ, PYTHONHASHSEED=str(seed), HOME=paths["home"])
        argv = ["/venv/bin/python", "-W", "ignore", os.path.join(core.REPO, "isoquant.py")] + run.base_argv(paths, out, threads=2 if seed % 2 else 1, extra=EXTRA)
        r = subprocess.run(argv, env=env, capture_output=True, text=True, cwd=d)
        if r.returncode != 0:
            errs.append((seed, [("run", "exit %d: %s" % (r.returncode, (r.stdout + r.stderr)[-300:]))]))
            continue
        trees[seed] = run.read_tree(os.path.join(out, "OUT"))
        shutil.rmtree(out, ignore_errors=True)
    shutil.rmtree(d, ignore_errors=True)
    return trees, errs


def run(ctx):
    quick = ctx.tier == "quick"
    from vlib import vpool
    n_chr = 3 if quick else 4
    parts = vpool.set_partitions(n_chr)
    variants = [("sched", p1, p2) for p1 in parts for p2 in parts]
    modes = [("mode", ("--high_memory",), 1), ("mode", ("--keep_tmp",), 1), ("mode", ("--high_memory", "--keep_tmp"), 1), ("mode", (), 1),
             ("mode", ("--high_memory",), 4), ("mode", (), 2), ("mode", ("--no_gzip",), 1)]
    modes = [m for m in modes if m[1] != ("--no_gzip",)]
    groups = ["gA", "gB", "gC", "NA"]
    gorders = [("grouporder", o) for o in itertools.permutations(groups)]
    if quick:
        gorders = gorders[::5]
    allv = variants + modes + gorders
    ctx.rng.shuffle(allv)
    chunks = core.chunks(allv, core.NCPU)
    nruns = 0
    nviol = 0
    for res, n in core.pmap(base_and_variants, [(n_chr, c, ctx.scratch, i) for i, c in enumerate(chunks)]):
        nruns += n
        for v, df in res:
            for fname, what in df[:3]:
                kind = v[0] if v != "base" else "base"
                key = "%s:%s" % (kind, fname.split("OUT.")[-1])
                ctx.violation(key, "variant %s: file %s differs from the threads=1 base run: %s" % (v, fname, what), {"variant": v, "n_chr": n_chr})
    ctx.note("%d chromosomes: %d worker schedules (all partitions stage1 x stage2), %d mode variants, %d group orders; %d runs" %
             (n_chr, len(variants), len(modes), len(gorders), nruns))
    # ---- PERMSET: every iterated set whose order depends on the hash seed is a choice point; explore all single deviations
    from vlib import permset
    kind, tree_sorted, choices, err = core.pmap(permset_worker, [(n_chr, "record", None, ctx.scratch, 0), (n_chr, "record", None, ctx.scratch, 1)], jobs=2)[0]
    nperm = 0
    ncp = 0
    if err:
        ctx.violation("permset:baseline-failed", err, {})
    else:
        # soundness of the rewrite: with sorted set orders the outputs must equal those of the unmodified interpreter
        plain = core.pmap(plain_tree, [(n_chr, ctx.scratch, 9000), (n_chr, ctx.scratch, 9001)], jobs=2)[0]
        if plain is None:
            ctx.violation("permset:plain-run-failed", "plain base run failed", {})
        else:
            for fname, what in diff_trees(plain, tree_sorted)[:3]:
                ctx.violation("setorder-sorted:%s" % fname.split("OUT.")[-1], "with every hash-dependent set iterated in sorted order %s differs "
                              "from the run on the unmodified interpreter (PYTHONHASHSEED=0): %s" % (fname, what), {"file": fname})
        devs = []
        for key, cnt in sorted(choices.items()):
            n = key.count(", ") + 1 if key != "[]" else 0
            try:
                n = len(eval(key, {"__builtins__": {}}, {})) if not ("<" in key) else n
            except Exception:
                pass
            if n < 2:
                continue
            ncp += 1
            for perm in permset.deviations_for(key, n):
                devs.append((key, perm))
        ctx.rng.shuffle(devs)
        payloads = [{"tree": tree_sorted, "devs": c} for c in core.chunks(devs, core.NCPU)]
        for kind, results, n, e in core.pmap(permset_worker, [(n_chr, "deviate", p, ctx.scratch, 100 + i) for i, p in enumerate(payloads)]):
            nperm += n or 0
            for key, perm, df in results or []:
                for fname, what in df[:2]:
                    ctx.violation("setorder:%s" % fname.split("OUT.")[-1],
                                  "iteration order %s of the set %s changes %s: %s" % (list(perm), key[:120], fname, what),
                                  {"set": key, "perm": list(perm)})
    ctx.note("PERMSET: %d hash-order-dependent sets iterated (choice points), %d single-deviation runs" % (ncp, nperm))
    # hash-seed sweep through the real CLI (fresh interpreters)
    seeds = list(range(0, 8 if quick else 48))
    trees = {}
    for t, errs in core.pmap(seed_sweep, [(n_chr, c, ctx.scratch, i) for i, c in enumerate(core.chunks(seeds, core.NCPU))]):
        trees.update(t)
        for seed, df in errs:
            ctx.violation("hashseed:run-failed", "PYTHONHASHSEED=%d: %s" % (seed, df[0][1]), {"seed": seed})
    if trees:
        s0 = min(trees)
        for seed in sorted(trees):
            df = diff_trees(trees[s0], trees[seed])
            for fname, what in df[:3]:
                ctx.violation("hashseed:%s" % fname.split("OUT.")[-1], "PYTHONHASHSEED=%d vs %d: %s differs: %s" % (seed, s0, fname, what), {"seeds": [s0, seed]})
    ctx.note("hash-seed sweep through the real CLI: %d seeds (supporting evidence, not an enumeration)" % len(trees))
    ctx.coverage.update({
        "states": len(parts) * len(parts) + len(modes) + len(gorders), "transitions": nruns, "traces_validated_against_impl": nruns + len(trees),
        "schedules": len(variants), "n_chromosomes": n_chr, "mode_variants": len(modes), "group_orders": len(gorders),
        "hash_seeds_sampled": len(trees), "exhaustive": True, "set_order_choice_points": ncp, "set_order_deviation_runs": nperm,
        "samples": [{"stage1_partition": parts[-1], "stage2_partition": parts[1]}],
        "evaluations": nruns + len(trees), "distinct_nontrivial": len(variants),
        "rule": "state = (stage-1 partition, stage-2 partition) of chromosome tasks to workers; every partition of %d tasks is enumerated for "
                "both stages; each schedule is one complete pipeline execution under the virtual pool" % n_chr,
    })
    ctx.assumptions += [
        "worker processes share no memory and write disjoint per-chromosome files, so running the blocks of a partition one after another "
        "is equivalent to running them concurrently",
        "set iteration order is owned only at the read-group seam; other str-hashed sets are covered by the PYTHONHASHSEED sweep, which is "
        "sampling and decides nothing on its own",
    ]


def replay(ctx, case):
    v = case["variant"]
    res, n = base_and_variants((case.get("n_chr", 3), [tuple(v) if v[0] != "sched" else ("sched", v[1], v[2])], ctx.scratch, 999))
    return str(res[0][1][0]) if res else None
