"""C04 — novel transcripts are evidence-backed, correctly labelled and non-redundant.

Invariants on the same MIX executions as C03 (separate runs, separate evidence): every intron of a novel model occurs in
the corrected alignment of some read of that chromosome; every novel model has a supporting read in
transcript_model_reads, which references only printed transcripts; definite strand; .nic <=> all introns annotated;
intron chain differs from every reference chain and from every other novel chain on the strand; annotation-free runs
report only novel transcripts in novel_gene_* genes.
"""
import gzip
import os
import shutil

from vlib import core, mix
from props import c03

LEVEL = "exploration"


def evaluate(out, w, annotated):
    from vlib import run
    errs = []
    mp = os.path.join(out, "OUT", "OUT.transcript_models.gtf")
    if not os.path.exists(mp):
        return [("models-missing", "transcript_models.gtf missing")], 0
    ts = run.gtf_transcripts(run.parse_gtf(mp))
    ref = {}
    ref_introns = {}
    for g in (w["genes"] if annotated else []):
        for t in g["transcripts"]:
            ex = [tuple(e) for e in t["exons"]]
            ref[t["id"]] = (g["chr"], g["strand"], tuple((ex[i][1] + 1, ex[i + 1][0] - 1) for i in range(len(ex) - 1)))
            for i in range(len(ex) - 1):
                ref_introns.setdefault(g["chr"], set()).add((ex[i][1] + 1, ex[i + 1][0] - 1))
    bed_introns = {}
    for b in run.parse_bed(run.find(out, "OUT", ".corrected_reads.bed")):
        bl = b["blocks"]
        for i in range(len(bl) - 1):
            bed_introns.setdefault(b["chr"], set()).add((bl[i][1] + 1, bl[i + 1][0] - 1))
    r2t = {}
    p = run.find(out, "OUT", ".transcript_model_reads.tsv")
    if p:
        op = gzip.open(p, "rt") if p.endswith(".gz") else open(p)
        for l in op:
            if l.startswith("#") or not l.strip():
                continue
            rid, tid = l.rstrip("\n").split("\t")[:2]
            if tid != "*":
                r2t.setdefault(tid, set()).add(rid)
    for tid in r2t:
        if tid not in ts:
            errs.append(("reads-reference-unprinted", "transcript_model_reads mentions %s which is not in transcript_models.gtf" % tid))
    novel = {tid: t for tid, t in ts.items() if tid not in ref}
    chains = {}
    for tid, t in novel.items():
        ex = sorted(t["exons"])
        introns = tuple((ex[i][1] + 1, ex[i + 1][0] - 1) for i in range(len(ex) - 1))
        for it in introns:
            if it not in bed_introns.get(t["chr"], set()):
                errs.append(("intron-without-read", "novel %s intron %s-%s occurs in no corrected alignment of %s" % (tid, it[0], it[1], t["chr"])))
        if not r2t.get(tid):
            errs.append(("no-supporting-read", "novel %s has no read in transcript_model_reads" % tid))
        if t["strand"] not in "+-":
            errs.append(("indefinite-strand", "novel %s has strand %r" % (tid, t["strand"])))
        if introns:
            all_known = all(it in ref_introns.get(t["chr"], set()) for it in introns)
            if tid.endswith(".nic") != all_known or (not tid.endswith(".nic") and not tid.endswith(".nnic")):
                errs.append(("nic-label", "novel %s: all introns annotated=%s" % (tid, all_known)))
            for rid, (c, s, rch) in ref.items():
                if c == t["chr"] and rch == introns:
                    errs.append(("duplicates-reference", "novel %s (%s) has the intron chain of reference %s (%s)" % (tid, t["strand"], rid, s)))
            k = (t["chr"], t["strand"], introns)
            if k in chains:
                other = novel[chains[k]]
                oex = sorted(other["exons"])
                far_ends = abs(oex[0][0] - ex[0][0]) > 100 or abs(oex[-1][1] - ex[-1][1]) > 100
                sub = ":single-intron:different-ends" if (len(introns) == 1 and far_ends) else ""
                errs.append(("duplicate-novel-chain" + sub, "novel %s and %s share the intron chain %s on %s (exons %s / %s)" %
                             (chains[k], tid, introns, t["strand"], oex, ex)))
            chains[k] = tid
        if not annotated:
            if not str(t["gene"]).startswith("novel_gene"):
                errs.append(("annotation-free-gene", "annotation-free run: %s belongs to gene %s" % (tid, t["gene"])))
    if not annotated and len(novel) != len(ts):
        errs.append(("annotation-free-known", "annotation-free run reports non-novel ids %s" % sorted(set(ts) - set(novel))))
    return errs, len(novel)


def case(args):
    scenario, annotated, strategy, extra, scaled, scratch = args
    tag = mix.scenario_tag(scenario, annotated, strategy, extra) + ("_sc" if scaled else "")
    hook = mix.scale_constants() if scaled else None
    rc, out, w, paths, d = mix.run_scenario(scenario, annotated, strategy, scratch, "c04_" + tag, extra=extra, pre_hook=hook)
    if rc != 0:
        errs = [("run-failed", "exit %d: %s" % (rc, open(os.path.join(d, "o.txt")).read()[-300:]))]
        n = 0
    else:
        if not annotated:
            w = dict(w, genes=[])
        errs, n = evaluate(out, w, annotated)
    shutil.rmtree(d, ignore_errors=True)
    return (scenario, annotated, strategy, extra, scaled), errs, n


def extra_world(name):
    """hand-built annotation shapes the MIX family does not hold"""
    from vlib import worlds as W, syn
    w = W.base_world(1, 8000)
    t1 = [[1001, 1200], [1501, 1700], [2001, 2200], [2501, 2800]]
    if name == "monoexon-reference-first":
        # an unspliced reference transcript that precedes the spliced one in its gene; reads with exactly T1's intron chain whose first
        # exon starts 600 bp upstream of T1 (they are not assigned to T1 by their ends - and they are not a novel isoform either)
        w["genes"].append({"id": "G1", "chr": "chr1", "strand": "+", "transcripts": [{"id": "T0", "exons": [[991, 1150]]}, {"id": "T1", "exons": t1}]})
        syn.plant_for_transcripts(w)
        for i in range(6):
            w["reads"].append(W.read_of("up%d" % i, "chr1", [[401, 1200]] + t1[1:]))
        for i in range(3):
            w["reads"].append(W.read_of("fl%d" % i, "chr1", t1))
    elif name == "monoexon-reference-first-minus":
        m = [[8001 - e, 8001 - s_] for s_, e in reversed(t1)]
        w["genes"].append({"id": "G1", "chr": "chr1", "strand": "-", "transcripts": [{"id": "T0", "exons": [[5100, 5400]]}, {"id": "T1", "exons": m}]})
        syn.plant_for_transcripts(w)
        for i in range(6):
            w["reads"].append(W.read_of("up%d" % i, "chr1", m[:-1] + [[m[-1][0], m[-1][1] + 600]], strand="-"))
    return w


def extra_case(args):
    name, strategy, scratch = args
    from vlib import syn, run
    w = extra_world(name)
    d = os.path.join(scratch, "c04x_%s_%s" % (name, strategy))
    shutil.rmtree(d, ignore_errors=True)
    paths = syn.materialise(w, d)
    out = os.path.join(d, "out")
    rc = run.run_isoquant(run.base_argv(paths, out, extra=["--model_construction_strategy", strategy]), paths["home"], os.path.join(d, "o.txt"))
    if rc != 0:
        errs, n = [("run-failed", "exit %d: %s" % (rc, open(os.path.join(d, "o.txt")).read()[-300:]))], 0
    else:
        errs, n = evaluate(out, w, 1)
    shutil.rmtree(d, ignore_errors=True)
    return (name, strategy), errs, n


def run(ctx):
    for key, errs, n in core.pmap(extra_case, [(nm, st, ctx.scratch) for nm in ("monoexon-reference-first", "monoexon-reference-first-minus")
                                               for st in ("default_ont", "all")]):
        for k, msg in errs:
            ctx.violation(k + ":" + key[0], "world %s strategy %s: %s" % (key + (msg,)), {"extra_world": key[0], "strategy": key[1]})
    jobs = c03.job_list(ctx)
    ctx.rng.shuffle(jobs)
    nnovel = 0
    nruns = 0
    for key, errs, n in core.pmap(case, jobs, chunksize=4):
        nnovel += n
        if n:
            nruns += 1
        for k, msg in errs:
            if k == "indefinite-strand":
                # documented: --report_canonical all reports every model regardless of its splice sites (strand may stay undefined);
                # 'auto' takes the level of the model construction strategy ('all' only for the strategy 'all'); without the option
                # the level is only_stranded
                ex = list(key[3])
                level = ex[ex.index("--report_canonical") + 1] if "--report_canonical" in ex else "only_stranded"
                if level == "auto":
                    level = "all" if key[2] == "all" else "stranded"
                if level == "all":
                    continue
            kk = k + (":split-locus" if key[4] else "")
            ctx.violation(kk, "scenario %s annotated=%d strategy=%s extra=%s scaled=%d: %s" % (key + (msg,)),
                          {"scenario": [list(x) for x in key[0]], "annotated": key[1], "strategy": key[2], "extra": list(key[3]), "scaled": key[4]})
    ctx.note("%d pipeline runs (%d reported novel transcripts), %d novel transcripts checked" % (len(jobs), nruns, nnovel))
    ctx.coverage.update({
        "evaluations": len(jobs), "distinct_nontrivial": nruns, "novel_transcripts_checked": nnovel,
        "rule": "same case space as C03; non-trivial = the run reported at least one novel transcript",
        "exhaustive": True, "samples": [{"scenario": [list(x) for x in jobs[0][0]], "annotated": jobs[0][1], "strategy": jobs[0][2]}],
    })
    ctx.assumptions += ["'annotated intron' = intron of a reference transcript on the same chromosome (exact coordinates)"]


def replay(ctx, c):
    if "extra_world" in c:
        key, errs, n = extra_case((c["extra_world"], c["strategy"], ctx.scratch))
        return errs[0][1] if errs else None
    key, errs, n = case((tuple(tuple(x) for x in c["scenario"]), c["annotated"], c["strategy"], tuple(c["extra"]), c["scaled"], ctx.scratch))
    return errs[0][1] if errs else None
