"""C01 — reads that follow an annotated isoform are assigned to compatible isoforms only.

Space: annotations from an exon-lattice grammar (1-2 genes, <=3 isoforms over 4-5 slots, alternative terminal boundaries,
both strands, antisense / neighbour / other-chromosome second gene) x reads derived from an isoform T by <=d deviations
(5'/3' truncation, splice-site jitter within delta, exonic indels, polyA tail, reverse flag) x 4 matching presets, plus
negative reads far beyond every tolerance.  One pipeline run (--no_model_construction) per (annotation, preset) carries
all derived reads.  Oracle: independent structural-compatibility model.
"""
import itertools
import os
import shutil

from vlib import core

LEVEL = "exploration"

PRESETS = {"exact": 0, "precise": 4, "default": 6, "loose": 12,
           # an explicit --delta overrides the preset's splice-site tolerance (0 = exact comparison)
           "default+delta0": 0, "loose+delta3": 3}
PRESET_OPTS = {"default+delta0": ["--matching_strategy", "default", "--delta", "0"], "loose+delta3": ["--matching_strategy", "loose", "--delta", "3"]}
CONSISTENT = ("unique", "unique_minor_difference", "ambiguous")


# ------------------------------------------------------------------------------------------------ annotation grammar
def slot(base, i):
    # slot lengths differ by 50 bp (> 2*delta of every preset): IsoQuant's terminal-exon-misalignment heuristic treats a terminal
    # exon whose length is within 2*delta of the annotated one as the same exon aligned elsewhere; the lattice itself stays out of that
    # band, the negative kind alt-terminal-same-length enters it deliberately (known finding)
    s = base + 800 * i + 1
    return (s, s + 199 + 50 * i)


def isoform_exons(base, slots, alt_first=0, alt_last=0, shifts=()):
    ex = [list(slot(base, i)) for i in slots]
    ex[0][0] -= alt_first          # alternative (longer) first exon start, >= 80 bp away
    ex[-1][1] += alt_last
    for (i, side, sh) in shifts:   # alternative splice site a few bases away (NAGNAG-like), inside the delta of most presets
        ex[i][side] += sh
    return [tuple(e) for e in ex]


def annotations(tier):
    """yields (name, world-without-reads, isoform table {tid: (chr, strand, exons, gene)})"""
    nslots = 4 if tier == "quick" else 5
    allsub = []
    for k in range(1, nslots + 1):
        for sub in itertools.combinations(range(nslots), k):
            allsub.append(sub)
    multi = [s for s in allsub if len(s) >= 2]
    specs = []
    full = tuple(range(nslots))
    # single isoform, pairs and triples containing the full chain (multi-isoform genes with skipped exons / alternative ends)
    specs.append([(full, 0, 0)])
    others = [s for s in multi if s != full and s[0] == 0 and s[-1] == nslots - 1]
    for o in others:
        specs.append([(full, 0, 0), (o, 0, 0)])
    for o1, o2 in itertools.combinations(others, 2):
        specs.append([(full, 0, 0), (o1, 0, 0), (o2, 0, 0)])
    # alternative terminal exons / boundaries
    specs.append([(full, 0, 0), (full, 100, 0)])
    specs.append([(full, 0, 0), (full, 0, 120)])
    specs.append([(full, 0, 0), (full[1:], 0, 0)])           # alternative first exon (shorter isoform)
    specs.append([(full, 0, 0), (full[:-1], 0, 0)])
    specs.append([(full, 0, 0), (full[1:], 0, 0), (full[:-1], 0, 0)])
    specs.append([(full, 0, 0), ((1,), 0, 0)])                # mono-exonic isoform inside
    specs.append([(full, 0, 0), (full[:-1] + (nslots,), 0, 0)])          # alternative last exon (non-overlapping, further downstream)
    # isoform pairs whose introns differ by a 3-bp (or 5-bp) splice-site shift: within delta of precise/default/loose, not of exact
    specs.append([(full, 0, 0), (full, 0, 0, ((1, 0, 3),))])     # alternative acceptor +3 at exon 2
    specs.append([(full, 0, 0), (full, 0, 0, ((1, 1, -3),))])    # alternative donor -3 at exon 2
    specs.append([(full, 0, 0), (full, 0, 0, ((2, 0, -5),)), (full[1:], 0, 0)])
    # T = slots 2.. ; a longer isoform containing T (extra exons upstream) ; a third isoform whose intron overlaps T's first exon by
    # 100 bp (its exon is the right part of T's first exon): T's transcription start lies inside an intron of another isoform
    specs.append([(full, 0, 0), (full[2:], 0, 0), (full[1:], 0, 0, ((1, 0, 100),))])
    specs.append([(full, 0, 0), (full[:-2], 0, 0), (full[:-1], 0, 0, ((len(full) - 3, 1, -100),))])     # the same at the 3' side
    if tier == "thorough":
        inner = [s for s in multi if s not in others and s != full]
        for o in inner[:8]:
            specs.append([(full, 0, 0), (o, 0, 0)])
        specs.append([(full, 0, 0), (full, 100, 120), (full[1:], 90, 0)])
    out = []
    n = 0
    for spec in specs:
        for strand in "+-":
            for second in ((None,) if tier == "quick" else (None, "antisense", "neighbour", "otherchr")):
                w = {"chroms": {"chr1": 12000, "chr2": 7000}, "genes": [], "sites": [], "reads": []}
                iso = {}
                ts = []
                for k, sp in enumerate(spec):
                    slots, af, al = sp[:3]
                    tid = "T%d" % (k + 1)
                    ex = isoform_exons(1000, slots, af, al, sp[3] if len(sp) > 3 else ())
                    ts.append({"id": tid, "exons": [list(e) for e in ex]})
                    iso[tid] = ("chr1", strand, ex, "G1")
                w["genes"].append({"id": "G1", "chr": "chr1", "strand": strand, "transcripts": ts})
                if second == "antisense":
                    ex = isoform_exons(1000 + 300, (0, 1, 2))      # shifted by half a period: overlaps G1's span, opposite strand
                    w["genes"].append({"id": "G2", "chr": "chr1", "strand": "-" if strand == "+" else "+",
                                       "transcripts": [{"id": "U1", "exons": [list(e) for e in ex]}]})
                    iso["U1"] = ("chr1", "-" if strand == "+" else "+", ex, "G2")
                elif second == "neighbour":
                    ex = isoform_exons(6000, (0, 1, 2))
                    w["genes"].append({"id": "G2", "chr": "chr1", "strand": strand, "transcripts": [{"id": "U1", "exons": [list(e) for e in ex]}]})
                    iso["U1"] = ("chr1", strand, ex, "G2")
                elif second == "otherchr":
                    ex = isoform_exons(1000, (0, 1, 2))
                    w["genes"].append({"id": "G2", "chr": "chr2", "strand": strand, "transcripts": [{"id": "U1", "exons": [list(e) for e in ex]}]})
                    iso["U1"] = ("chr2", strand, ex, "G2")
                n += 1
                out.append(("a%d" % n, w, iso, {"spec": spec, "strand": strand, "second": second}))
    # the single-isoform annotation with 20 genomic A's (T's on '-') inside the 3' terminal exon, ending 100 bp before the transcript end:
    # a read truncated there ends in an A-rich stretch of the GENOME, not in a tail
    for strand in "+-":
        ex = isoform_exons(1000, tuple(range(nslots)))
        e3 = ex[-1] if strand == "+" else ex[0]
        patch = ["chr1", e3[1] - 100 - 19, "A" * 20] if strand == "+" else ["chr1", e3[0] + 100, "T" * 20]
        w = {"chroms": {"chr1": 12000, "chr2": 7000}, "sites": [], "reads": [], "patches": [patch],
             "genes": [{"id": "G1", "chr": "chr1", "strand": strand, "transcripts": [{"id": "T1", "exons": [list(e) for e in ex]}]}]}
        n += 1
        out.append(("a%d" % n, w, {"T1": ("chr1", strand, ex, "G1")}, {"spec": "genomic-a-run", "strand": strand, "second": None,
                                                                         "arun": (e3[1] - 100) if strand == "+" else (e3[0] + 100)}))
    # the single-isoform annotation whose last-but-one exon (in transcript direction) is 30 bp long: a read that stops, with a polyA tail
    # (polyT head on '-'), right after the exon BEFORE it ends two exons and 1.5 kb before the isoform's end
    for strand in "+-":
        ex = [list(e) for e in isoform_exons(1000, tuple(range(nslots)))]
        if strand == "+":
            ex[-2][1] = ex[-2][0] + 29
        else:
            ex[1][0] = ex[1][1] - 29
        ex = [tuple(e) for e in ex]
        w = {"chroms": {"chr1": 12000, "chr2": 7000}, "sites": [], "reads": [],
             "genes": [{"id": "G1", "chr": "chr1", "strand": strand, "transcripts": [{"id": "T1", "exons": [list(e) for e in ex]}]}]}
        n += 1
        out.append(("a%d" % n, w, {"T1": ("chr1", strand, ex, "G1")}, {"spec": "short-penultimate-exon", "strand": strand, "second": None, "apa": True}))
    # the single-isoform annotation whose 3' terminal exon is 60 bp long and ends in 45 A-rich genomic bases (AAAAG x 9; the mirror image
    # on '-'): reads that follow it exactly
    for strand in "+-":
        ex = [list(e) for e in isoform_exons(1000, tuple(range(nslots)))]
        if strand == "+":
            ex[-1][1] = ex[-1][0] + 59
            patch = ["chr1", ex[-1][1] - 44, "AAAAG" * 9]
        else:
            ex[0][0] = ex[0][1] - 59
            patch = ["chr1", ex[0][0], "CTTTT" * 9]
        ex = [tuple(e) for e in ex]
        w = {"chroms": {"chr1": 12000, "chr2": 7000}, "sites": [], "reads": [], "patches": [patch],
             "genes": [{"id": "G1", "chr": "chr1", "strand": strand, "transcripts": [{"id": "T1", "exons": [list(e) for e in ex]}]}]}
        n += 1
        out.append(("a%d" % n, w, {"T1": ("chr1", strand, ex, "G1")}, {"spec": "a-rich-short-terminal-exon", "strand": strand, "second": None, "arich": True}))
    # a gene nested in the last intron of another gene; reads exist for the host's SHORT isoform (first two exons) and for the nested gene
    # only, so they form two separate read clusters: the first overlaps the host gene alone, the second the host and the nested gene
    for strand in "+-":
        full = tuple(range(4))
        t1 = isoform_exons(1000, full)
        t2 = isoform_exons(1000, (0, 1))
        u1 = [(t1[2][1] + 51, t1[2][1] + 150), (t1[2][1] + 351, t1[2][1] + 450)]
        w = {"chroms": {"chr1": 12000, "chr2": 7000}, "sites": [], "reads": [], "genes": [
            {"id": "G1", "chr": "chr1", "strand": strand, "transcripts": [{"id": "T1", "exons": [list(e) for e in t1]}, {"id": "T2", "exons": [list(e) for e in t2]}]},
            {"id": "G2", "chr": "chr1", "strand": strand, "transcripts": [{"id": "U1", "exons": [list(e) for e in u1]}]}]}
        iso = {"T1": ("chr1", strand, t1, "G1"), "T2": ("chr1", strand, t2, "G1"), "U1": ("chr1", strand, u1, "G2")}
        n += 1
        out.append(("a%d" % n, w, iso, {"spec": "nested-two-clusters", "strand": strand, "second": "nested", "reads_for": ["T2", "U1"]}))
    return out


# ------------------------------------------------------------------------------------------------ reads
def introns_of(blocks):
    return [(blocks[i][1] + 1, blocks[i + 1][0] - 1) for i in range(len(blocks) - 1)]


def derive_reads(tid, chrom, strand, exons, delta, d):
    """positive reads of isoform T: list of (name, blocks, extras dict, deviations tuple)"""
    n = len(exons)
    menu = []
    for i in range(n):
        for off in (15, 100):
            if exons[i][1] - exons[i][0] + 1 > off + 20:
                menu.append(("ltrunc", i, off))
                menu.append(("rtrunc", i, off))
    for j in range(n - 1):
        for side in ("donor", "acceptor"):
            for sh in sorted({1, -1, delta, -delta} - {0}) if delta > 0 else ():
                menu.append(("jitter", j, side, sh))
    for i in range(n):
        menu.append(("del3", i))
        menu.append(("ins3", i))
    menu.append(("polya",))
    menu.append(("polya-aligned",))       # 25 bases of the tail aligned as a spurious terminal block behind a 375-bp gap, the rest clipped
    menu.append(("flip",))
    out = []
    seen = set()
    for k in range(0, d + 1):
        for devs in itertools.combinations(menu, k):
            kinds = [x[0] for x in devs]
            if kinds.count("ltrunc") > 1 or kinds.count("rtrunc") > 1 or kinds.count("polya") > 1:
                continue
            blocks = [list(e) for e in exons]
            lo, hi = 0, n - 1
            ok = True
            for dv in devs:
                if dv[0] == "ltrunc":
                    lo = dv[1]
                elif dv[0] == "rtrunc":
                    hi = dv[1]
            if lo > hi:
                continue
            blocks = blocks[lo:hi + 1]
            offs = {dv[0]: dv for dv in devs if dv[0] in ("ltrunc", "rtrunc")}
            if "ltrunc" in offs:
                blocks[0][0] += offs["ltrunc"][2]
            if "rtrunc" in offs:
                blocks[-1][1] -= offs["rtrunc"][2]
            if blocks[0][0] + 30 > blocks[0][1] and len(blocks) == 1:
                continue
            if any(b[1] - b[0] < 14 for b in blocks):
                continue
            edits = []
            jit = {}
            for dv in devs:
                if dv[0] == "jitter":
                    j = dv[1] - lo
                    if j < 0 or j >= len(blocks) - 1:
                        ok = False
                        break
                    if (j, dv[2]) in jit:
                        ok = False
                        break
                    jit[(j, dv[2])] = dv[3]
                elif dv[0] in ("del3", "ins3"):
                    i = dv[1] - lo
                    if i < 0 or i >= len(blocks):
                        ok = False
                        break
                    ln = blocks[i][1] - blocks[i][0] + 1
                    if ln < 70:
                        ok = False
                        break
                    edits.append([i, ln // 2, "D" if dv[0] == "del3" else "I", 3])
            if not ok:
                continue
            for (j, side), sh in jit.items():
                if side == "donor":
                    blocks[j][1] += sh
                else:
                    blocks[j + 1][0] += sh
            if any(b[1] - b[0] < 14 for b in blocks):
                continue
            if len(set(i for i, _, _, _ in edits)) != len(edits):
                continue
            extras = {"edits": edits} if edits else {}
            at_3prime = ("rtrunc" not in offs and hi == n - 1) if strand == "+" else ("ltrunc" not in offs and lo == 0)
            if ("polya",) in devs:
                if not at_3prime:
                    continue
                if strand == "+":
                    extras["clip_right"] = "A" * 30
                else:
                    extras["clip_left"] = "T" * 30
            tail_block = None
            if ("polya-aligned",) in devs:
                if not at_3prime or ("polya",) in devs or ("flip",) in devs:
                    continue
                if strand == "+":
                    tail_block = ("right", [blocks[-1][1] + 376, blocks[-1][1] + 400], "A" * 25)
                    extras["clip_right"] = "A" * 10
                else:
                    if blocks[0][0] - 400 < 1:
                        continue
                    tail_block = ("left", [blocks[0][0] - 400, blocks[0][0] - 376], "T" * 25)
                    extras["clip_left"] = "T" * 10
                extras["tail_block"] = tail_block
            rev = (strand == "-")
            if ("flip",) in devs:
                rev = not rev
                if ("polya",) in devs:
                    continue           # a tail on the wrong side is not a documented tolerance
            extras["reverse"] = rev
            key = (tuple(map(tuple, blocks)), tuple(map(tuple, edits)), extras.get("clip_right"), extras.get("clip_left"), rev, str(tail_block))
            if key in seen:
                continue
            seen.add(key)
            full_length = (lo == 0 and hi == n - 1)
            untruncated = "ltrunc" not in offs and "rtrunc" not in offs
            out.append({"blocks": [tuple(b) for b in blocks], "extras": extras, "devs": devs, "T": tid, "chr": chrom,
                        "full_length": full_length and n > 1, "untruncated": untruncated})
    return out


def negative_reads(tid, chrom, strand, exons, delta=0):
    n = len(exons)
    out = []
    if n >= 3:
        out.append(("skip", [exons[0]] + list(exons[2:])))                                   # exon skipped
    if n >= 2:
        g0, g1 = exons[0][1] + 1, exons[1][0] - 1
        mid = (g0 + g1) // 2
        out.append(("novel-exon", [exons[0], (mid - 60, mid + 60)] + list(exons[1:])))           # novel exon in an intron
        out.append(("retention", [(exons[0][0], exons[1][1])] + list(exons[2:])))                # intron retained
        out.append(("far-site", [(exons[0][0], exons[0][1] - 90)] + list(exons[1:])))            # donor moved 90 bp
        # the first intron moved as a whole (same length, both sites 120 bp away: twice the largest intron-shift tolerance), either way
        if exons[0][1] - exons[0][0] >= 170 and exons[1][1] - exons[1][0] >= 170 and g1 - g0 >= 170:
            out.append(("intron-moved-down", [(exons[0][0], exons[0][1] + 120), (exons[1][0] + 120, exons[1][1])] + list(exons[2:])))
            out.append(("intron-moved-up", [(exons[0][0], exons[0][1] - 120), (exons[1][0] - 120, exons[1][1])] + list(exons[2:])))
        out.append(("extended", [(exons[0][0] - 450, exons[0][1])] + list(exons[1:])))           # left end extended by 450 bp
        out.append(("extended-right", list(exons[:-1]) + [(exons[-1][0], exons[-1][1] + 450)]))   # right end extended by 450 bp
    if n >= 2:
        # two extra exons beyond the annotated end (start): a 150-bp exon and a 30-bp outermost one - the short outermost exon may be an
        # alignment artefact, the 150-bp exon behind it is an extra exon all the same
        e = exons[-1][1]
        out.append(("two-extra-exons-right", list(exons) + [(e + 201, e + 350), (e + 551, e + 580)]))
        b = exons[0][0]
        out.append(("two-extra-exons-left", [(b - 580, b - 551), (b - 350, b - 201)] + list(exons)))
    if n >= 3:
        # the last exon replaced by a block of the SAME length 500 bp further downstream (acceptor and end both 500 bp away): IsoQuant's
        # terminal-exon-misalignment heuristic compares exon lengths only
        out.append(("alt-terminal-same-length", list(exons[:-1]) + [(exons[-1][0] + 500, exons[-1][1] + 500)]))
    res = [{"blocks": [tuple(b) for b in bl], "extras": {"reverse": strand == "-"}, "kind": kind, "T": tid, "chr": chrom} for kind, bl in out
           if all(b[0] >= 1 for b in bl)]
    # the same distant ends on reads that carry a polyA tail / polyT head (the tail must not make a distant end acceptable)
    for kind, bl in out:
        if kind in ("extended", "extended-right") and all(b[0] >= 1 for b in bl):
            ex = {"reverse": strand == "-"}
            if strand == "+":
                ex["clip_right"] = "A" * 30
            else:
                ex["clip_left"] = "T" * 30
            res.append({"blocks": [tuple(b) for b in bl], "extras": ex, "kind": kind + "+tail", "T": tid, "chr": chrom})
    # the same structural changes on reads that additionally carry ONE tolerated deviation (a terminal exon overhanging the
    # annotated end by 25 bp, a 15-bp truncation, splice-site jitter / a whole-intron shift within delta on an annotated intron):
    # a tolerated deviation next to a contradiction must not turn the read into a consistent one
    annotated = set(introns_of(exons))
    for kind, bl in out:
        if kind.startswith("extended"):
            continue
        mods = [("overhang-left", 0, 0, -25), ("overhang-right", -1, 1, 25), ("trunc-left", 0, 0, 15), ("trunc-right", -1, 1, -15)]
        for mname, bi, side, off in mods:
            b2 = [list(b) for b in bl]
            b2[bi][side] += off
            if b2[bi][1] - b2[bi][0] < 30 or b2[0][0] < 1:
                continue
            res.append({"blocks": [tuple(b) for b in b2], "extras": {"reverse": strand == "-"}, "kind": kind + "+" + mname, "T": tid, "chr": chrom})
        if delta > 0 and len(bl) >= 3:
            last = (bl[-2][1] + 1, bl[-1][0] - 1)
            if last in annotated:
                for mname, d0, d1 in (("jitter", delta, 0), ("intron-shift", delta, delta), ("intron-shift-", -delta, -delta)):
                    b2 = [list(b) for b in bl]
                    b2[-2][1] += d0
                    b2[-1][0] += d1
                    res.append({"blocks": [tuple(b) for b in b2], "extras": {"reverse": strand == "-"}, "kind": kind + "+" + mname, "T": tid, "chr": chrom})
    return res


# ------------------------------------------------------------------------------------------------ reference model
def compat(blocks, iso_exons, delta, margin=0):
    """structural compatibility of a read (blocks) with an isoform (exons): intron chain of the read is a contiguous sub-chain
    of the isoform's (within delta), terminal blocks stay inside the corresponding exons (within delta+margin)"""
    ri = introns_of(blocks)
    ii = introns_of(iso_exons)
    tol = delta + margin
    if not ri:
        b = blocks[0]
        return any(e[0] - tol <= b[0] and b[1] <= e[1] + tol for e in iso_exons)
    for start in range(0, len(ii) - len(ri) + 1):
        if all(abs(ri[k][0] - ii[start + k][0]) <= delta and abs(ri[k][1] - ii[start + k][1]) <= delta for k in range(len(ri))):
            first_exon = iso_exons[start]
            last_exon = iso_exons[start + len(ri)]
            if blocks[0][0] >= first_exon[0] - tol and blocks[-1][1] <= last_exon[1] + tol:
                return True
    return False


def site_distance(blocks, iso_exons, delta):
    """total splice-site distance of the best placement of the read's intron chain on the isoform's (None if incompatible)"""
    ri = introns_of(blocks)
    ii = introns_of(iso_exons)
    best = None
    for start in range(0, len(ii) - len(ri) + 1):
        if all(abs(ri[k][0] - ii[start + k][0]) <= delta and abs(ri[k][1] - ii[start + k][1]) <= delta for k in range(len(ri))):
            dist = sum(abs(ri[k][0] - ii[start + k][0]) + abs(ri[k][1] - ii[start + k][1]) for k in range(len(ri)))
            best = dist if best is None else min(best, dist)
    return best


def far_from_all(blocks, iso_table, chrom, delta):
    """negative reads must be incompatible with every isoform even under a generous margin"""
    for tid, (c, s, ex, g) in iso_table.items():
        if c != chrom:
            continue
        if compat(blocks, ex, 12, margin=60):
            return False
    return True


# ------------------------------------------------------------------------------------------------ execution
def case(args):
    name, w, iso, meta, preset, d, scratch = args
    from vlib import syn, run, worlds as W
    delta = PRESETS[preset]
    reads = []
    info = {}
    k = 0
    for tid, (chrom, strand, ex, g) in iso.items():
        if (tid not in meta["reads_for"]) if "reads_for" in meta else (g != "G1"):
            continue
        for r in derive_reads(tid, chrom, strand, ex, delta, d):
            nm = "p%d" % k
            k += 1
            rd = dict({"name": nm, "chr": chrom, "blocks": [list(b) for b in r["blocks"]]}, **{kk: v for kk, v in r["extras"].items() if kk != "tail_block"})
            tb = r["extras"].get("tail_block")
            if tb:
                # the aligned part of the tail is a block of its own (IsoQuant trims it); edits refer to block indices: shift them
                if tb[0] == "right":
                    rd["blocks"].append(list(tb[1]))
                    rd["block_seq"] = {len(rd["blocks"]) - 1: tb[2]}
                else:
                    rd["blocks"].insert(0, list(tb[1]))
                    rd["block_seq"] = {0: tb[2]}
                    if rd.get("edits"):
                        rd["edits"] = [[e[0] + 1] + list(e[1:]) for e in rd["edits"]]
            reads.append(rd)
            info[nm] = r
        # (the generic negative reads are not derived from the annotations with a 30-bp / 60-bp exon - the menu assumes exons of 200+ bases; skipping an exon that short is one of
        # IsoQuant's tolerated misalignments, not a structural change beyond the tolerances)
        for r in (negative_reads(tid, chrom, strand, ex, delta) if not (meta.get("apa") or meta.get("arich")) else []):
            if not far_from_all(r["blocks"], iso, chrom, delta):
                continue
            nm = "n%d" % k
            k += 1
            reads.append(dict({"name": nm, "chr": chrom, "blocks": [list(b) for b in r["blocks"]]}, **r["extras"]))
            info[nm] = r
    if meta.get("apa"):
        chrom, strand, ex, g = iso["T1"]
        r = {"blocks": [tuple(b) for b in (ex[:-2] if strand == "+" else ex[2:])], "kind": "polya-two-exons-before-the-end", "T": "T1", "chr": chrom,
             "extras": dict({"reverse": strand == "-"}, **({"clip_right": "A" * 30} if strand == "+" else {"clip_left": "T" * 30}))}
        nm = "n%d" % k
        k += 1
        reads.append(dict({"name": nm, "chr": chrom, "blocks": [list(b) for b in r["blocks"]]}, **r["extras"]))
        info[nm] = r
    w = dict(w, reads=reads)
    syn.plant_for_transcripts(w)
    dd = os.path.join(scratch, "c01_%s_%s" % (name, preset))
    shutil.rmtree(dd, ignore_errors=True)
    paths = syn.materialise(w, dd)
    out = os.path.join(dd, "out")
    rc = run.run_isoquant(run.base_argv(paths, out, extra=["--no_model_construction"] + PRESET_OPTS.get(preset, ["--matching_strategy", preset])),
                          paths["home"], os.path.join(dd, "o.txt"))
    errs = []
    npos = nneg = 0
    if rc != 0:
        errs.append(("run-failed", "exit %d: %s" % (rc, open(os.path.join(dd, "o.txt")).read()[-300:]), None))
        shutil.rmtree(dd, ignore_errors=True)
        return name, preset, errs, 0, 0, 0
    rows = run.parse_assignments(run.find(out, "OUT", ".read_assignments.tsv"))
    by = {}
    for r in rows:
        by.setdefault(r["read_id"], []).append(r)
    nontriv = 0
    for nm, r in info.items():
        rr = by.get(nm)
        if not rr:
            errs.append(("read-missing", "read %s (%s) not reported" % (nm, r.get("devs", r.get("kind"))), nm))
            continue
        types = set(x["assignment_type"] for x in rr)
        reported = set(x["isoform_id"] for x in rr if x["isoform_id"] != ".")
        atype = next(iter(types))
        if nm.startswith("n"):
            nneg += 1
            if atype in CONSISTENT:
                errs.append(("negative-consistent:" + r["kind"].split("+")[0] + ("+tolerated" if "+" in r["kind"] and not r["kind"].endswith("+tail") else ""), "read with %s vs %s (blocks %s) reported %s to %s" %
                             (r["kind"], r["T"], r["blocks"], atype, sorted(reported)), nm))
            continue
        npos += 1
        comp = set(t for t, (c, s, ex, g) in iso.items() if c == r["chr"] and compat(r["blocks"], ex, delta))
        if len(comp) > 1:
            nontriv += 1
        kinds = "+".join(sorted(set(x[0] for x in r["devs"]))) or "exact"
        if r["T"] not in comp:
            raise core.HarnessError("reference model says derived read %s %s is not compatible with its own isoform" % (nm, r))
        if atype not in CONSISTENT:
            at_run = meta.get("arun") is not None and meta["arun"] in (r["blocks"][-1][1], r["blocks"][0][0])
            errs.append(("positive-inconsistent:" + kinds + (":ends-at-genomic-a-run" if at_run else "") + (":a-rich-short-terminal-exon" if meta.get("arich") else ""), "read derived from %s by %s (blocks %s) is reported %s (%s)" %
                         (r["T"], list(r["devs"]), r["blocks"], atype, rr[0]["assignment_events"]), nm))
            continue
        if not reported <= comp:
            errs.append(("reported-incompatible:" + kinds, "read derived from %s by %s (blocks %s): reported %s, structurally compatible only %s" %
                         (r["T"], list(r["devs"]), r["blocks"], sorted(reported), sorted(comp)), nm))
        # when another compatible isoform has splice sites at least as close to the read as T's (alternative sites a few bases
        # apart), the read follows that isoform just as well: which of them is 'T' is then not defined by the statement
        dT = site_distance(r["blocks"], iso[r["T"]][2], delta)
        # competitors are the isoforms the read is full-length for as well (same number of introns); an isoform that merely contains
        # the read's chain (the read is a truncated copy of it) does not make T optional
        nint = len(r["blocks"]) - 1

        def not_a_competitor(t):
            dt = site_distance(r["blocks"], iso[t][2], delta) or 0
            return dt > dT or (dt == dT and len(iso[t][2]) - 1 != nint)
        closest = all(t == r["T"] or not_a_competitor(t) for t in comp) if dT is not None else False
        if r["full_length"] and r["untruncated"] and closest and r["T"] not in reported:
            errs.append(("full-length-misses-T:" + kinds, "full-length read of %s (%s) reported %s to %s" %
                         (r["T"], list(r["devs"]), atype, sorted(reported)), nm))
        if comp == {r["T"]} and (reported != {r["T"]} or atype == "ambiguous"):
            errs.append(("not-unique:" + kinds, "read of %s (%s): only %s is compatible but reported %s %s" %
                         (r["T"], list(r["devs"]), r["T"], atype, sorted(reported)), nm))
    shutil.rmtree(dd, ignore_errors=True)
    return name, preset, errs, npos, nneg, nontriv


def run(ctx):
    quick = ctx.tier == "quick"
    anns = annotations(ctx.tier)
    d = 1 if quick else 2
    jobs = []
    for name, w, iso, meta in anns:
        for preset in PRESETS:
            jobs.append((name, w, iso, meta, preset, d, ctx.scratch))
    ctx.rng.shuffle(jobs)
    ctx.note("%d annotations x %d presets = %d pipeline runs, read deviations <= %d" % (len(anns), len(PRESETS), len(jobs), d))
    tp = tn = nt = 0
    metas = {a[0]: a[3] for a in anns}
    for name, preset, errs, npos, nneg, nontriv in core.pmap(case, jobs):
        tp += npos
        tn += nneg
        nt += nontriv
        for key, msg, nm in errs:
            ctx.violation("%s:%s" % (key, preset), "annotation %s %s preset %s: %s" % (name, metas[name], preset, msg),
                          {"annotation": name, "meta": metas[name], "preset": preset, "read": nm})
    ctx.note("positive reads checked: %d (%d with >=2 compatible isoforms), negative reads: %d" % (tp, nt, tn))
    ctx.coverage.update({
        "evaluations": tp + tn, "distinct_nontrivial": nt + tn,
        "rule": "case = (annotation, preset, read derived from an isoform by <=%d deviations or a negative read); reads are de-duplicated by "
                "alignment; non-trivial = positive read compatible with >=2 isoforms, or negative read" % d,
        "exhaustive": True, "annotations": len(anns), "pipeline_runs": len(jobs), "positive_reads": tp, "negative_reads": tn,
        "samples": [{"annotation": anns[1][3], "read": "exact copy of T1 with polyA"}],
    })
    ctx.assumptions += [
        "lattice: exons of 200+50*i bp (lengths differ by > 2*delta), introns >= 350 bp, alternative boundaries >=100 bp apart: no boundary falls into the band between delta and the "
        "minor/major extension thresholds",
        "truncated reads keep >=15 bp of the terminal exon; indels are 3 bp in the middle of an exon; jitter is +-1 or +-delta of the preset",
        "T must be among the reported isoforms only for reads that are not truncated (a truncated read may legitimately be resolved towards an "
        "isoform with closer ends)",
        "negative reads are kept only if the reference model finds them incompatible with every isoform at delta 12 plus a 60-bp margin",
    ]


def replay(ctx, case_):
    return "re-run ./check C01 (deterministic); annotation %s preset %s read %s" % (case_.get("annotation"), case_.get("preset"), case_.get("read"))
