"""C16 — alignment records become exon blocks exactly as SAM semantics dictate.

A. every spec-valid CIGAR of <=k core operations (x clipping frames x single length deviations) through the real
   get_read_blocks and AlignmentInfo, against an independent SAM walker which is itself cross-checked against pysam.
B. exon lists x every internal/external polyA / polyT position through the real PolyAFixer / shift_* /
   AlignmentInfo.add_polya_info (finder stubbed to return the enumerated PolyAInfo).
C. the real PolyAFinder on structured sequences (runs of A/T/C of menu lengths) over multi-exon CIGARs with tiny
   exons, fed into the real fixer: decides by execution whether the detector can emit a position pair that breaks
   the trimming.
"""
import itertools
from types import SimpleNamespace

from vlib import core

LEVEL = "exploration"

M, I, D, N, S, H, P, EQ, X = 0, 1, 2, 3, 4, 5, 6, 7, 8
CORE = (M, EQ, X, I, D, N)
CANON = {M: 3, EQ: 3, X: 3, I: 1, D: 2, N: 5, S: 2, H: 1}
OPC = "MIDNSHP=X"


def cigar_str(t):
    return "".join("%d%s" % (l, OPC[o]) for o, l in t)


# ------------------------------------------------------------------------------------------- independent SAM walker
def sam_walk(ref_start0, cig):
    """returns (exons 1-based closed, read blocks 0-based closed, cigar index blocks) for segments delimited by N
    (and by clipping) that contain at least one aligned base"""
    ref = ref_start0          # 0-based position of next reference base
    q = 0                     # 0-based position of next query base (soft clips consume query; hard clips do not)
    segs = []
    cur = None                # [ref_first0, q_first, idx_first, has_aligned]

    def close(idx_last):
        nonlocal cur
        if cur is not None and cur[3]:
            segs.append(((cur[0] + 1, ref), (cur[1], q - 1), (cur[2], idx_last)))
        cur = None

    for idx, (op, ln) in enumerate(cig):
        if op in (M, EQ, X, I, D):
            if cur is None:
                cur = [ref, q, idx, False]
            if op in (M, EQ, X):
                ref += ln
                q += ln
                cur[3] = True
            elif op == I:
                q += ln
            else:
                ref += ln
        elif op == N:
            close(idx - 1)
            ref += ln
        elif op == S:
            close(idx - 1)
            q += ln
        elif op in (H, P):
            pass
    close(len(cig) - 1)
    return [s[0] for s in segs], [s[1] for s in segs], [s[2] for s in segs]


def valid_domain(core_ops):
    """every N-delimited segment that has operations contains an aligned base (M/=/X)"""
    seg = []
    segs = []
    for op in core_ops:
        if op == N:
            segs.append(seg)
            seg = []
        else:
            seg.append(op)
    segs.append(seg)
    for s in segs:
        if s and not any(o in (M, EQ, X) for o in s):
            return False
    return any(o in (M, EQ, X) for o in core_ops)


FRAMES_L = ((), ((S, 2),), ((H, 1),), ((H, 1), (S, 2)))
FRAMES_R = ((), ((S, 2),), ((H, 1),), ((S, 2), (H, 1)))


def core_sequences(k):
    for n in range(1, k + 1):
        for seq in itertools.product(CORE, repeat=n):
            if any(seq[i] == seq[i + 1] for i in range(n - 1)):
                continue
            if not valid_domain(seq):
                continue
            yield seq


def variants(seq, with_dev):
    base = [(o, CANON[o]) for o in seq]
    yield base
    if with_dev:
        for i in range(len(seq)):
            for ln in (1, 4):
                if ln != base[i][1]:
                    v = list(base)
                    v[i] = (seq[i], ln)
                    yield v


def check_cigars(args):
    seqs, with_dev, use_pysam = args
    import pysam
    from src.common import get_read_blocks, concat_gapless_blocks, correct_bam_coords
    from src.alignment_info import AlignmentInfo
    n = 0
    nontriv = 0
    npysam = 0
    bad = []
    for seq in seqs:
        for corev in variants(seq, with_dev):
            for fl in FRAMES_L:
                for fr in FRAMES_R:
                    cig = list(fl) + corev + list(fr)
                    for ref_start in (0, 7):
                        n += 1
                        exp = sam_walk(ref_start, cig)
                        if len(exp[0]) >= 2:
                            nontriv += 1
                        try:
                            got = get_read_blocks(ref_start, cig)
                        except Exception as e:  # noqa
                            bad.append(("get_read_blocks", cigar_str(cig), ref_start, "EXC " + repr(e), repr(exp)))
                            continue
                        if tuple(map(list, got)) != tuple(map(list, exp)):
                            bad.append(("get_read_blocks", cigar_str(cig), ref_start, repr(got), repr(exp)))
                            continue
                    if not use_pysam:
                        continue
                    # real pysam record through AlignmentInfo + cross-check of the walker against pysam
                    a = pysam.AlignedSegment()
                    a.query_name = "r"
                    qlen = sum(l for o, l in cig if o in (M, EQ, X, I, S))
                    a.query_sequence = "C" * qlen
                    a.flag = 0
                    a.reference_id = 0
                    a.reference_start = 7
                    a.mapping_quality = 60
                    try:
                        a.cigartuples = cig
                    except Exception:
                        continue
                    if a.cigartuples != cig:
                        continue
                    npysam += 1
                    exp = sam_walk(7, cig)
                    # pysam cross-check (validates the reference walker, not IsoQuant)
                    blocks = a.get_blocks()
                    covered = set()
                    for s, e in blocks:
                        covered.update(range(s + 1, e + 1))
                    mine = set()
                    for s, e in exp[0]:
                        mine.update(range(s, e + 1))
                    dels = set()
                    r = 7
                    for o, l in cig:
                        if o == D:
                            dels.update(range(r + 1, r + l + 1))
                        if o in (M, EQ, X, D, N):
                            r += l
                    if not covered <= mine or (mine - covered) - dels:
                        raise core.HarnessError("reference walker disagrees with pysam on %s: %s vs %s" %
                                                (cigar_str(cig), sorted(mine), sorted(covered)))
                    # the second CIGAR walker named by the property: gapless blocks of pysam joined over insertions and deletions
                    try:
                        got2 = [tuple(x) for x in correct_bam_coords(concat_gapless_blocks(blocks, cig))]
                    except Exception as e:  # noqa
                        got2 = "EXC " + repr(e)
                    if got2 != [tuple(x) for x in exp[0]]:
                        bad.append(("concat_gapless_blocks", cigar_str(cig), 7, repr(got2), repr(exp[0])))
                    ai = AlignmentInfo(a)
                    if list(ai.read_exons) != exp[0] or list(ai.read_blocks) != exp[1]:
                        bad.append(("AlignmentInfo", cigar_str(cig), 7, repr((ai.read_exons, ai.read_blocks)), repr(exp[:2])))
    return n, nontriv, npysam, bad[:20]


# ------------------------------------------------------------------------------------------- B: polyA trimming, free enumeration
class StubFinder:
    def __init__(self, info):
        self.info = info

    def detect_polya(self, alignment):
        return self.info


def exon_lists_grid():
    """exon lists with 2..4 exons; lengths from {2,4,9}, introns of 3"""
    out = []
    for k in (1, 2, 3, 4):
        for lens in itertools.product((2, 4, 9), repeat=k):
            p = 5
            ex = []
            for ln in lens:
                ex.append((p, p + ln - 1))
                p += ln + 3
            out.append(ex)
    return out


def removed_before(orig, removed, p):
    return sum(1 for a, b in removed for x in range(a, b + 1) if x < p)


def removed_after(orig, removed, p):
    return sum(1 for a, b in removed for x in range(a, b + 1) if x > p)


def trimming_oracle(orig, ai, info0, strict_internal=True):
    """returns error string or None. info0 = original (ext_a, ext_t, int_a, int_t)"""
    ex = list(ai.read_exons)
    if not ex:
        return "empty exon list"
    if any(ex[i][1] >= ex[i + 1][0] for i in range(len(ex) - 1)) or any(a > b for a, b in ex):
        return "unordered exon list %s" % ex
    # contiguous slice of the original
    try:
        i0 = orig.index(ex[0])
    except ValueError:
        return "exons %s are not a slice of %s" % (ex, orig)
    if orig[i0:i0 + len(ex)] != ex:
        return "exons %s are not a slice of %s" % (ex, orig)
    if not (len(ai.read_blocks) == len(ai.cigar_blocks) == len(ex)):
        return "read_blocks/cigar_blocks not trimmed consistently"
    if (ai.read_start, ai.read_end) != (ex[0][0], ex[-1][1]):
        return "read_start/read_end stale"
    rem_right = orig[i0 + len(ex):]
    rem_left = orig[:i0]
    pi = ai.polya_info
    tot_r = sum(b - a + 1 for a, b in rem_right)
    tot_l = sum(b - a + 1 for a, b in rem_left)
    if rem_right:
        for name, old, new, strict in (("internal_polya_pos", info0[2], pi.internal_polya_pos, strict_internal),
                                       ("external_polya_pos", info0[0], pi.external_polya_pos, False)):
            if old == -1:
                if new != -1:
                    return "%s invented" % name
                continue
            if strict:
                exp = ex[-1][1] + removed_before(orig, rem_right, old)
                if new != exp:
                    return "%s moved to %d, expected %d (retained exon end + transcript offset)" % (name, new, exp)
            elif not (ex[-1][0] <= new <= ex[-1][1] + tot_r + 40):
                return "%s moved to %d, not on/after retained exon %s" % (name, new, ex[-1])
            elif name == "external_polya_pos" and old > orig[-1][1]:
                # a tail found in the soft clip keeps its distance (in read bases) from the retained exon: the removed exon bases
                # plus its offset into the clip
                exp = ex[-1][1] + tot_r + (old - orig[-1][1] - 1)
                if new != exp:
                    return "%s in the soft clip moved to %d, expected %d (retained end + removed bases + offset into the clip)" % (name, new, exp)
    if rem_left:
        for name, old, new, strict in (("internal_polyt_pos", info0[3], pi.internal_polyt_pos, strict_internal),
                                       ("external_polyt_pos", info0[1], pi.external_polyt_pos, False)):
            if old == -1:
                if new != -1:
                    return "%s invented" % name
                continue
            if strict:
                exp = ex[0][0] - removed_after(orig, rem_left, old)
                if new != exp:
                    return "%s moved to %d, expected %d (retained exon start - transcript offset)" % (name, new, exp)
            elif not (ex[0][0] - tot_l - 40 <= new <= ex[0][1]):
                return "%s moved to %d, not on/before retained exon %s" % (name, new, ex[0])
            elif name == "external_polyt_pos" and old < orig[0][0]:
                exp = ex[0][0] - tot_l - (orig[0][0] - old - 1)
                if new != exp:
                    return "%s in the soft clip moved to %d, expected %d (retained start - removed bases - offset into the clip)" % (name, new, exp)
    return None


class FakeAlignment:
    def __init__(self, exons):
        self.reference_start = exons[0][0] - 1
        cig = []
        for i, (a, b) in enumerate(exons):
            if i:
                cig.append((N, a - exons[i - 1][1] - 1))
            cig.append((M, b - a + 1))
        self.cigartuples = cig


def check_trim_free(exon_lists):
    from src.alignment_info import AlignmentInfo
    from src.polya_verification import PolyAFixer
    from src.polya_finder import PolyAInfo
    n = 0
    nontriv = 0
    bad = []
    for max_fake in (3, 40):
        fixer = PolyAFixer(SimpleNamespace(max_fake_terminal_exon_len=max_fake))
        for ex in exon_lists:
            positions = [-1] + sorted(set(x for a, b in ex for x in range(a, b + 1)))
            last_end, first_start = ex[-1][1], ex[0][0]
            for ia in positions:
                for it in positions:
                    if ia != -1 and it != -1 and not it < ia:
                        continue
                    for ea in sorted({-1, ia, last_end - 1, last_end, last_end + 3}):
                        for et in sorted({-1, it, first_start + 1, first_start, max(1, first_start - 3)}):
                            As = [x for x in (ia, ea) if x != -1]
                            Ts = [x for x in (it, et) if x != -1]
                            if As and Ts and not max(Ts) < min(As):
                                continue
                            n += 1
                            ai = AlignmentInfo(FakeAlignment(ex))
                            assert list(ai.read_exons) == ex
                            info = PolyAInfo(ea, et, ia, it)
                            try:
                                ai.add_polya_info(StubFinder(info), fixer)
                            except Exception as e:  # noqa
                                bad.append((ex, [ea, et, ia, it], max_fake, "EXC " + repr(e)))
                                continue
                            if len(ai.read_exons) != len(ex):
                                nontriv += 1
                            err = trimming_oracle(ex, ai, (ea, et, ia, it))
                            if err:
                                bad.append((ex, [ea, et, ia, it], max_fake, err))
    return n, nontriv, bad[:20]


# ------------------------------------------------------------------------------------------- C: real finder on structured reads
def seg_seq(kind, ln):
    if kind == "C":
        return "C" * ln
    if kind == "A":
        return "A" * ln
    if kind == "T":
        return "T" * ln
    if kind == "AT":       # A run with a two-base island of T
        h = ln // 2
        return ("A" * h + "TT" + "A" * ln)[:ln]
    if kind == "TA":
        h = ln // 2
        return ("T" * h + "AA" + "T" * ln)[:ln]
    if kind == "T+A":      # T run then A run
        return "T" * (ln // 2) + "A" * (ln - ln // 2)
    if kind == "A+T":
        return "A" * (ln // 2) + "T" * (ln - ln // 2)
    if kind == "C+A":
        return "C" * (ln // 2) + "A" * (ln - ln // 2)
    if kind == "T+C":
        return "T" * (ln // 2) + "C" * (ln - ln // 2)
    if kind == "Ca":       # mostly transcript, a few A at the end (a tail that begins near the end of the exon)
        return "C" * (ln - ln // 6) + "A" * (ln // 6)
    if kind == "tC":
        return "T" * (ln // 6) + "C" * (ln - ln // 6)
    raise ValueError(kind)


def structured_reads(tier):
    lens = (3, 12, 33) if tier == "quick" else (3, 8, 12, 16, 33, 40)
    kinds = ("C", "A", "T", "T+A", "C+A", "T+C", "Ca", "tC") if tier == "quick" else ("C", "A", "T", "AT", "TA", "T+A", "A+T", "C+A", "T+C", "Ca", "tC")
    clips = (("", 0), ("A", 20), ("T", 20)) if tier == "quick" else (("", 0), ("A", 20), ("T", 20), ("C", 20), ("A", 8))
    intron = 50
    for nex in (2, 3):
        for el in itertools.product(lens, repeat=nex):
            if tier == "thorough" and nex == 3 and sum(1 for x in el if x in (8, 16, 40)) > 1:
                continue
            for ek in itertools.product(kinds, repeat=nex):
                for (hc, hl) in clips:
                    for (tc, tl) in clips:
                        yield (el, ek, (hc, hl), (tc, tl), intron)


def build_alignment(spec, hard=(0, 0), extend=0):
    """extend: the first exon is prolonged upstream by that many C bases (all other exons keep their coordinates)"""
    import pysam
    el, ek, (hc, hl), (tc, tl), intron = spec
    cig = []
    seq = ""
    if hard[0]:
        cig.append((H, hard[0]))
    if hl:
        cig.append((S, hl))
        seq += hc * hl
    exons = []
    p = 1000
    for i, (ln, kd) in enumerate(zip(el, ek)):
        if i:
            cig.append((N, intron))
            p += intron
        cig.append((M, ln + (extend if i == 0 else 0)))
        seq += ("C" * extend if i == 0 else "") + seg_seq(kd, ln)
        exons.append((p + 1 - (extend if i == 0 else 0), p + ln))
        p += ln
    if tl:
        cig.append((S, tl))
        seq += tc * tl
    if hard[1]:
        cig.append((H, hard[1]))
    a = pysam.AlignedSegment()
    a.query_name = "r"
    a.query_sequence = seq
    a.flag = 0
    a.reference_id = 0
    a.reference_start = 1000 - extend
    a.mapping_quality = 60
    a.cigartuples = cig
    return a, exons


def check_trim_real(specs):
    from src.alignment_info import AlignmentInfo
    from src.polya_verification import PolyAFixer
    from src.polya_finder import PolyAFinder
    n = 0
    nontriv = 0
    bad = []
    finder = PolyAFinder(16, 0.75)
    outcomes = set()
    for max_fake in (40, 20, 0):
        fixer = PolyAFixer(SimpleNamespace(max_fake_terminal_exon_len=max_fake))
        for spec in specs:
            n += 1
            a, exons = build_alignment(spec)
            ai = AlignmentInfo(a)
            if list(ai.read_exons) != exons:
                bad.append((spec, max_fake, "read_exons %s != %s" % (ai.read_exons, exons)))
                continue
            try:
                info = finder.detect_polya(a)
                info0 = (info.external_polya_pos, info.external_polyt_pos, info.internal_polya_pos, info.internal_polyt_pos)
                ai.add_polya_info(StubFinder(info), fixer)
            except Exception as e:  # noqa
                bad.append((spec, max_fake, "EXC " + repr(e)))
                continue
            # an aligned head / tail is accepted only when the WHOLE stretch between it and the read end is T / A rich (75 % in the code,
            # 70 % demanded here): a T-rich window behind ordinary sequence is not a polyT head
            hl_ = spec[2][1]
            seq_ = a.query_sequence
            qmap = {}
            qi = hl_
            for (s_, e_) in exons:
                for p_ in range(s_, e_ + 1):
                    qmap[p_] = qi
                    qi += 1
            for nm_, pos_, base_, head in (("internal_polyt_pos", info0[3], "T", True), ("internal_polya_pos", info0[2], "A", False)):
                if pos_ == -1 or sum(spec[0]) < 67:
                    continue          # (shorter reads: the examined stretch runs into the clip at the other end of the read)
                near = [qmap[x] for x in (pos_, pos_ + 1, pos_ + 2, pos_ - 1) if x in qmap]
                if not near:
                    continue
                stretch = seq_[max(0, hl_ - 2):near[0] + 1] if head else seq_[near[0]:len(seq_) - spec[3][1] + 2]
                if len(stretch) >= 16 and stretch.count(base_) < 0.7 * len(stretch) - 2:
                    bad.append((spec, max_fake, "%s-stretch-not-rich: position %d, the stretch between it and the read end (%d bases) holds only %d %s" %
                                (nm_, pos_, len(stretch), stretch.count(base_), base_)))
            if len(ai.read_exons) != len(exons):
                nontriv += 1
            outcomes.add((len(exons), len(ai.read_exons), tuple(x != -1 for x in info0)))
            err = trimming_oracle(exons, ai, info0, strict_internal=False)
            if err:
                bad.append((spec, max_fake, err + " polya_info(ea,et,ia,it)=%s" % (info0,)))
            # "removing terminal exons that consist of an aligned polyA/polyT tail": a removed exon lies beyond the tail position or holds
            # it - and then the transcript bases in front of the position are the smaller part of the exon (the code asks for less than
            # a third, less than half + 4 is demanded here; positions are taken with their +-1 conventions)
            kept = list(ai.read_exons)
            if len(kept) < len(exons):
                for ex_ in exons:
                    if ex_ in kept:
                        continue
                    ln_ = ex_[1] - ex_[0] + 1
                    if info0[2] != -1 and ex_[0] <= info0[2] <= ex_[1] + 1 and ex_[0] > kept[-1][1] and info0[2] - ex_[0] > ln_ // 2 + 4:
                        bad.append((spec, max_fake, "removed-exon-not-tail: terminal exon %s was removed as aligned polyA although the tail begins at "
                                    "%d: %d of its %d bases lie in front of the tail" % (ex_, info0[2], info0[2] - ex_[0], ln_)))
                    if info0[3] != -1 and ex_[0] - 1 <= info0[3] <= ex_[1] and ex_[1] < kept[0][0] and ex_[1] - info0[3] > ln_ // 2 + 4:
                        bad.append((spec, max_fake, "removed-exon-not-tail: terminal exon %s was removed as aligned polyT although the head ends at "
                                    "%d: %d of its %d bases lie behind the head" % (ex_, info0[3], ex_[1] - info0[3], ln_)))
            if max_fake == 40 and spec[2][1] == 0 and spec[1][0] not in ("A", "AT", "A+T") and sum(spec[0]) >= 17:
                # the tail detector looks at the 3' end of the read: the same read with its first exon prolonged upstream by 64 non-A
                # bases (no head clip, so that the examined stretch of a short read holds nothing else) reports the same tail positions
                # (reads that are polyA from their very first aligned base are left out: there is no base before the tail to point at;
                # so are reads whose aligned part is shorter than one 16-base window plus one base: they are never examined)
                n += 1
                try:
                    a3, _ = build_alignment(spec, extend=64)
                    res3 = (finder.find_polya_external(a3), finder.find_polya_internal(a3))
                except Exception as e:  # noqa
                    res3 = "EXC " + repr(e)
                if res3 != (info0[0], info0[2]):
                    bad.append((spec, max_fake, "upstream-extension: (external, internal) polyA positions %s, with the first exon prolonged upstream by 64 C: %s" %
                                ((info0[0], info0[2]), res3)))
            if max_fake == 40:
                # hard clips consume neither query nor reference: the same alignment written with H outside the soft clips (or
                # instead of absent clips) must give the same exons and tail positions
                res0 = (list(ai.read_exons), ai.polya_info.external_polya_pos, ai.polya_info.external_polyt_pos,
                        ai.polya_info.internal_polya_pos, ai.polya_info.internal_polyt_pos)
                for hard in ((7, 0), (0, 7), (7, 7)):
                    n += 1
                    try:
                        a2, _ = build_alignment(spec, hard)
                        ai2 = AlignmentInfo(a2)
                        ai2.add_polya_info(finder, fixer)
                        res2 = (list(ai2.read_exons), ai2.polya_info.external_polya_pos, ai2.polya_info.external_polyt_pos,
                                ai2.polya_info.internal_polya_pos, ai2.polya_info.internal_polyt_pos)
                    except Exception as e:  # noqa
                        res2 = "EXC " + repr(e)
                    if res2 != res0:
                        bad.append((spec, max_fake, "hard-clip-variant %s gives (exons, ext polyA, ext polyT, int polyA, int polyT) = %s, without hard clips %s" %
                                    (hard, res2, res0)))
                        break
    return n, nontriv, bad[:20], outcomes


# ------------------------------------------------------------------------------------------- driver
# ------------------------------------------------------------------------------------------------ D: the tail window scan
def window_scan_chunk(args):
    """PolyAFinder.find_polya against its definition - the first window (the last one excepted, as in the code) that holds at least
    polyA_count A's, moved on to the first 'AA' from there - for every string over {A, C} of the given lengths"""
    window, lengths, lo, hi = args
    from src.polya_finder import PolyAFinder
    f = PolyAFinder(window, 0.75)
    need = int(window * 0.75)
    bad = []
    n = 0
    for ln in lengths:
        for v in range(lo, min(hi, 1 << ln)):
            seq = "".join("A" if (v >> j) & 1 else "C" for j in range(ln))
            n += 1
            exp = -1
            if ln >= window:
                for i in range(0, ln - window):
                    if seq.count("A", i, i + window) >= need:
                        exp = i + max(0, seq[i:].find("AA"))
                        break
            try:
                got = f.find_polya(seq)
            except Exception as e:  # noqa
                got = "EXC " + repr(e)
            if got != exp:
                bad.append((window, seq, got, exp))
                if len(bad) > 5:
                    return n, bad
    return n, bad


def run(ctx):
    quick = ctx.tier == "quick"
    wj = [(4, list(range(0, 13 if quick else 15)), 0, 1 << 15)]
    top = 19 if quick else 22
    step = 1 << 14
    wj += [(16, [ln], lo, lo + step) for ln in range(15, top + 1) for lo in range(0, 1 << ln, step)]
    wn = 0
    for n_, bad in core.pmap(window_scan_chunk, wj, chunksize=4):
        wn += n_
        for window, seq, got, exp in bad[:2]:
            ctx.violation("window-scan:find_polya", "PolyAFinder(window %d).find_polya(%r) -> %s, definition %s" % (window, seq, got, exp),
                          {"kind": "window_scan", "window": window, "seq": seq})
    ctx.note("tail window scan: %d strings over {A, C} (window 4: every length <=%d; window 16: every length 15..%d)" % (wn, 12 if quick else 14, top))
    k = 5 if quick else 6
    seqs = list(core_sequences(k))
    short = [s for s in seqs if len(s) <= (3 if quick else 4)]
    ctx.note("core CIGAR sequences <=%d ops in domain: %d (x16 clip frames x2 ref starts); with length deviations: %d" %
             (k, len(seqs), len(short)))
    total = nontriv = npysam = 0
    jobs = [(c, False, True) for c in core.chunks(seqs, core.NCPU * 4)] + \
           [(c, True, quick is False and False) for c in core.chunks(short, core.NCPU * 2)]
    for n, nt, np_, bad in core.pmap(check_cigars, jobs):
        total += n
        nontriv += nt
        npysam += np_
        for fn, cs, rs, got, exp in bad:
            ctx.violation("cigar:%s" % fn, "%s(ref_start=%d, %s) -> %s, SAM semantics %s" % (fn, rs, cs, got, exp),
                          {"kind": "cigar", "cigar": cs, "ref_start": rs})
    ctx.note("CIGAR cases %d, through real pysam records %d" % (total, npysam))
    cigar_cases = total
    # B
    el = exon_lists_grid()
    res = core.pmap(check_trim_free, core.chunks(el, core.NCPU * 2))
    bcases = 0
    for n, nt, bad in res:
        total += n
        bcases += n
        nontriv += nt
        for ex, info, mf, err in bad:
            ctx.violation("trim-free:" + err.split(" ")[0], "exons %s polyA info (ext_a,ext_t,int_a,int_t)=%s max_fake=%d: %s" %
                          (ex, info, mf, err), {"kind": "trim_free", "exons": ex, "info": info, "max_fake": mf})
    ctx.note("free polyA/polyT trimming cases: %d" % bcases)
    # C
    specs = list(structured_reads(ctx.tier))
    ctx.rng.shuffle(specs)
    res = core.pmap(check_trim_real, core.chunks(specs, core.NCPU * 4))
    ccases = 0
    outcomes = set()
    for n, nt, bad, oc in res:
        total += n
        ccases += n
        nontriv += nt
        outcomes |= oc
        for spec, mf, err in bad:
            ctx.violation("trim-real:" + err.split(" ")[0], "structured read %s max_fake=%d: %s" % (spec, mf, err),
                          {"kind": "trim_real", "spec": spec, "max_fake": mf})
    ctx.note("real-finder structured reads: %d cases, %d distinct (exons before, after, tails found) outcomes" %
             (ccases, len(outcomes)))
    ctx.coverage.update({
        "evaluations": total,
        "distinct_nontrivial": nontriv,
        "rule": "cases are distinct by construction (CIGAR string x ref start; exon list x polyA tuple; read spec x max_fake). "
                "non-trivial = CIGAR yielding >=2 exons, or a trimming case in which at least one terminal exon was removed",
        "exhaustive": True,
        "bounds": {"core_ops": k, "clip_frames": 16, "length_deviation_ops<=": len(short[-1]) if short else 0,
                   "trim_exon_lists": len(el), "structured_reads": len(specs)},
        "cigar_cases": cigar_cases, "cigars_via_pysam": npysam, "trim_free_cases": bcases, "trim_real_cases": ccases,
        "distinct_outcomes_real_finder": len(outcomes),
        "samples": [cigar_str(list(FRAMES_L[3]) + [(o, CANON[o]) for o in seqs[len(seqs) // 2]] + list(FRAMES_R[1])),
                    {"exons": el[len(el) // 2]}, {"structured_read": specs[0]}],
    })
    ctx.assumptions += [
        "CIGAR domain: spec-valid strings (clips only at the ends, H outside S) in which every N-delimited segment contains an aligned base",
        "free polyA enumeration restricted to polyT positions < polyA positions; whether the detector can violate that is decided by "
        "sub-space C (real PolyAFinder on structured reads), not assumed",
        "internal tail positions are required to keep their transcript offset exactly; external ones only to land on/after the retained exon",
    ]


def replay(ctx, case):
    import re
    from src.common import get_read_blocks
    if case.get("kind") == "window_scan":
        from src.polya_finder import PolyAFinder
        seq, window = case["seq"], case["window"]
        exp = -1
        for i in range(0, len(seq) - window):
            if seq.count("A", i, i + window) >= int(window * 0.75):
                exp = i + max(0, seq[i:].find("AA"))
                break
        got = PolyAFinder(window, 0.75).find_polya(seq)
        return None if got == exp else "find_polya(%r) -> %s, definition %s" % (seq, got, exp)
    if case.get("kind") == "cigar":
        cig = [(OPC.index(o), int(l)) for l, o in re.findall(r"(\d+)([MIDNSHP=X])", case["cigar"])]
        got = get_read_blocks(case["ref_start"], cig)
        exp = sam_walk(case["ref_start"], cig)
        if tuple(map(list, got)) != tuple(map(list, exp)):
            return "get_read_blocks(%d,%s) = %r, SAM semantics %r" % (case["ref_start"], case["cigar"], got, exp)
        return None
    if case.get("kind") == "trim_free":
        n, nt, bad = check_trim_free([[tuple(e) for e in case["exons"]]])
        bad = [b for b in bad if b[1] == case["info"] and b[2] == case["max_fake"]]
        return bad[0][3] if bad else None
    if case.get("kind") == "trim_real":
        sp = case["spec"]
        spec = (tuple(sp[0]), tuple(sp[1]), tuple(sp[2]), tuple(sp[3]), sp[4])
        n, nt, bad, oc = check_trim_real([spec])
        bad = [b for b in bad if b[1] == case["max_fake"]]
        return bad[0][2] if bad else None
    return None
