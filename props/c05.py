"""C05 — every aligned read is accounted for; region splitting loses or duplicates none.

L1 (function seam, scaled constants): ALL clusters of <=k alignments over a small coordinate grid through the real
    AlignmentCollector.split_coverage_regions and both alignment storages (in-memory, BAM with htslib overlap semantics).
L2 (collector seam): AlignmentCollector.process() on real BAMs at scaled constants, both memory modes.
L3 (pipeline, real constants): deep pile-ups, coverage valleys at every offset relative to a bin boundary, long sparse
    loci, short reads at region tails; with/without annotation; default and --high_memory.
Oracle: the set of input records passing the documented filters equals the set of reported records; no identical
records; log statistics equal per-flag record counts.
"""
import itertools
import os
import re
import shutil
from types import SimpleNamespace

from vlib import core

LEVEL = "exploration"


class Aln:
    __slots__ = ("reference_start", "reference_end", "idx", "query_name")

    def __init__(self, s, ln, idx):
        self.reference_start = s
        self.reference_end = s + ln
        self.idx = idx
        self.query_name = "r%d" % idx


class FakeBam:
    def __init__(self, alns):
        self.alns = alns

    def get_tid(self, chr_id):
        return 0

    def fetch(self, chr_id, start, end, multiple_iterators=False):
        # htslib: records overlapping the half-open interval [start, end)
        return iter([a for a in self.alns if a.reference_start < end and a.reference_end > start])


def clusters(k, max_start, lengths):
    """all sorted alignment lists (start, len) of size 1..k forming one cluster (each alignment overlaps the region so far)"""
    out = []

    def rec(cur, region_end, last_start):
        if cur:
            out.append(list(cur))
        if len(cur) >= k:
            return
        for s in range(last_start, max_start + 1):
            if cur and s > region_end:       # not adjacent: closed region end < start
                break
            for ln in lengths:
                cur.append((s, ln))
                rec(cur, max(region_end, s + ln - 1) if cur[:-1] else s + ln - 1, s)
                cur.pop()
    rec([], -1, 0)
    return out


def l1_chunk(args):
    cls, consts = args
    import src.alignment_processor as AP
    AP.AbstractAlignmentStorage.COVERAGE_BIN = consts["bin"]
    AP.InMemoryAlignmentStorage.COVERAGE_BIN = consts["bin"]
    AP.AlignmentCollector.MAX_REGION_LEN = consts["maxlen"]
    AP.AlignmentCollector.MIN_READS_TO_SPLIT = consts["minreads"]
    AP.AlignmentCollector.REL_COV_VALLEY = consts["valley"]
    bad = []
    n = 0
    nontriv = 0
    for cl in cls:
        n += 1
        alns = [Aln(s, ln, i) for i, (s, ln) in enumerate(cl)]
        mem = AP.InMemoryAlignmentStorage()
        for a in alns:
            if mem.alignment_is_not_adjacent(a):
                raise core.HarnessError("generated list is not one cluster: %r" % (cl,))
            mem.add_alignment(0, a)
        merger = SimpleNamespace(bam_pairs=[(FakeBam(alns), "x.bam")], chr_id="chr1")
        bam = AP.BAMAlignmentStorage(merger)
        for a in alns:
            bam.add_alignment(0, a)
        region = mem.region
        try:
            regs = AP.AlignmentCollector.split_coverage_regions(region, mem)
            regs_b = AP.AlignmentCollector.split_coverage_regions(region, bam)
        except Exception as e:  # noqa
            bad.append(("split-exception", cl, repr(e)))
            continue
        if regs != regs_b:
            bad.append(("split-differs-by-storage", cl, "%s vs %s" % (regs, regs_b)))
        if len(regs) > 1:
            nontriv += 1
        # the forwarding logic of the collector: one region -> all alignments, several -> per region fetch
        def seen_by(storage, regs):
            got = []
            if len(regs) == 1:
                return [sorted(a.idx for _, a in storage.get_alignments())]
            for r in regs:
                got.append(sorted(a.idx for _, a in storage.get_alignments(r)))
            return got
        if not regs:
            bad.append(("no-region", cl, "split_coverage_regions returned [] for region %s: every alignment of the cluster is dropped" % (region,)))
            continue
        # tiling
        ok = regs[0][0] <= region[0] and regs[-1][1] >= region[1] and all(regs[i][1] + 1 >= regs[i + 1][0] for i in range(len(regs) - 1)) \
            and all(a <= b for a, b in regs)
        if not ok:
            bad.append(("not-tiling", cl, "regions %s do not cover cluster interval %s" % (regs, region)))
        for name, st in (("memory", mem), ("bam", bam)):
            try:
                got = seen_by(st, regs)
            except Exception as e:  # noqa
                bad.append(("fetch-exception:" + name, cl, repr(e)))
                continue
            union = set(x for g in got for x in g)
            lost = set(range(len(alns))) - union
            if lost:
                bad.append(("alignment-lost:" + name, cl, "regions %s: alignments %s are in no region (%s storage)" %
                            (regs, [cl[i] for i in sorted(lost)], name)))
            for r, g in zip(regs, got):
                wrong = [i for i in g if not (alns[i].reference_start <= r[1] and alns[i].reference_end - 1 >= r[0])] if len(regs) > 1 else []
                if wrong:
                    bad.append(("foreign-alignment:" + name, cl, "region %s got non-overlapping alignments %s" % (r, [cl[i] for i in wrong])))
    return n, nontriv, bad[:30]


def l1_history_chunk(args):
    """two clusters in a row through ONE storage object (as the collector uses it: forward, reset, go on): what the storage hands out
       for the second cluster must be what a fresh storage hands out for it. The second cluster is the first argument shifted behind the
       first one by a gap of 1..bin bases, so that both can share a coverage bin"""
    pairs, consts = args
    import src.alignment_processor as AP
    AP.AbstractAlignmentStorage.COVERAGE_BIN = consts["bin"]
    AP.InMemoryAlignmentStorage.COVERAGE_BIN = consts["bin"]
    AP.AlignmentCollector.MAX_REGION_LEN = consts["maxlen"]
    AP.AlignmentCollector.MIN_READS_TO_SPLIT = consts["minreads"]
    AP.AlignmentCollector.REL_COV_VALLEY = consts["valley"]
    bad = []
    n = 0

    def handed_out(storage):
        regs = AP.AlignmentCollector.split_coverage_regions(storage.region, storage)
        if len(regs) == 1:
            return regs, [sorted(a.idx for _, a in storage.get_alignments())]
        return regs, [sorted(a.idx for _, a in storage.get_alignments(r)) for r in regs]
    for cl1, cl2, gap in pairs:
        n += 1
        end1 = max(s + ln for s, ln in cl1)
        shift = end1 + gap - cl2[0][0]
        a1 = [Aln(s, ln, i) for i, (s, ln) in enumerate(cl1)]
        a2 = [Aln(s + shift, ln, 100 + i) for i, (s, ln) in enumerate(cl2)]
        for name in ("memory", "bam"):
            def make():
                if name == "memory":
                    return AP.InMemoryAlignmentStorage()
                return AP.BAMAlignmentStorage(SimpleNamespace(bam_pairs=[(FakeBam(a1 + a2), "x.bam")], chr_id="chr1"))
            try:
                st = make()
                for a in a1:
                    st.add_alignment(0, a)
                handed_out(st)
                if not st.alignment_is_not_adjacent(a2[0]):
                    continue                      # the gap closed (0-based / 1-based conventions): one cluster, not this level's business
                st.reset()
                for a in a2:
                    st.add_alignment(0, a)
                got = handed_out(st)
                fresh = make()
                for a in a2:
                    fresh.add_alignment(0, a)
                exp = handed_out(fresh)
            except Exception as e:  # noqa
                bad.append(("history-exception:" + name, [cl1, cl2, gap], repr(e)))
                continue
            if got != exp:
                bad.append(("history-dependent:" + name, [cl1, cl2, gap], "second cluster %s after cluster %s (gap %d): regions / alignments %s, a "
                            "fresh storage gives %s" % ([(a.reference_start, a.reference_end) for a in a2], cl1, gap, got, exp)))
    return n, bad[:20]


# ------------------------------------------------------------------------------------------------ L3 pipeline
def pileup_world(kind, param, annotated):
    """real constants: COVERAGE_BIN 256, MAX_REGION_LEN 32768, MIN_READS_TO_SPLIT 1024"""
    from vlib import worlds as W, syn
    w = {"chroms": {"chr1": 90000 if kind != "spanning" else 180000, "chr2": 9000}, "genes": [], "reads": [], "sites": []}
    reads = []
    if kind == "spanning":
        # a 160-kb five-exon gene; full-length reads overlap every sub-region the locus is cut into (>=3) and must be reported once
        ex = [[5001, 5400], [45001, 45400], [85001, 85400], [125001, 125400], [165001, 165600]]
        if annotated:
            w["genes"].append({"id": "GL", "chr": "chr1", "strand": "+", "transcripts": [{"id": "TL", "exons": ex}]})
            syn.plant_for_transcripts(w)
        else:
            W.add_sites_for_blocks(w, "chr1", ex, "+")
        k = 0
        for i in range(param):
            reads.append(W.read_of("full%d" % i, "chr1", ex))
        # a deep pile on the middle exon makes the thin intronic coverage (full-length + one two-exon read) a relative valley
        for ei, depth in ((0, 30), (1, 500), (2, 500), (3, 500), (4, 30)):
            e = ex[ei]
            for i in range(depth):
                reads.append(W.read_of("mono%d" % k, "chr1", [[e[0] + 5 + (i % 40), e[1] - 5 - (i % 30)]], polya=False))
                k += 1
        for a, b in zip(ex, ex[1:]):
            reads.append(W.read_of("two%d" % k, "chr1", [a, b], polya=False))
            k += 1
    elif annotated:
        w["genes"].append({"id": "G1", "chr": "chr1", "strand": "+", "transcripts": [
            {"id": "T1", "exons": [[2001, 2400], [3001, 3400], [4001, 4600]]}]})
        w["genes"].append({"id": "G2", "chr": "chr1", "strand": "+", "transcripts": [
            {"id": "T2", "exons": [[10001, 10400], [20001, 20400], [30001, 30400], [40001, 40600]]}]})
        syn.plant_for_transcripts(w)
    n = 0

    def add(blocks, **kw):
        nonlocal n
        reads.append(W.read_of("r%d" % n, "chr1", blocks, polya=False, **kw))
        n += 1
    if kind == "single-bin-pileup":
        # >=1024 short reads strictly inside one 256-bp bin (0-based positions 2048+2 .. < 2304)
        base = 2051 + param
        for i in range(1100):
            add([[base + (i % 40), base + 100 + (i % 40)]])
    elif kind == "valley":
        # two deep piles separated by a coverage valley placed at offset 'param' relative to a bin boundary, inside a locus that is
        # longer than 32 kb (only such loci are split); a thin chain of long-intron reads keeps everything one cluster
        pos = 2001
        while pos < 2001 + 256 * 140:
            add([[pos, pos + 299], [pos + 5000, pos + 5299]])
            pos += 4900
        left_end = 2000 + 256 * 132 + param
        for i in range(600):
            add([[left_end - 400 - (i % 50), left_end - (i % 30)]])
        for i in range(600):
            add([[left_end + 300 + (i % 30), left_end + 700 + (i % 50)]])
    elif kind == "long-sparse":
        # cluster of exactly 'param' bins (> 128 bins = 32 kb) made of a chain of overlapping long-intron reads, with three short
        # reads inside the last bin (short reads at the region tail)
        start0 = 256 * 8            # 0-based start of the cluster, on a bin boundary
        end0 = start0 + 256 * param - 20   # 0-based last position of the cluster (inside the last bin)
        pos = start0 + 1
        while pos + 5300 < end0:
            add([[pos, pos + 299], [pos + 5000, pos + 5299]])
            pos += 4900
        add([[pos, pos + 299], [end0 - 150, end0 + 1]])
        for i in range(3):
            add([[end0 - 120 + 10 * i, end0 - 20 + 10 * i]])
    elif kind == "tail-short":
        # >32 kb locus with a deep pile at the beginning and short reads that start in the last bin
        start0 = 256 * 8
        pos = start0 + 1
        while pos < start0 + 256 * 131:
            add([[pos, pos + 299], [pos + 5000, pos + 5299]])
            pos += 4900
        last_end = pos - 4900 + 5299
        for i in range(1100):
            add([[start0 + 1 + (i % 100), start0 + 600 + (i % 100)]])
        for i in range(param):
            add([[last_end - 60 + i, last_end - 10 + i]])
    elif kind == "bridge-lowq":
        # the bridge world with reads of MAPQ 3 that carry TA's exons and one more exon in front of GB: inconsistent with TA and below
        # --inconsistent_mapq_cutoff (5), i.e. filtered by the documented rule. One such read: the cluster is cut between the genes and
        # the read is processed in both sub-regions; three: the valley is not a valley any more, no cut
        ea = [[5001, 5300], [6001, 6300], [7001, 7300]]
        eb = [[60001, 60300], [61001, 61300], [62001, 62300]]
        w["genes"] = [{"id": "GA", "chr": "chr1", "strand": "+", "transcripts": [{"id": "TA", "exons": ea}]},
                      {"id": "GB", "chr": "chr1", "strand": "+", "transcripts": [{"id": "TB", "exons": eb}]}]
        w["sites"] = []
        syn.plant_for_transcripts(w)
        W.add_sites_for_blocks(w, "chr1", ea + [[50001, 50300]], "+")
        W.dedup_sites(w)
        for i in range(30):
            add(ea)
            add(eb)
        for i in range(param):
            reads.append(W.read_of("lowq%d" % i, "chr1", ea + [[50001, 50300]], polya=False, mapq=3))
    elif kind == "bridge":
        # two genes 50 kb apart with 30 reads each and ONE read that carries the exons of both: the 57-kb cluster is cut at the coverage
        # valley between the genes, the bridging read is processed in both sub-regions (inconsistent with a different gene in each)
        ea = [[5001, 5300], [6001, 6300], [7001, 7300]]
        eb = [[60001, 60300], [61001, 61300], [62001, 62300]]
        if annotated:
            w["genes"] = [{"id": "GA", "chr": "chr1", "strand": "+", "transcripts": [{"id": "TA", "exons": ea}]},
                          {"id": "GB", "chr": "chr1", "strand": "+", "transcripts": [{"id": "TB", "exons": eb}]}]
            w["sites"] = []
            syn.plant_for_transcripts(w)
        W.add_sites_for_blocks(w, "chr1", ea + eb, "+")
        W.dedup_sites(w)
        for i in range(30):
            add(ea)
            add(eb)
        for i in range(param):
            add(ea + eb)
    reads.append(W.read_of("other", "chr2", [[1001, 1400]], polya=False))
    reads.append({"name": "unm", "unmapped": True})
    reads.append(W.read_of("suppl", "chr2", [[2001, 2400]], polya=False, supplementary=True))
    reads.append(W.read_of("sec", "chr2", [[3001, 3400], [3601, 3900], [4101, 4300]], polya=False, secondary=True))
    w["reads"] = reads
    return w


def expected_reads(w, annotated):
    """names of reads that must be reported: mapped, not supplementary, MAPQ filters (all reads here have MAPQ 60);
       secondary mono/bi-exonic intergenic alignments are documented to be ignored in annotation-free loci"""
    names = set()
    for r in w["reads"]:
        if r.get("unmapped") or r.get("supplementary") or r["name"].startswith("lowq"):
            continue
        names.add(r["name"])
    return names


def l3_case(args):
    kind, param, annotated, mode, scratch = args
    from vlib import syn, run
    w = pileup_world(kind, param, annotated)
    d = os.path.join(scratch, "c05_%s_%s_%d_%s" % (kind, param, annotated, mode))
    shutil.rmtree(d, ignore_errors=True)
    paths = syn.materialise(w, d)
    out = os.path.join(d, "out")
    extra = ["--no_model_construction"] + (["--high_memory"] if mode == "high_memory" else [])
    rc = run.run_isoquant(run.base_argv(paths, out, genedb=bool(annotated), extra=extra), paths["home"], os.path.join(d, "o.txt"))
    errs = []
    if rc != 0:
        errs.append(("run-failed", "exit %d: %s" % (rc, open(os.path.join(d, "o.txt")).read()[-300:])))
        shutil.rmtree(d, ignore_errors=True)
        return args[:4], errs, 0
    exp = expected_reads(w, annotated)
    bed = run.parse_bed(run.find(out, "OUT", ".corrected_reads.bed"))
    bed_names = [b["name"] for b in bed]
    lost = exp - set(bed_names)
    if lost:
        errs.append(("read-lost:bed", "%d input reads missing from corrected_reads.bed, e.g. %s" % (len(lost), sorted(lost)[:3])))
    extra_names = set(bed_names) - exp
    if extra_names:
        errs.append(("read-invented:bed", "reads %s reported but filtered by documentation" % sorted(extra_names)[:3]))
    raws = [b["raw"] for b in bed]
    if len(raws) != len(set(raws)):
        dup = next(x for x in raws if raws.count(x) > 1)
        errs.append(("duplicate-record:bed", "identical BED record printed twice: %s" % dup[:80]))
    if annotated:
        rows = run.parse_assignments(run.find(out, "OUT", ".read_assignments.tsv"))
        names = set(r["read_id"] for r in rows)
        lost = exp - names
        if lost:
            errs.append(("read-lost:tsv", "%d input reads missing from read_assignments.tsv, e.g. %s" % (len(lost), sorted(lost)[:3])))
        lines = [(r["read_id"], r["chr"], r["isoform_id"], r["exons"]) for r in rows]
        if len(lines) != len(set(lines)):
            errs.append(("duplicate-record:tsv", "identical assignment record printed twice"))
    # log statistics
    log = open(os.path.join(out, "isoquant.log")).read()
    stats = {}
    m = re.search(r"overall alignment statistics:(.*?)(?:Finishing|No reads)", log, re.S)
    if m:
        for k, v in re.findall(r" - INFO - (\w+): (\d+)", m.group(1)):
            stats[k] = int(v)
    n_primary = sum(1 for r in w["reads"] if not r.get("unmapped") and not r.get("secondary") and not r.get("supplementary"))
    expstats = {"primary": n_primary, "secondary": 1, "supplementary": 1, "unaligned": 1}
    for k, v in expstats.items():
        if stats.get(k) != v:
            errs.append(("log-stat:" + k, "log says %s: %s, the BAM has %d such records" % (k, stats.get(k), v)))
    shutil.rmtree(d, ignore_errors=True)
    return args[:4], errs, len(bed)


# ------------------------------------------------------------------------------------------------ L4 record placement
PLACE_KINDS = "PSXQU"     # U an UNMAPPED record (flag 4) that carries a chromosome and a position (legal SAM: placed unmapped reads);
                          # P reported primary (spliced, MAPQ 60); S supplementary record; X secondary two-exon record in an unannotated
                          # region (documented filter); Q primary mono-exonic MAPQ-0 record in an unannotated region (documented filter)


def placement_world(sub_b, sub_c, n_unmapped):
    """chr1 carries an annotated gene with assigned reads; chr2 / chr3 are unannotated and carry the given subsets of record kinds:
       chromosomes that contribute statistics but no reported read, in every combination"""
    from vlib import worlds as W, syn
    w = {"chroms": {"chr1": 6000, "chr2": 6000, "chr3": 6000}, "genes": [], "reads": [], "sites": []}
    w["genes"].append({"id": "G1", "chr": "chr1", "strand": "+", "transcripts": [{"id": "T1", "exons": [[1001, 1300], [1601, 1900], [2201, 2600]]}]})
    syn.plant_for_transcripts(w)
    # the first read of chr1 has a name starting with '#' (legal in SAM; '#' also starts the header lines of the output tables)
    reads = [W.read_of(nm, "chr1", [[1001, 1300], [1601, 1900], [2201, 2600]]) for nm in ("#a0", "a1")]
    exp = {"#a0", "a1"}
    stats = {"primary": 2, "secondary": 0, "supplementary": 0, "unaligned": n_unmapped}
    for chrom, sub in (("chr2", sub_b), ("chr3", sub_c)):
        blocks3 = [[1001, 1300], [1601, 1900], [2201, 2600]]
        if "P" in sub:
            W.add_sites_for_blocks(w, chrom, blocks3, "+")
            reads.append(W.read_of("P_" + chrom, chrom, blocks3))
            exp.add("P_" + chrom)
            stats["primary"] += 1
        if "S" in sub:
            reads.append(W.read_of("#a0" if chrom == "chr2" else "a1", chrom, [[3001, 3300]], polya=False, supplementary=True))
            stats["supplementary"] += 1
        if "X" in sub:
            reads.append(W.read_of("a1" if chrom == "chr2" else "#a0", chrom, [[3601, 3800], [4001, 4200]], polya=False, secondary=True))
            stats["secondary"] += 1
        if "Q" in sub:
            reads.append(W.read_of("Q_" + chrom, chrom, [[4601, 4900]], polya=False, mapq=0))
            stats["primary"] += 1
        if "U" in sub:
            reads.append({"name": "U_" + chrom, "unmapped": True, "chr": chrom, "pos": 1100})
            stats["unaligned"] += 1
    for i in range(n_unmapped):
        reads.append({"name": "unm%d" % i, "unmapped": True})
    w["reads"] = reads
    return w, exp, stats


def l4_case(args):
    sub_b, sub_c, n_unm, mode, threads, scratch = args
    from vlib import syn, run, vpool
    w, exp, expstats = placement_world(sub_b, sub_c, n_unm)
    d = os.path.join(scratch, "c05p_%s_%s_%d_%s_%d" % (sub_b or "0", sub_c or "0", n_unm, mode, threads))
    shutil.rmtree(d, ignore_errors=True)
    paths = syn.materialise(w, d)
    out = os.path.join(d, "out")
    extra = ["--no_model_construction"] + (["--high_memory"] if mode == "high_memory" else [])
    hook = (lambda: vpool.install(None)) if threads > 1 else None
    rc = run.run_isoquant(run.base_argv(paths, out, threads=threads, extra=extra), paths["home"], os.path.join(d, "o.txt"), pre_hook=hook)
    errs = []
    if rc != 0:
        errs.append(("run-failed", "exit %d: %s" % (rc, open(os.path.join(d, "o.txt")).read()[-300:])))
        shutil.rmtree(d, ignore_errors=True)
        return args[:5], errs
    try:
        bed_names = [b["name"] for b in run.parse_bed(run.find(out, "OUT", ".corrected_reads.bed"))]
        tsv_names = [r["read_id"] for r in run.parse_assignments(run.find(out, "OUT", ".read_assignments.tsv"))]
    except Exception as e:  # noqa
        errs.append(("output-unreadable", repr(e)))
        shutil.rmtree(d, ignore_errors=True)
        return args[:5], errs
    for what, names in (("bed", bed_names), ("tsv", tsv_names)):
        got = set(names)
        lost_hash = set(n for n in exp - got if n.startswith("#"))
        if lost_hash:
            errs.append(("hash-named-read-lost:" + what, "reads %s (name starting with '#') pass the documented filters but are missing from the %s output" %
                         (sorted(lost_hash), what)))
        if got | lost_hash != exp:
            errs.append(("reported-set:" + what, "reported reads %s, reads passing the documented filters %s" % (sorted(got), sorted(exp))))
    log = open(os.path.join(out, "isoquant.log")).read()
    stats = {}
    m = re.search(r"overall alignment statistics:(.*?)(?:Finishing|No reads)", log, re.S)
    if m:
        for k, v in re.findall(r" - INFO - (\w+): (\d+)", m.group(1)):
            stats[k] = int(v)
    for k, v in expstats.items():
        if stats.get(k, 0) != v:
            errs.append(("log-stat:" + k, "log says %s: %s, the BAM has %d such records" % (k, stats.get(k), v)))
    # the __not_aligned line of the count tables is the unaligned statistic
    try:
        h, rows = run.parse_counts(run.find(out, "OUT", ".gene_counts.tsv"))
        na = rows.get("__not_aligned")
        if na is not None and abs(float(na[0][0]) - expstats["unaligned"]) > 1e-9:
            errs.append(("not-aligned-line", "__not_aligned = %s, the BAM has %d unmapped records" % (na[0][0], expstats["unaligned"])))
    except Exception as e:  # noqa
        errs.append(("output-unreadable", repr(e)))
    shutil.rmtree(d, ignore_errors=True)
    return args[:5], errs


def l4_joint_case(args):
    """two experiments in ONE invocation (a --bam_list file): the statistics block the log prints for each experiment equals the record
    counts of that experiment's own input, and so does its __not_aligned line"""
    (sb1, sc1, n1), (sb2, sc2, n2), threads, scratch = args
    from vlib import syn, run, vpool
    w1, exp1, st1 = placement_world(sb1, sc1, n1)
    w2, exp2, st2 = placement_world(sb2, sc2, n2)
    d = os.path.join(scratch, "c05j_%s_%s_%d_%s_%s_%d_%d" % (sb1 or "0", sc1 or "0", n1, sb2 or "0", sc2 or "0", n2, threads))
    shutil.rmtree(d, ignore_errors=True)
    # the reference is the union of the planted sites of both worlds
    w = dict(w1, sites=[list(x) for x in sorted(set(tuple(x) for x in w1["sites"] + w2["sites"]))])
    paths = syn.materialise(dict(w, reads=None), d)
    seqs = syn.genome_sequences(w)
    bams = [syn.write_bam(w, os.path.join(d, "E%d.bam" % (i + 1)), reads=ww["reads"], seqs=seqs) for i, ww in enumerate((w1, w2))]
    cfg = os.path.join(d, "in.list")
    with open(cfg, "w") as f:
        for i, b in enumerate(bams):
            f.write("#E%d\n%s\n" % (i + 1, b))
    out = os.path.join(d, "out")
    argv = ["--output", out, "--reference", paths["ref"], "--bam_list", cfg, "--data_type", "nanopore", "--threads", str(threads),
            "--genedb", paths["gtf"], "--complete_genedb", "--no_model_construction"]
    hook = (lambda: vpool.install(None)) if threads > 1 else None
    rc = run.run_isoquant(argv, paths["home"], os.path.join(d, "o.txt"), pre_hook=hook)
    errs = []
    if rc != 0:
        errs.append(("joint:run-failed", "exit %d: %s" % (rc, open(os.path.join(d, "o.txt")).read()[-300:])))
        shutil.rmtree(d, ignore_errors=True)
        return args[:3], errs
    log = open(os.path.join(out, "isoquant.log")).read()
    blocks = re.findall(r"overall alignment statistics:(.*?)(?:Finishing|No reads|Loading)", log, re.S)
    if len(blocks) != 2:
        errs.append(("joint:log-stat-blocks", "%d statistics blocks in the log of a run with two experiments" % len(blocks)))
    for i, (blk, st, exp) in enumerate(zip(blocks, (st1, st2), (exp1, exp2))):
        stats = dict((k, int(v)) for k, v in re.findall(r" - INFO - (\w+): (\d+)", blk))
        for k, v in st.items():
            if stats.get(k, 0) != v:
                errs.append(("joint:log-stat:" + k, "experiment %d of 2: log says %s: %s, its input has %d such records" % (i + 1, k, stats.get(k), v)))
        try:
            h, rows = run.parse_counts(run.find(out, "E%d" % (i + 1), ".gene_counts.tsv"))
            na = rows.get("__not_aligned")
            if na is not None and abs(float(na[0][0]) - st["unaligned"]) > 1e-9:
                errs.append(("joint:not-aligned-line", "experiment %d of 2: __not_aligned = %s, its input has %d unmapped records" % (i + 1, na[0][0], st["unaligned"])))
            bed_names = set(b["name"] for b in run.parse_bed(run.find(out, "E%d" % (i + 1), ".corrected_reads.bed")))
            lost_hash = set(n for n in exp - bed_names if n.startswith("#"))
            if bed_names | lost_hash != exp:
                errs.append(("joint:reported-set:bed", "experiment %d of 2 reports %s, reads passing the documented filters %s" % (i + 1, sorted(bed_names), sorted(exp))))
        except Exception as e:  # noqa
            errs.append(("joint:output-unreadable", repr(e)))
    shutil.rmtree(d, ignore_errors=True)
    return args[:3], errs


# ------------------------------------------------------------------------------------------------ L5 MAPQ filter matrix
MAPQS = (0, 1, 4, 5, 6, 9, 10, 11, 60)
MAPQ_OPTS = [(), ("--min_mapq", "5"), ("--min_mapq", "10"), ("--inconsistent_mapq_cutoff", "0"), ("--inconsistent_mapq_cutoff", "10"),
             ("--simple_alignments_mapq_cutoff", "0"), ("--simple_alignments_mapq_cutoff", "10"),
             ("--min_mapq", "5", "--inconsistent_mapq_cutoff", "10"), ("--min_mapq", "10", "--simple_alignments_mapq_cutoff", "5")]


def mapq_world():
    from vlib import worlds as W, syn
    w = {"chroms": {"chr1": 6000, "chr2": 9000}, "genes": [], "reads": [], "sites": []}
    ex = [[1001, 1300], [1601, 1900], [2201, 2600]]
    w["genes"].append({"id": "G1", "chr": "chr1", "strand": "+", "transcripts": [{"id": "T1", "exons": ex}]})
    syn.plant_for_transcripts(w)
    W.add_sites_for_blocks(w, "chr1", [ex[0], ex[2]], "+")
    i3 = [[1001, 1300], [1601, 1900], [2201, 2600]]
    W.add_sites_for_blocks(w, "chr2", i3, "+")
    W.dedup_sites(w)
    reads = []
    for q in MAPQS:
        reads.append(W.read_of("cons_%d" % q, "chr1", ex, mapq=q))                                   # consistent, 3 exons
        reads.append(W.read_of("incons_%d" % q, "chr1", [ex[0], ex[2]], mapq=q))                     # exon skipping: inconsistent, 2 exons
        reads.append(W.read_of("inter1_%d" % q, "chr2", [[5001, 5400]], polya=False, mapq=q))        # unannotated region, 1 exon
        reads.append(W.read_of("inter2_%d" % q, "chr2", [[6001, 6300], [6601, 6900]], polya=False, mapq=q))
        reads.append(W.read_of("inter3_%d" % q, "chr2", i3, mapq=q))
        # alignments that are neither consistent nor inconsistent but are processed together with a gene: a mono-exonic read inside the
        # gene's first intron, and a mono-exonic intergenic read 600 bp behind the gene that one bridging read (MAPQ 60) puts into the
        # gene's read cluster - whether they are reported must not depend on the company they are processed in
        # three exons, the last one being the read's polyA tail aligned to the genome behind a spurious intron (IsoQuant trims such exons):
        # the 1-2 exon rule looks at the alignment as it is in the BAM file
        reads.append(W.read_of("inter3a_%d" % q, "chr2", [[7001, 7100], [7301, 7400], [7551, 7570]], polya=False, mapq=q, block_seq={2: "A" * 20}))
        reads.append(W.read_of("near3a_%d" % q, "chr1", [[3551, 3650], [3801, 3900], [4051, 4070]], polya=False, mapq=q, block_seq={2: "A" * 20}))
        reads.append(W.read_of("intronic_%d" % q, "chr1", [[1351 + 2 * MAPQS.index(q), 1550]], polya=False, mapq=q))
        reads.append(W.read_of("near_%d" % q, "chr1", [[3201, 3600 + 2 * MAPQS.index(q)]], polya=False, mapq=q))
    reads.append(W.read_of("bridge_60", "chr1", [[2501, 3300]], polya=False, mapq=60))
    w["reads"] = reads
    return w


def mapq_expected(opts, annotated):
    """names of the reads that pass the documented filters (docs/cmd.md: --min_mapq, --inconsistent_mapq_cutoff (annotation given,
       default 5), --simple_alignments_mapq_cutoff (1-2 exon alignments where there is no annotation, default 1))"""
    o = dict(zip(opts[0::2], opts[1::2]))
    mn = int(o.get("--min_mapq", 0))
    inc = int(o.get("--inconsistent_mapq_cutoff", 5))
    simple = int(o.get("--simple_alignments_mapq_cutoff", 1))
    exp = set()
    for q in MAPQS:
        for kind, nex, genic in (("cons", 3, True), ("incons", 2, True), ("inter1", 1, False), ("inter2", 2, False), ("inter3", 3, False),
                                 ("intronic", 1, False), ("near", 1, False), ("inter3a", 3, False), ("near3a", 3, False)):
            if q < mn:
                continue
            if genic and annotated:
                if kind == "incons" and q < inc:
                    continue
            else:
                if nex <= 2 and q < simple:
                    continue
            exp.add("%s_%d" % (kind, q))
    if mn <= 60:
        exp.add("bridge_60")
    return exp


def l5_case(args):
    oi, annotated, mode, scratch = args
    from vlib import syn, run
    opts = MAPQ_OPTS[oi]
    w = mapq_world()
    d = os.path.join(scratch, "c05q_%d_%d_%s" % (oi, annotated, mode))
    shutil.rmtree(d, ignore_errors=True)
    paths = syn.materialise(w, d)
    out = os.path.join(d, "out")
    extra = ["--no_model_construction"] + list(opts) + (["--high_memory"] if mode == "high_memory" else [])
    rc = run.run_isoquant(run.base_argv(paths, out, genedb=bool(annotated), extra=extra), paths["home"], os.path.join(d, "o.txt"))
    errs = []
    if rc != 0:
        errs.append(("run-failed", "exit %d: %s" % (rc, open(os.path.join(d, "o.txt")).read()[-300:])))
        shutil.rmtree(d, ignore_errors=True)
        return args[:3], errs
    exp = mapq_expected(opts, annotated)
    try:
        names = {"bed": set(b["name"] for b in run.parse_bed(run.find(out, "OUT", ".corrected_reads.bed")))}
        if annotated:
            names["tsv"] = set(r["read_id"] for r in run.parse_assignments(run.find(out, "OUT", ".read_assignments.tsv")))
    except Exception as e:  # noqa
        errs.append(("output-unreadable", repr(e)))
        names = {}
    for what, got in names.items():
        lost = sorted(exp - got)
        extra_ = sorted(got - exp)
        if lost:
            errs.append(("filtered-although-passing:%s:%s" % (lost[0].split("_")[0], what), "reads %s pass the documented MAPQ filters but are missing from %s" % (lost[:6], what)))
        if extra_:
            errs.append(("reported-although-filtered:%s:%s" % (extra_[0].split("_")[0], what), "reads %s are below a documented MAPQ cut-off but reported in %s" % (extra_[:6], what)))
    log = open(os.path.join(out, "isoquant.log")).read()
    m = re.search(r"overall alignment statistics:(.*?)(?:Finishing|No reads)", log, re.S)
    stats = dict((k, int(v)) for k, v in re.findall(r" - INFO - (\w+): (\d+)", m.group(1))) if m else {}
    if stats.get("primary") != len(w["reads"]):
        errs.append(("log-stat:primary", "log says primary: %s, the BAM has %d primary records" % (stats.get("primary"), len(w["reads"]))))
    shutil.rmtree(d, ignore_errors=True)
    return args[:3], errs


def placement_jobs(ctx):
    quick = ctx.tier == "quick"
    subsets = ["".join(c) for n in range(len(PLACE_KINDS) + 1) for c in itertools.combinations(PLACE_KINDS, n)]
    jobs = []
    for sb in subsets:
        for sc in (("", "P") if quick else subsets):
            for mode, threads in ((("default", 1), ("high_memory", 2)) if quick else (("default", 1), ("high_memory", 1), ("default", 2))):
                for n_unm in ((1,) if quick else (0, 2)):
                    jobs.append((sb, sc, n_unm, mode, threads, ctx.scratch))
    return jobs


def run(ctx):
    quick = ctx.tier == "quick"
    k = 3 if quick else 4
    cls = clusters(k, 20 if quick else 24, (1, 2, 5, 9, 18))
    ctx.note("L1: %d clusters of <=%d alignments (start<=%d, lengths 1/2/5/9/18), x constants sets" % (len(cls), k, 20 if quick else 24))
    consts = [{"bin": 4, "maxlen": 16, "minreads": 3, "valley": 0.01}, {"bin": 4, "maxlen": 16, "minreads": 3, "valley": 0.5},
              {"bin": 4, "maxlen": 32, "minreads": 2, "valley": 0.5}]
    ctx.rng.shuffle(cls)
    total = nontriv = 0
    for c in consts:
        for n, nt, bad in core.pmap(l1_chunk, [(ch, c) for ch in core.chunks(cls, core.NCPU * 2)]):
            total += n
            nontriv += nt
            for kind, cl, msg in bad:
                ctx.violation("l1:" + kind, "constants %s, cluster (start,len) %s: %s" % (c, cl, msg), {"cluster": cl, "consts": c})
    ctx.note("L1 cluster evaluations: %d, of which split into >=2 regions: %d" % (total, nontriv))
    # histories: every pair of clusters of <= 3 alignments from a coarser grid, every gap up to the bin size
    small = clusters(3, 8, (1, 5, 18))
    if quick:
        pairs = [(c1, c2, g) for c1 in small[::40] for c2 in small[::3] for g in (1, 3)]
    else:
        pairs = [(c1, c2, g) for c1 in small[::3] for c2 in small for g in (1, 2, 3, 4)]
    nh = 0
    for c in consts[:2]:
        for n_, bad in core.pmap(l1_history_chunk, [(ch, c) for ch in core.chunks(pairs, core.NCPU * 2)]):
            nh += n_
            for kind, case_, msg in bad:
                ctx.violation("l1:" + kind, "constants %s: %s" % (c, msg), {"history": case_, "consts": c})
    ctx.note("L1 histories (two clusters through one storage): %d" % nh)
    total += nh
    jobs = []
    offsets = (-1, 0, 1) if quick else (-2, -1, 0, 1, 2, 100, 255)
    for annotated in (1, 0):
        for mode in ("default", "high_memory"):
            for p in ((0,) if quick else (0, 60, 110)):
                jobs.append(("single-bin-pileup", p, annotated, mode, ctx.scratch))
            for off in offsets:
                jobs.append(("valley", off, annotated, mode, ctx.scratch))
            for nbr in ((1,) if quick else (1, 2)):
                jobs.append(("bridge", nbr, annotated, mode, ctx.scratch))
            if annotated:
                for nbr in ((1, 3) if quick else (1, 2, 3, 4)):
                    jobs.append(("bridge-lowq", nbr, annotated, mode, ctx.scratch))
            for nb in ((129, 130) if quick else (127, 128, 129, 130, 131, 160, 257, 258)):
                jobs.append(("long-sparse", nb, annotated, mode, ctx.scratch))
            for p in ((3,) if quick else (1, 3, 12)):
                jobs.append(("tail-short", p, annotated, mode, ctx.scratch))
            for p in ((2,) if quick else (1, 2, 5)):
                jobs.append(("spanning", p, annotated, mode, ctx.scratch))
    nrec = 0
    for key, errs, nb in core.pmap(l3_case, jobs):
        nrec += nb
        for kk, msg in errs:
            ctx.violation("l3:%s:%s" % (key[0], kk), "%s param=%s annotated=%d mode=%s: %s" % (key + (msg,)), {"case": list(key)})
    ctx.note("L3 pipeline runs at real constants: %d, %d BED records checked" % (len(jobs), nrec))
    pj = placement_jobs(ctx)
    for key, errs in core.pmap(l4_case, pj, chunksize=4):
        for kk, msg in errs:
            ctx.violation("l4:%s" % kk, "record kinds on chr2 %r, chr3 %r, %d unmapped, mode %s, threads %d: %s" % (key + (msg,)), {"placement": list(key)})
    ctx.note("L4 record placement: %d pipeline runs (every subset of {reported primary, supplementary, filtered secondary, filtered MAPQ-0 primary} "
             "on unannotated chromosomes)" % len(pj))
    jobs = jobs + pj
    # ordered pairs of experiments in one invocation
    halves = [("", "", 0), ("PSXQU", "P", 2), ("SX", "QU", 1), ("U", "", 0)] if quick else \
        [(sb, sc, n) for sb in ("", "PSXQU", "SX", "U", "PQ") for sc in ("", "P", "QU") for n in (0, 2)]
    jj = [(a, b, threads, ctx.scratch) for a in halves for b in halves if a != b for threads in ((1,) if quick else (1, 2))]
    for key, errs in core.pmap(l4_joint_case, jj):
        for kk, msg in errs:
            ctx.violation("l4:%s" % kk, "experiments %r then %r in one invocation, threads %d: %s" % (key + (msg,)), {"joint": [list(key[0]), list(key[1]), key[2]]})
    ctx.note("L4 joint: %d pipeline runs with two experiments each (ordered pairs of record-kind placements)" % len(jj))
    jobs = jobs + jj
    qj = [(oi, annotated, mode, ctx.scratch) for oi in range(len(MAPQ_OPTS)) for annotated in (1, 0)
          for mode in (("default",) if quick else ("default", "high_memory"))]
    for key, errs in core.pmap(l5_case, qj):
        for kk, msg in errs:
            ctx.violation("l5:%s" % kk, "options %s annotated=%d mode %s: %s" % (list(MAPQ_OPTS[key[0]]), key[1], key[2], msg), {"mapq_case": list(key)})
    ctx.note("L5 MAPQ filter matrix: %d pipeline runs (5 alignment kinds x 9 MAPQ values in each, %d option sets)" % (len(qj), len(MAPQ_OPTS)))
    jobs = jobs + qj
    ctx.coverage.update({
        "evaluations": total + len(jobs), "distinct_nontrivial": nontriv + len(jobs),
        "rule": "L1 case = (cluster of alignments, constants set); non-trivial = cluster actually split into >=2 regions; L3 case = pipeline "
                "run of a coverage family at real constants",
        "exhaustive": True, "l1_clusters": len(cls), "l1_constant_sets": len(consts), "pipeline_runs": len(jobs),
        "samples": [{"cluster": cls[0]}, {"pipeline": list(jobs[0][:4])}],
    })
    ctx.assumptions += ["scaled constants (COVERAGE_BIN 4, MAX_REGION_LEN 16/32, MIN_READS_TO_SPLIT 2/3) preserve behaviour: the code uses them "
                        "only in comparisons and one integer division; L3 runs the unscaled code",
                        "fake BAM fetch implements htslib semantics: records overlapping the half-open interval"]


def replay(ctx, case):
    if "cluster" in case:
        n, nt, bad = l1_chunk(([[tuple(x) for x in case["cluster"]]], case["consts"]))
        return bad[0][2] if bad else None
    if "mapq_case" in case:
        key, errs = l5_case(tuple(case["mapq_case"]) + (ctx.scratch,))
        return errs[0][1] if errs else None
    if "joint" in case:
        a, b, t = case["joint"]
        key, errs = l4_joint_case((tuple(a), tuple(b), t, ctx.scratch))
        return errs[0][1] if errs else None
    if "placement" in case:
        key, errs = l4_case(tuple(case["placement"]) + (ctx.scratch,))
        return errs[0][1] if errs else None
    key, errs, nb = l3_case(tuple(case["case"]) + (ctx.scratch,))
    return errs[0][1] if errs else None
