"""C19 — interval and profile primitives return exactly the set-theoretic result.

Space: ALL lists of <=K sorted disjoint closed intervals over [1..U], all pairs of lists, every position 0..U+1,
delta in {0,1}; all interval lists (any number of intervals) over [1..UB] for the two binary searches; all
(possibly overlapping) exon sets <=3 for split_exons; isoform sets / read block lists for the profile constructors.
Oracle: Python sets of integer positions.  Hangs are caught by a per-call interval timer.
"""
import itertools
import os
import signal
import sys
from functools import partial

from vlib import core

LEVEL = "exploration"


class Hang(Exception):
    pass


def _alarm(signum, frame):
    raise Hang()


def guarded(fn, *a):
    signal.setitimer(signal.ITIMER_REAL, 2.0)
    try:
        return fn(*a)
    finally:
        signal.setitimer(signal.ITIMER_REAL, 0)


def all_lists(U, K=None, lo=1):
    """all sorted lists of disjoint closed intervals within [lo..U] with at most K intervals (non-empty lists)"""
    out = []

    def rec(start, cur):
        if cur:
            out.append(list(cur))
        if K is not None and len(cur) >= K:
            return
        for s in range(start, U + 1):
            for e in range(s, U + 1):
                cur.append((s, e))
                rec(e + 1, cur)
                cur.pop()
    rec(lo, [])
    return out


def all_lists_min(U, K, minlen, mingap, lo=1):
    """as all_lists, but every interval has >= minlen positions and consecutive intervals are >= mingap apart"""
    out = []

    def rec(start, cur):
        if cur:
            out.append(list(cur))
        if len(cur) >= K:
            return
        for s in range(start, U + 1):
            for e in range(s + minlen - 1, U + 1):
                cur.append((s, e))
                rec(e + 1 + mingap, cur)
                cur.pop()
    rec(lo, [])
    return out


def pos(l):
    s = set()
    for a, b in l:
        s.update(range(a, b + 1))
    return s


# ------------------------------------------------------------------------------------------------ single-list checks
def check_single(args):
    U, lists = args
    import src.common as C
    signal.signal(signal.SIGALRM, _alarm)
    bad = []
    n = 0
    nontriv = 0

    def rep(fn, inp, got, exp):
        bad.append((fn, inp, repr(got), repr(exp)))

    for l in lists:
        P = pos(l)
        n += 1
        if len(l) >= 2:
            nontriv += 1
        got = C.intervals_total_length(l)
        if got != len(P):
            rep("intervals_total_length", [l], got, len(P))
        # junction / exon conversion
        j = C.junctions_from_blocks(l)
        gaps = set(range(l[0][0], l[-1][1] + 1)) - P
        if pos(j) != gaps or j != sorted(j) or any(a > b for a, b in j):
            rep("junctions_from_blocks", [l], j, sorted(gaps))
        if j:
            ex = C.get_exons((l[0][0], l[-1][1]), j)
            if pos(ex) != P:
                rep("get_exons", [(l[0][0], l[-1][1]), j], ex, l)
            # single exons from the junction list: exon k is the k-th block; position -1 = the last intron / the last exon
            region = (l[0][0], l[-1][1])
            lm = []                       # the maximal intervals of P (adjacent blocks of the list have no junction between them)
            for a, b in l:
                if lm and lm[-1][1] + 1 == a:
                    lm[-1] = (lm[-1][0], b)
                else:
                    lm.append((a, b))
            for k in list(range(len(j))) + [-1]:
                n += 1
                for fn, exp in ((C.get_following_exon_from_junctions, lm[k + 1] if k >= 0 else lm[-1]),):
                    try:
                        got = guarded(fn, region, j, k)
                    except Exception as e:  # noqa
                        got = "EXC " + repr(e)
                    if got != tuple(exp):
                        rep(fn.__name__, [region, j, k], got, tuple(exp))
            for k in range(len(j) + 1):
                n += 1
                try:
                    got = guarded(C.get_preceding_exon_from_junctions, region, j, k)
                except Exception as e:  # noqa
                    got = "EXC " + repr(e)
                if got != tuple(lm[k]):
                    rep("get_preceding_exon_from_junctions", [region, j, k], got, tuple(lm[k]))
            for k in list(range(len(j) + 1)) + [-1, -len(j) - 1]:
                n += 1
                try:
                    got = guarded(C.get_exon, region, j, k)
                except Exception as e:  # noqa
                    got = "EXC " + repr(e)
                if got != tuple(lm[k]):
                    rep("get_exon", [region, j, k], got, tuple(lm[k]))
        for p in range(0, U + 2):
            n += 1
            try:
                got = guarded(C.sum_intervals_to_point, l, p)
                exp = len([x for x in P if x < p])
                if got != exp:
                    rep("sum_intervals_to_point", [l, p], got, exp)
                got = guarded(C.sum_intervals_from_point, l, p)
                exp = len([x for x in P if x > p])
                if got != exp:
                    rep("sum_intervals_from_point", [l, p], got, exp)
            except Hang:
                rep("sum_intervals_*", [l, p], "HANG", "termination")
        # truncate_read_to_polya : domain = polyA and polyT positions inside exons (first and last bases included), polyT < polyA
        for pa in [-1] + sorted(P):
            for pt in [-1] + sorted(P):
                if pa != -1 and not any(a <= pa <= b for a, b in l):
                    continue
                if pt != -1 and not any(a <= pt <= b for a, b in l):
                    continue
                if pa != -1 and pt != -1 and not pt < pa:
                    continue
                n += 1
                lo_ = pt if pt != -1 else l[0][0]
                hi_ = pa if pa != -1 else l[-1][1]
                exp = set(x for x in P if lo_ <= x <= hi_)
                try:
                    got = guarded(C.truncate_read_to_polya, list(l), pa, pt)
                except Hang:
                    rep("truncate_read_to_polya", [l, pa, pt], "HANG", "termination")
                    continue
                except Exception as e:  # noqa
                    rep("truncate_read_to_polya", [l, pa, pt], "EXC " + repr(e), sorted(exp))
                    continue
                if pos(got) != exp or got != sorted(got) or any(a > b for a, b in got):
                    rep("truncate_read_to_polya", [l, pa, pt], got, sorted(exp))
    return n, nontriv, bad[:20]


def check_binsearch(args):
    U, lists = args
    import src.common as C
    signal.signal(signal.SIGALRM, _alarm)
    bad = []
    n = 0
    nontriv = 0
    for l in lists:
        if len(l) >= 3:
            nontriv += 1
        for p in range(0, U + 2):
            n += 1
            inside = l[0][0] <= p <= l[-1][1]
            exp = max((i for i, iv in enumerate(l) if iv[0] <= p), default=-1) if inside else -1
            exp_rev = min((i for i, iv in enumerate(l) if iv[1] >= p), default=-1) if inside else -1
            for name, fn, e in (("interval_bin_search", C.interval_bin_search, exp),
                                ("interval_bin_search_rev", C.interval_bin_search_rev, exp_rev)):
                try:
                    got = guarded(fn, l, p)
                except Hang:
                    bad.append((name, [l, p], "HANG", repr(e)))
                    continue
                except Exception as ex:  # noqa
                    bad.append((name, [l, p], "EXC " + repr(ex), repr(e)))
                    continue
                if got != e:
                    bad.append((name, [l, p], repr(got), repr(e)))
    return n, nontriv, bad[:20]


# ------------------------------------------------------------------------------------------------ pair checks
def check_pairs(args):
    lists, idx = args
    import src.common as C
    signal.signal(signal.SIGALRM, _alarm)
    bad = []
    n = 0
    nontriv = 0
    PS = [pos(l) for l in lists]
    for i in idx:
        l1, P1 = lists[i], PS[i]
        for k, l2 in enumerate(lists):
            P2 = PS[k]
            n += 1
            inter = P1 & P2
            uni = P1 | P2
            if inter and inter != uni:
                nontriv += 1
            try:
                got = guarded(C.jaccard_similarity, l1, l2)
                exp = len(inter) / len(uni)
                if abs(got - exp) > 1e-12:
                    bad.append(("jaccard_similarity", [l1, l2], got, exp))
                got = guarded(C.read_coverage_fraction, l1, l2)
                exp = len(inter) / len(P1)
                if abs(got - exp) > 1e-12:
                    bad.append(("read_coverage_fraction", [l1, l2], got, exp))
                got = guarded(C.merge_ranges, l1, l2)
                if pos(got) != uni or got != sorted(got) or any(a > b for a, b in got) or \
                        any(got[x][1] >= got[x + 1][0] for x in range(len(got) - 1)):
                    bad.append(("merge_ranges", [l1, l2], got, sorted(uni)))
            except Hang:
                bad.append(("pair-sweep", [l1, l2], "HANG", "termination"))
            except Exception as ex:  # noqa
                bad.append(("pair-sweep", [l1, l2], "EXC " + repr(ex), "no exception"))
            if len(l1) == 1 and len(l2) == 1:
                r1, r2 = l1[0], l2[0]
                chk = (("overlaps", C.overlaps(r1, r2), bool(inter)),
                       ("contains", C.contains(r1, r2), P2 <= P1),
                       ("intersection_len", C.intersection_len(r1, r2), len(inter)),
                       ("left_of", C.left_of(r1, r2), max(P1) < min(P2)),
                       ("interval_len", C.interval_len(r1), len(P1)))
                for name, got, exp in chk:
                    if got != exp:
                        bad.append((name, [r1, r2], got, exp))
                for d in (0, 1, 2):
                    g = C.equal_ranges(r1, r2, d)
                    e = abs(r1[0] - r2[0]) <= d and abs(r1[1] - r2[1]) <= d
                    if g != e:
                        bad.append(("equal_ranges", [r1, r2, d], g, e))
                    g = C.contains_approx(r1, r2, d)
                    e = set(range(r2[0], r2[1] + 1)) <= set(range(r1[0] - d, r1[1] + d + 1))
                    if g != e:
                        bad.append(("contains_approx", [r1, r2, d], g, e))
    return n, nontriv, [(a, b, repr(c), repr(d)) for a, b, c, d in bad[:20]]


# ------------------------------------------------------------------------------------------------ split_exons / isoform profiles
def all_exon_sets(U, K):
    ivs = [(s, e) for s in range(1, U + 1) for e in range(s, U + 1)]
    out = []
    for k in range(1, K + 1):
        for comb in itertools.combinations(ivs, k):
            out.append(list(comb))
    return out


def split_reference(exons):
    P = pos(exons)
    starts = set(a for a, b in exons)
    ends = set(b for a, b in exons)
    blocks = []
    cur = None
    for p in sorted(P):
        if cur is None:
            cur = [p, p]
        elif p == cur[1] + 1 and p not in starts and cur[1] not in ends:
            cur[1] = p
        else:
            blocks.append(tuple(cur))
            cur = [p, p]
    if cur:
        blocks.append(tuple(cur))
    return blocks


def check_split(args):
    sets_ = args
    from src.gene_info import GeneInfo
    signal.signal(signal.SIGALRM, _alarm)
    bad = []
    n = 0
    nontriv = 0
    for ex in sets_:
        n += 1
        exp = split_reference(ex)
        if len(exp) > len(ex):
            nontriv += 1
        try:
            got = guarded(GeneInfo.split_exons, sorted(ex))
        except Hang:
            bad.append(("split_exons", [ex], "HANG", repr(exp)))
            continue
        except Exception as e:  # noqa
            bad.append(("split_exons", [ex], "EXC " + repr(e), repr(exp)))
            continue
        if got != exp:
            bad.append(("split_exons", [ex], repr(got), repr(exp)))
    return n, nontriv, bad[:20]


def check_iso_profiles(args):
    """FeatureProfiles.set_profiles for pairs of isoforms (exon lists); features = union; all 3 profile kinds."""
    lists, idx = args
    from src.gene_info import GeneInfo, FeatureProfiles
    import src.common as C
    bad = []
    n = 0
    nontriv = 0
    for i in idx:
        iso1 = lists[i]
        for iso2 in lists:
            n += 1
            isoforms = {"t1": iso1, "t2": iso2}
            exons = sorted(set(iso1) | set(iso2))
            try:
                introns = sorted(set(C.junctions_from_blocks(iso1)) | set(C.junctions_from_blocks(iso2)))
                split = GeneInfo.split_exons(exons)
                if split != split_reference(exons):
                    bad.append(("split_exons", [exons], split, split_reference(exons)))
                    continue
            except Exception as e:  # noqa
                bad.append(("split_exons", [exons], "EXC " + repr(e), "no exception"))
                continue
            if iso1 != iso2 and pos(iso1) & pos(iso2):
                nontriv += 1
            for kind, feats, cmpf in (("exon", exons, partial(C.equal_ranges, delta=0)),
                                      ("intron", introns, partial(C.equal_ranges, delta=0)),
                                      ("split", split, C.contains)):
                fp = FeatureProfiles()
                fp.set_features(feats)
                for t, ex in isoforms.items():
                    tf = ex if kind != "intron" else C.junctions_from_blocks(ex)
                    region = (ex[0][0], ex[-1][1])
                    try:
                        fp.set_profiles(t, tf, region, cmpf)
                    except Exception as e:  # noqa
                        bad.append(("set_profiles/" + kind, [feats, t, ex], "EXC " + repr(e), "no exception"))
                        break
                    prof = fp.profiles[t]
                    for k, f in enumerate(feats):
                        if kind == "split":
                            present = any(a <= f[0] and f[1] <= b for a, b in ex)
                        else:
                            present = f in tf
                        if (prof[k] == 1) != present:
                            bad.append(("set_profiles/" + kind, [feats, t, ex], prof, "feature %s present=%s" % (f, present)))
                            break
                        if not present:
                            outside = f[1] < region[0] or f[0] > region[1]
                            if (prof[k] == -2) != outside or prof[k] not in (-1, -2):
                                bad.append(("set_profiles/" + kind, [feats, t, ex], prof,
                                            "feature %s outside=%s" % (f, outside)))
                                break
            # the same pair through the constructors that choose the comparator themselves: GeneInfo.from_models / from_model built
            # with a matching tolerance (the pipeline always passes delta > 0) - the isoform profiles stay exact
            try:
                from src.gene_info import TranscriptModel, TranscriptModelType
                tms = [TranscriptModel("chr1", "+", t, "g", list(ex), TranscriptModelType.known) for t, ex in isoforms.items()]
                for dl in (0, 2):
                    gis = [("from_models", GeneInfo.from_models(tms, delta=dl), ("t1", "t2"))]
                    if iso1 == iso2:
                        gis.append(("from_model", GeneInfo.from_model(tms[0], delta=dl), ("t1",)))
                    for cname, gi, tids in gis:
                        for kind, fpo in (("exon", gi.exon_profiles), ("intron", gi.intron_profiles)):
                            for t in tids:
                                tf = isoforms[t] if kind == "exon" else C.junctions_from_blocks(isoforms[t])
                                exp = [1 if f in tf else 0 for f in fpo.features]
                                got = [1 if x == 1 else 0 for x in fpo.profiles[t]]
                                if got != exp:
                                    bad.append(("GeneInfo.%s/%s-profile" % (cname, kind), [isoforms, t, dl], fpo.profiles[t],
                                                "present exactly for the isoform's own features %s of %s" % (tf, fpo.features)))
            except Exception as e:  # noqa
                bad.append(("GeneInfo.from_models", [isoforms], "EXC " + repr(e), "no exception"))
    return n, nontriv, [(a, b, repr(c), repr(d)) for a, b, c, d in bad[:20]]


def check_db_profiles(scratch):
    """GeneInfo built from a gffutils database (the pipeline's constructor) with every matching tolerance of the presets: isoforms that
       differ by 1-6 bases at one exon boundary (alternative donors/acceptors closer than delta) keep distinct, exact profiles"""
    import gffutils
    from vlib import syn
    from src.gene_info import GeneInfo
    import src.common as C
    bad = []
    n = 0
    base = [[1001, 1200], [1601, 1800], [2201, 2400], [2801, 3000]]
    for k, (bi, side) in enumerate(((1, 0), (1, 1), (2, 0), (0, 1), (3, 0))):
        for sh in (1, 3, 4, 6, -3):
            alt = [list(b) for b in base]
            alt[bi][side] += sh
            w = {"chroms": {"chr1": 5000}, "sites": [], "reads": [],
                 "genes": [{"id": "G", "chr": "chr1", "strand": "+", "transcripts": [{"id": "ta", "exons": base}, {"id": "tb", "exons": alt}]}]}
            tag = os.path.join(scratch, "c19db_%d_%d" % (k, sh))
            db = gffutils.FeatureDB(syn.build_db(syn.write_gtf(w, tag + ".gtf"), tag + ".db"))
            genes = list(db.features_of_type("gene"))
            for dl in (0, 4, 6, 12):
                n += 1
                try:
                    gi = GeneInfo(genes, db, delta=dl)
                    for kind, fpo in (("exon", gi.exon_profiles), ("intron", gi.intron_profiles)):
                        for t, ex in (("ta", base), ("tb", alt)):
                            ex = [tuple(e) for e in ex]
                            tf = ex if kind == "exon" else C.junctions_from_blocks(ex)
                            exp = [1 if f in tf else 0 for f in fpo.features]
                            got = [1 if x == 1 else 0 for x in fpo.profiles[t]]
                            if got != exp:
                                bad.append(("GeneInfo(db)/%s-profile" % kind, [base, alt, t, dl], repr(fpo.profiles[t]),
                                            "present exactly for the isoform's own features %s of %s" % (tf, fpo.features)))
                except Exception as e:  # noqa
                    bad.append(("GeneInfo(db)", [base, alt, dl], "EXC " + repr(e), "no exception"))
            for f in (tag + ".gtf", tag + ".db"):
                if os.path.exists(f):
                    os.remove(f)
    return n, n, bad[:20]


def check_read_profiles(args):
    """Overlapping/NonOverlapping constructors: known features from an isoform pair, read = block list."""
    lists, known_sets, idx, deltas = args
    import src.common as C
    from src.long_read_profiles import OverlappingFeaturesProfileConstructor, NonOverlappingFeaturesProfileConstructor
    from src.gene_info import GeneInfo
    bad = []
    n = 0
    nontriv = 0
    for ki in idx:
        iso1, iso2 = known_sets[ki]
        exons = sorted(set(iso1) | set(iso2))
        introns = sorted(set(C.junctions_from_blocks(iso1)) | set(C.junctions_from_blocks(iso2)))
        split = split_reference(exons)      # split_exons itself is decided separately; profiles get the reference split
        gene_region = (exons[0][0], max(e[1] for e in exons))
        for delta in deltas:
            cmpf = partial(C.equal_ranges, delta=delta)
            ipc = OverlappingFeaturesProfileConstructor(introns, gene_region, comparator=cmpf, delta=delta)
            epc = OverlappingFeaturesProfileConstructor(exons, gene_region, comparator=cmpf, delta=delta)
            spc = NonOverlappingFeaturesProfileConstructor(split, comparator=C.overlaps, delta=delta)
            for blocks in lists:
                n += 1
                try:
                    err = _read_profile_case(C, ipc, epc, spc, introns, exons, split, blocks, delta)
                except Exception as e:  # noqa
                    err = ("profile constructor", [exons, blocks, delta], "EXC " + repr(e), "no exception")
                if err:
                    bad.append(err)
                if C.junctions_from_blocks(blocks) and introns:
                    nontriv += 1
                continue
                rintrons = C.junctions_from_blocks(blocks)
                if rintrons and introns:
                    nontriv += 1
                # ---- intron profile
                if introns:
                    mp = ipc.construct_intron_profile(blocks)
                    span = (blocks[0][0], blocks[-1][1])
                    err = overl_oracle(mp, introns, rintrons, span, delta, C)
                    if err:
                        bad.append(("construct_intron_profile", [introns, blocks, delta], mp.gene_profile, err))
                # ---- exon profile
                mp = epc.construct_exon_profile(blocks)
                region = (blocks[0][1] + delta, blocks[-1][0] - delta)
                err = overl_oracle(mp, exons, blocks, region, delta, C)
                if err:
                    bad.append(("construct_exon_profile", [exons, blocks, delta], mp.gene_profile, err))
                # ---- split exon profile
                if delta == 0:
                    mp = spc.construct_profile(blocks)
                    for k, b in enumerate(split):
                        ov = any(C.overlaps(b, r) for r in blocks)
                        between = (not ov) and any(r[1] < b[0] for r in blocks) and any(r[0] > b[1] for r in blocks)
                        exp = 1 if ov else (-1 if between else 0)
                        if mp.gene_profile[k] != exp:
                            bad.append(("NonOverlapping.construct_profile", [split, blocks], mp.gene_profile,
                                        "block %s expected %d" % (b, exp)))
                            break
                    for k, r in enumerate(blocks):
                        ov = any(C.overlaps(b, r) for b in split)
                        if (mp.read_profile[k] == 1) != ov:
                            bad.append(("NonOverlapping.construct_profile/read", [split, blocks], mp.read_profile,
                                        "read block %s overlapped=%s" % (r, ov)))
                            break
    return n, nontriv, [(a, b, repr(c), repr(d)) for a, b, c, d in bad[:20]]


def _read_profile_case(C, ipc, epc, spc, introns, exons, split, blocks, delta):
    rintrons = C.junctions_from_blocks(blocks)
    if introns:
        mp = ipc.construct_intron_profile(blocks)
        span = (blocks[0][0], blocks[-1][1])
        err = overl_oracle(mp, introns, rintrons, span, delta, C)
        if err:
            return ("construct_intron_profile", [introns, blocks, delta], mp.gene_profile, err)
    mp = epc.construct_exon_profile(blocks)
    region = (blocks[0][1] + delta, blocks[-1][0] - delta)
    err = overl_oracle(mp, exons, blocks, region, delta, C)
    if err:
        return ("construct_exon_profile", [exons, blocks, delta], mp.gene_profile, err)
    if delta == 0:
        mp = spc.construct_profile(blocks)
        for k, b in enumerate(split):
            ov = any(C.overlaps(b, r) for r in blocks)
            between = (not ov) and any(r[1] < b[0] for r in blocks) and any(r[0] > b[1] for r in blocks)
            exp = 1 if ov else (-1 if between else 0)
            if mp.gene_profile[k] != exp:
                return ("NonOverlapping.construct_profile", [split, blocks], mp.gene_profile, "block %s expected %d" % (b, exp))
        for k, r in enumerate(blocks):
            ov = any(C.overlaps(b, r) for b in split)
            if (mp.read_profile[k] == 1) != ov:
                return ("NonOverlapping.construct_profile/read", [split, blocks], mp.read_profile,
                        "read block %s overlapped=%s" % (r, ov))
    return None


def overl_oracle(mp, known, read_feats, mapped_region, delta, C):
    for k, f in enumerate(known):
        matches = [r for r in read_feats if C.equal_ranges(r, f, delta)]
        # a read feature that matches several known features is resolved by a closeness heuristic the property
        # does not specify -> only unambiguous matches are decided
        ambiguous = any(sum(1 for g in known if C.equal_ranges(r, g, delta)) > 1 for r in matches)
        if ambiguous:
            continue
        if matches:
            if mp.gene_profile[k] != 1:
                return "feature %s is matched by read feature %s but profile=%d" % (f, matches[0], mp.gene_profile[k])
        else:
            spanned = mapped_region[0] <= f[0] and f[1] <= mapped_region[1]
            exp = -1 if spanned else 0
            if mp.gene_profile[k] != exp:
                return "feature %s unmatched, spanned=%s, profile=%d" % (f, spanned, mp.gene_profile[k])
    for k, r in enumerate(read_feats):
        m = any(C.equal_ranges(r, g, delta) for g in known)
        if (mp.read_profile[k] == 1) != m:
            return "read feature %s matched=%s read_profile=%d" % (r, m, mp.read_profile[k])
    return None


# ------------------------------------------------------------------------------------------------ driver
def check_interval_pairs(args):
    """two-interval predicates with a tolerance: overlaps_at_least / overlaps_at_least_when_overlap are true iff the intervals share
       at least delta positions or one contains the other; both are symmetric in their arguments"""
    U, = args
    import src.common as C
    bad = []
    n = 0
    ivs = [(a, b) for a in range(1, U + 1) for b in range(a, U + 1)]
    for r1 in ivs:
        for r2 in ivs:
            inter = len(set(range(r1[0], r1[1] + 1)) & set(range(r2[0], r2[1] + 1)))
            cont = (r1[0] <= r2[0] and r2[1] <= r1[1]) or (r2[0] <= r1[0] and r1[1] <= r2[1])
            for delta in range(0, U + 1):
                n += 1
                exp = inter >= 1 and (inter >= delta or cont)
                for fn in (C.overlaps_at_least,) + ((C.overlaps_at_least_when_overlap,) if inter >= 1 else ()):
                    try:
                        got = bool(fn(r1, r2, delta))
                    except Exception as e:  # noqa
                        got = "EXC " + repr(e)
                    if got != exp:
                        bad.append((fn.__name__, [r1, r2, delta], got, exp))
    return n, n, bad[:20]


def run(ctx):
    quick = ctx.tier == "quick"
    U = 6 if quick else 8
    UB = 10 if quick else 13
    UP = 5 if quick else 6          # universe for profile enumeration (known pair x read list x delta)
    lists = all_lists(U, 3)
    ctx.note("U=%d: %d interval lists (<=3 intervals)" % (U, len(lists)))
    total = 0
    nontriv = 0
    per_fn = {}

    def absorb(results, label):
        nonlocal total, nontriv
        t = 0
        for n, nt, bad in results:
            total += n
            nontriv += nt
            t += n
            for fn, inp, got, exp in bad:
                ctx.violation("%s" % fn, "%s%s returned %s, set-theoretic result %s" % (fn, tuple(inp), got, exp),
                              {"function": fn, "args": inp, "got": got, "expected": exp})
        per_fn[label] = t

    absorb(core.pmap(check_single, [(U, c) for c in core.chunks(lists, core.NCPU * 2)]), "single-list functions")
    absorb([check_interval_pairs((U + 2,))], "interval pair predicates")
    blists = all_lists(UB, None)
    ctx.note("UB=%d: %d interval lists of any length for the binary searches" % (UB, len(blists)))
    ctx.rng.shuffle(blists)
    absorb(core.pmap(check_binsearch, [(UB, c) for c in core.chunks(blists, core.NCPU * 4)]), "binary searches")
    idx = list(range(len(lists)))
    absorb(core.pmap(check_pairs, [(lists, c) for c in core.chunks(idx, core.NCPU * 4)]), "pair functions")
    esets = all_exon_sets(U, 3)
    ctx.note("%d exon sets (<=3 possibly overlapping exons) for split_exons" % len(esets))
    absorb(core.pmap(check_split, core.chunks(esets, core.NCPU * 4)), "split_exons")
    plists = all_lists(U, 3)
    pidx = list(range(len(plists)))
    absorb(core.pmap(check_iso_profiles, [(plists, c) for c in core.chunks(pidx, core.NCPU * 4)]), "isoform profiles")
    absorb([check_db_profiles(ctx.scratch)], "isoform profiles of database-built gene clusters")
    rl = all_lists(UP + 2, 3)
    kl = all_lists(UP + 2, 3, lo=2)
    kl = [l for l in kl if l[-1][1] <= UP + 1]
    known_sets = [(a, b) for i, a in enumerate(kl) for b in kl[i:]]
    ctx.note("read-profile space: %d known isoform pairs x %d read block lists x 2 deltas" % (len(known_sets), len(rl)))
    kidx = list(range(len(known_sets)))
    ctx.rng.shuffle(kidx)
    absorb(core.pmap(check_read_profiles, [(rl, known_sets, c, (0,)) for c in core.chunks(kidx, core.NCPU * 6)]),
           "read profiles delta=0")
    # delta=1: every feature (exon and intron) is longer than 2*delta, as all real exons/introns are w.r.t. real deltas
    UD = 11 if quick else 13
    rl1 = all_lists_min(UD, 3, 3, 3)
    kl1 = all_lists_min(UD - 1, 3, 3, 3, lo=2)
    known1 = [(a, b) for i, a in enumerate(kl1) for b in kl1[i:]]
    ctx.note("read-profile space delta=1 (features >=3 long): %d known pairs x %d read lists" % (len(known1), len(rl1)))
    kidx1 = list(range(len(known1)))
    absorb(core.pmap(check_read_profiles, [(rl1, known1, c, (1,)) for c in core.chunks(kidx1, core.NCPU * 6)]),
           "read profiles delta=1")
    ctx.coverage.update({
        "evaluations": total,
        "distinct_nontrivial": nontriv,
        "rule": "every case is a distinct (function, argument tuple); non-trivial = list with >=2 intervals (single-list), "
                ">=3 intervals (binary search), pair with non-empty proper intersection (pair functions), exon set that "
                "splits into more blocks than exons, overlapping distinct isoform pair, read with introns vs gene with introns",
        "exhaustive": True,
        "bounds": {"U": U, "max_intervals": 3, "U_binsearch": UB, "U_profiles": UP + 2, "U_profiles_delta1": UD, "delta": [0, 1]},
        "per_group_cases": per_fn,
        "samples": [{"list": lists[len(lists) // 2]}, {"exon_set": esets[len(esets) // 3]},
                    {"known_pair": known_sets[len(known_sets) // 2], "read": rl[len(rl) // 2]}],
    })
    ctx.assumptions += [
        "interval lists are sorted and pairwise disjoint (the precondition stated by the property)",
        "truncate_read_to_polya: polyA and polyT positions inside exons (any base), polyT < polyA",
        "read profiles with delta=1 are enumerated over features (exons and introns) of length >=3 > 2*delta: the sweep relies on "
        "matching features overlapping and on a known feature not being overlapped by two read features, true for every feature "
        "longer than 2*delta",
        "read profiles: gene features matched ambiguously (one read feature within delta of several known features) are not decided",
        "interval_bin_search = index of last interval starting at or before pos; _rev = first interval ending at or after pos; "
        "-1 outside [first start, last end]",
    ]


def replay(ctx, case):
    import src.common as C
    from src.gene_info import GeneInfo
    fn = case["function"]
    args = [[tuple(x) if isinstance(x, list) and len(x) == 2 and all(isinstance(y, int) for y in x) else x for x in a]
            if isinstance(a, list) else a for a in case["args"]]
    if hasattr(C, fn):
        signal.signal(signal.SIGALRM, _alarm)
        try:
            got = guarded(getattr(C, fn), *[tuple(a) if fn in ("overlaps", "contains") else a for a in args])
        except Hang:
            got = "HANG"
        if repr(got) != case["expected"]:
            return "%s%r -> %r, expected %s" % (fn, tuple(args), got, case["expected"])
        return None
    if fn == "split_exons":
        got = GeneInfo.split_exons(sorted(args[0]))
        if repr(got) != case["expected"]:
            return "split_exons(%r) -> %r expected %s" % (args[0], got, case["expected"])
        return None
    return "replay of %s: rerun the check (profile cases are replayed by re-running the quick tier)" % fn
