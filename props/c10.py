"""C10 — experiments processed in one invocation are independent of each other.

History search: all sequences (length 1..k) of experiments from a menu {A, B, C} (C = A's reads under another name, B =
other reads incl. unmapped, different read groups) x threads {1, 2 (virtual pool)} x input syntax {yaml, bam_list} x
{ungrouped, --read_group read_id}.  Oracle: every file of <out>/<experiment>/ equals the stand-alone run of that
experiment (differential: the same experiment reached after different prefixes must give the same files); combined_*
tables contain exactly the per-experiment columns.
"""
import itertools
import json
import os
import shutil

from vlib import core

LEVEL = "model_checking"


def make_world():
    from vlib import worlds as W
    w = W.mixed_world(2, groups=True, multimappers=True)
    # feature ids that look like missing values to table-processing libraries
    # ... and ids of an earlier IsoQuant run (the numbers they occupy are skipped when novel ids are handed out - in every experiment)
    ren = {"GB1": "NA", "TB1_1": "null", "TB1_2": "nan", "TA0_2": "transcript1.chr1.nic", "TA0_3": "transcript2.chr1.nnic",
           "TB0_2": "transcript4.chr1.nic", "TA1_2": "transcript1.chr2.nnic", "TA1_3": "transcript3.chr2.nic"}
    for g in w["genes"]:
        g["id"] = ren.get(g["id"], g["id"])
        for t in g["transcripts"]:
            t["id"] = ren.get(t["id"], t["id"])
    # a gene whose first intron is not canonical on either strand (its strand is known from the annotation only), full-length reads
    # of its first isoform and tail-less two-exon reads that fit both isoforms: their strand is what their own splice sites say
    from vlib import syn
    gn = [[10001, 10200], [10501, 10700], [11001, 11200]]
    w["genes"].append({"id": "GN", "chr": "chr1", "strand": "+", "transcripts": [
        {"id": "TN_1", "exons": [list(e) for e in gn]}, {"id": "TN_2", "exons": [list(e) for e in gn[:2]] + [[11301, 11500]]}]})
    w["sites"] = [["chr1", 10201, 10500, "nc"]] + w["sites"]
    syn.plant_for_transcripts(w)
    W.dedup_sites(w)
    for i in range(3):
        w["reads"].append(W.read_of("gnfl%d_gA" % i, "chr1", gn))
    for i in range(2):
        w["reads"].append(W.read_of("gnamb%d_gB" % i, "chr1", gn[:2], polya=False))
    return w


def split_reads(w):
    """A: everything but the novel-exon reads; B: everything but the novel-gene reads (other group names, extra unmapped read);
       C: A's reads under another experiment name.  The experiments share most exons, each has novel exons the other lacks."""
    reads = w["reads"]
    A = [r for r in reads if not r["name"].startswith("nnic") and not r.get("unmapped")]
    B = []
    for r in reads:
        if r["name"].startswith("ng") or r["name"].startswith("fsm2"):
            continue
        r = dict(r)
        if not r.get("unmapped"):
            r["name"] = r["name"].replace("_gA", "_hX").replace("_gB", "_hY").replace("_gC", "_hX")
        B.append(r)
    B.append({"name": "unm_2", "unmapped": True})
    from vlib import worlds as W
    # E: a polyA-poor experiment (no read carries a tail) with two-exon novel reads in an unannotated stretch and tail-less FSM reads:
    # whether its mono-intronic models are reported must depend on its own polyA content only
    E = [W.read_of("mi%d_gA" % i, "chr1", W.exons(8000, [0, 1]), polya=False) for i in range(6)]
    E += [W.read_of("efsm%d_gB" % i, "chr1", W.exons(1000, [0, 1, 2, 3, 4]), polya=False) for i in range(4)]
    E += [W.read_of("emono%d_gB" % i, "chr2", [[1650, 1780]], polya=False) for i in range(2)]
    # ... and unspliced tail-less reads in a gene-free stretch (they are reported, whatever the tails of the experiment before)
    E += [W.read_of("einter%d_gA" % i, "chr2", [[10001 + 10 * i, 10400 + 10 * i]], polya=False) for i in range(3)]
    # G: A's reads with six records written twice (a BAM merged with itself); H: B's reads with one duplicated record.  Exact duplicates
    # are ignored - in every experiment, however many duplicates the process has already seen
    mapped_a = [r for r in A if not r.get("unmapped") and not r.get("secondary")]
    mapped_b = [r for r in B if not r.get("unmapped") and not r.get("secondary")]
    G = [dict(r) for r in A] + [dict(r) for r in mapped_a[:6]]
    H = [dict(r) for r in B] + [dict(mapped_b[3])]
    # K: reads of the LAST processed chromosome only (the first chromosome K works on is the one the previous experiment finished with)
    K = [dict(r) for r in A if r.get("chr") == "chr2"]
    knames = set(r["name"] for r in A if r.get("chr") != "chr2")
    K = [r for r in K if r["name"] not in knames]
    return {"A": A, "B": B, "C": [dict(r) for r in A], "E": E, "G": G, "H": H, "K": K,
            # D: two files with labels, F: two files without labels (technical replicas: IsoQuant groups by file name)
            "D": [A[0::2], A[1::2]], "F": [B[0::2], B[1::2]], "L": None}


LABELS = {"D": ["drug1", "drug2"], "L": ["2", "1"]}          # digit-only labels are written as numbers in the YAML file
MULTI = ("D", "F", "L")            # L: the SAME two files as D under other labels (experiments of one run may share input files)


def prepare(scratch, tag):
    from vlib import syn
    w = make_world()
    d = os.path.join(scratch, "c10_" + tag)
    shutil.rmtree(d, ignore_errors=True)
    paths = syn.materialise(dict(w, reads=None), d)
    seqs = syn.genome_sequences(w)
    exps = split_reads(w)
    for name, reads in exps.items():
        if name == "L":
            continue
        if name in MULTI:
            paths[name] = [syn.write_bam(w, os.path.join(d, "%s_lib%d.bam" % (name, i + 1)), reads=rr, seqs=seqs) for i, rr in enumerate(reads)]
        else:
            paths[name] = syn.write_bam(w, os.path.join(d, name + ".bam"), reads=reads, seqs=seqs)
    paths["L"] = list(paths["D"])
    return w, d, paths


def joint_case(args):
    seq, threads, syntax, grouped, scratch = args[:5]
    dtype = args[5] if len(args) > 5 else "nanopore"
    from vlib import run, vpool
    tag = "%s_%d_%s_%d_%s" % ("".join(seq), threads, syntax, grouped, dtype)
    w, d, paths = prepare(scratch, tag)
    extra = ["--read_group", "read_id:_"] if grouped else []
    errs = []
    # stand-alone references
    alone = {}
    for x in sorted(set(seq)):
        out = os.path.join(d, "alone_" + x)
        files = paths[x] if isinstance(paths[x], list) else [paths[x]]
        argv = ["--output", out, "--reference", paths["ref"], "--bam"] + files + ["--data_type", dtype, "--prefix", x,
                "--threads", "1", "--genedb", paths["gtf"], "--complete_genedb"] + extra + (["--keep_tmp"] if syntax == "saves" else [])
        if x in LABELS:
            argv += ["--labels"] + LABELS[x]
        rc = run.run_isoquant(argv, paths["home"], os.path.join(d, "alone_%s.txt" % x))
        if rc != 0:
            errs.append(("alone-run-failed", "stand-alone %s exit %d" % (x, rc)))
            shutil.rmtree(d, ignore_errors=True)
            return args[:4] + (dtype,), errs, 0
        alone[x] = run.read_tree(os.path.join(out, x))
    out = os.path.join(d, "joint")
    names = list(seq)              # output folder / prefix of each experiment of the joint run
    if syntax == "saves":
        # the joint run restarts from the assignments saved by the stand-alone runs: experiment i is named <prefix><i>
        inp = ["--read_assignments"] + [os.path.join(d, "alone_" + x, x, "aux", x + ".save") for x in seq]
        names = ["OUT%d" % i for i in range(len(seq))]
    elif syntax == "yaml":
        cfg = os.path.join(d, "in.yaml")
        items = [{"data format": "bam"}]
        for x in seq:
            it = {"name": x, "long read files": paths[x] if isinstance(paths[x], list) else [paths[x]]}
            if x in LABELS:
                it["labels"] = [int(l) if l.isdigit() else l for l in LABELS[x]]
            items.append(it)
        import yaml
        with open(cfg, "w") as f:
            yaml.safe_dump(items, f)
        inp = ["--yaml", cfg]
    else:
        cfg = os.path.join(d, "in.list")
        with open(cfg, "w") as f:
            for x in seq:
                f.write("#%s\n" % x)
                for i, fp in enumerate(paths[x] if isinstance(paths[x], list) else [paths[x]]):
                    f.write(fp + (":" + LABELS[x][i] if x in LABELS else "") + "\n")
        inp = ["--bam_list", cfg]
    argv = ["--output", out, "--reference", paths["ref"], "--data_type", dtype, "--prefix", "OUT", "--threads", str(threads),
            "--genedb", paths["gtf"], "--complete_genedb"] + inp + extra
    hook = (lambda: vpool.install(None)) if threads > 1 else None
    rc = run.run_isoquant(argv, paths["home"], os.path.join(d, "joint.txt"), pre_hook=hook)
    nfiles = 0
    if rc != 0:
        errs.append(("joint-run-failed", "exit %d: %s" % (rc, open(os.path.join(d, "joint.txt")).read()[-300:])))
    else:
        for pos, x in enumerate(seq):
            t = run.read_tree(os.path.join(out, names[pos]))
            if names[pos] != x:
                t = {k.replace(names[pos] + ".", x + ".", 1): v for k, v in t.items()}
            for k in sorted(set(t) | set(alone[x])):
                nfiles += 1
                where = "first" if pos == 0 else "later"
                if k not in t:
                    errs.append(("missing:%s:%s" % (where, k.split(x + ".")[-1]), "experiment %s (position %d): file %s missing in the joint run" % (x, pos, k)))
                elif k not in alone[x]:
                    errs.append(("extra:%s:%s" % (where, k.split(x + ".")[-1]), "experiment %s (position %d): extra file %s in the joint run" % (x, pos, k)))
                elif t[k] != alone[x][k]:
                    l0, l1 = alone[x][k].split(b"\n"), t[k].split(b"\n")
                    i = next((i for i, (a, b) in enumerate(zip(l0, l1)) if a != b), min(len(l0), len(l1)))
                    errs.append(("differs:%s:%s" % (where, k.split(x + ".")[-1]),
                                 "experiment %s at position %d of %s: %s differs from the stand-alone run at line %d: %r vs %r" %
                                 (x, pos, list(seq), k, i, (l0[i] if i < len(l0) else b"")[:80], (l1[i] if i < len(l1) else b"")[:80])))
        # combined tables
        if len(seq) > 1:
            for level in ("gene", "transcript"):
                for kind, col in (("counts", "count"), ("tpm", "TPM")):
                    p = os.path.join(out, "combined_%s_%s.tsv" % (level, kind))
                    if not os.path.exists(p):
                        errs.append(("combined-missing", "%s missing" % os.path.basename(p)))
                        continue
                    lines = [l.rstrip("\n").split("\t") for l in open(p) if l.strip()]
                    header = lines[0]
                    if header[1:] != names:
                        errs.append(("combined-columns", "%s columns %s, experiments %s" % (os.path.basename(p), header[1:], list(seq))))
                        continue
                    table = {l[0]: l[1:] for l in lines[1:]}
                    for ci, x in enumerate(seq):
                        h, rows = run.parse_counts(os.path.join(out, names[ci], "%s.%s_%s.tsv" % (names[ci], level, kind)))
                        exp = {f: float(v[0][0]) for f, v in rows.items()}
                        if kind == "counts":
                            exp = {f: v for f, v in exp.items() if not f.startswith("__")}
                        got = {}
                        for f, vals in table.items():
                            if vals[ci] not in ("", "nan", "NaN"):
                                got[f] = float(vals[ci])
                        if kind == "counts":
                            got = {f: v for f, v in got.items() if not f.startswith("__")}
                        bad = [f for f in set(exp) | set(got) if abs(exp.get(f, float("nan")) - got.get(f, float("nan"))) > 1e-6 or (f in exp) != (f in got)]
                        if bad:
                            errs.append(("combined-values:%s_%s" % (level, kind), "%s column %s differs from %s's own table for %s" %
                                         (os.path.basename(p), x, x, sorted(bad)[:3])))
    shutil.rmtree(d, ignore_errors=True)
    return args[:4] + (dtype,), errs, nfiles


def _no_gtf_title(data):
    """the first comment line of the GTFs names the experiment"""
    return b"\n".join(l for l in data.split(b"\n") if not l.endswith(b"IsoQuant generated GTF"))


def naming_case(args):
    """experiment names that collide with each other or with the names IsoQuant makes up for duplicates (<prefix><index>): every experiment
       still gets an output folder of its own whose files equal its stand-alone run"""
    names, syntax, scratch = args
    from vlib import run
    ids = ["A", "B", "C"][:len(names)]
    w, d, paths = prepare(scratch, "naming_%s_%s" % ("-".join(names), syntax))
    errs = []
    alone = {}
    for x in ids:
        out = os.path.join(d, "alone_" + x)
        rc = run.run_isoquant(["--output", out, "--reference", paths["ref"], "--bam", paths[x], "--data_type", "nanopore", "--prefix", "P",
                               "--threads", "1", "--genedb", paths["gtf"], "--complete_genedb"], paths["home"], os.path.join(d, "alone.txt"))
        if rc != 0:
            shutil.rmtree(d, ignore_errors=True)
            return args[:2], [("alone-run-failed", "stand-alone %s exit %d" % (x, rc))]
        alone[x] = {k.replace("P.", "", 1): _no_gtf_title(v) for k, v in run.read_tree(os.path.join(out, "P")).items()}
    out = os.path.join(d, "joint")
    if syntax == "yaml":
        import yaml
        cfg = os.path.join(d, "in.yaml")
        with open(cfg, "w") as f:
            yaml.safe_dump([{"data format": "bam"}] + [{"name": n, "long read files": [paths[x]]} for n, x in zip(names, ids)], f)
        inp = ["--yaml", cfg]
    else:
        cfg = os.path.join(d, "in.list")
        with open(cfg, "w") as f:
            for n, x in zip(names, ids):
                f.write("#%s\n%s\n" % (n, paths[x]))
        inp = ["--bam_list", cfg]
    rc = run.run_isoquant(["--output", out, "--reference", paths["ref"], "--data_type", "nanopore", "--prefix", "OUT", "--threads", "1",
                           "--genedb", paths["gtf"], "--complete_genedb"] + inp, paths["home"], os.path.join(d, "joint.txt"))
    if rc != 0:
        errs.append(("naming:joint-run-failed", "names %s: exit %d: %s" % (names, rc, open(os.path.join(d, "joint.txt")).read()[-300:])))
    else:
        folders = sorted(f for f in os.listdir(out) if os.path.isdir(os.path.join(out, f)))
        trees = {}
        for f in folders:
            trees[f] = {k.replace(f + ".", "", 1): _no_gtf_title(v) for k, v in run.read_tree(os.path.join(out, f)).items()}
        if len(folders) != len(ids):
            errs.append(("naming:folder-count", "experiments named %s: %d output folders %s for %d experiments" % (names, len(folders), folders, len(ids))))
        for x in ids:
            if not any(t == alone[x] for t in trees.values()):
                errs.append(("naming:experiment-lost", "experiments named %s (%s): no output folder holds the results of experiment %s (folders %s)" %
                             (names, syntax, x, folders)))
    shutil.rmtree(d, ignore_errors=True)
    return args[:2], errs


NAMINGS = [("S", "S"), ("OUT1", "A", "A"), ("OUT2", "A", "A"), ("A", "A", "OUT1"), ("A", "A", "A"),
            # names that also occur inside the names of the output files (<name>.transcript_models.gtf, <name>.gene_counts.tsv, ...)
            ("t", "gene"), ("s", "counts", "tsv")]
MENU = "ABCDEF"


def run(ctx):
    quick = ctx.tier == "quick"
    k = 2 if quick else 3
    seqs = []
    for n in range(1, k + 1):
        for seq in itertools.permutations(MENU, n):
            if n == 3 and not (set(seq) <= set("ABC") or set(seq) <= set("ADE") or set(seq) <= set("BDF") or set(seq) <= set("DEF")):
                continue
            seqs.append(seq)
    seqs += [("G",), ("H",), ("G", "H"), ("H", "G"), ("A", "H"), ("H", "A"), ("G", "B"), ("K",), ("A", "K"), ("K", "A"), ("B", "K"), ("D", "L"), ("L", "D"), ("L", "F")]
    # numbers of experiments that are not powers of two (the combined tables are assembled from all of them)
    seqs += [("A", "B", "C"), ("C", "A", "B", "K", "E")]
    if not quick:
        seqs += [("G", "H", "A"), ("A", "G", "H"), ("G", "A", "H"), ("A", "B", "C", "K", "E", "G"), ("A", "B", "C", "K", "E", "G", "H")]
    jobs = []
    for seq in seqs:
        new = bool(set(seq) & set("DEFGHKL"))
        for threads in (1, 2):
            for syntax in ("yaml", "list"):
                if quick and new and (threads == 2) != (syntax == "list"):
                    continue
                for grouped in ((0, 1) if ((not quick or len(seq) == 2) and not set(seq) & set(MULTI)) else (0,)):
                    for dtype in ("nanopore", "pacbio_ccs"):
                        if dtype == "pacbio_ccs" and (grouped or "E" not in seq or (quick and syntax == "list")):
                            continue
                        jobs.append((seq, threads, syntax, grouped, ctx.scratch, dtype))
    ctx.rng.shuffle(jobs)
    nfiles = 0
    prefixes = set()
    for key, errs, nf in core.pmap(joint_case, jobs):
        nfiles += nf
        for i in range(len(key[0]) + 1):
            prefixes.add(key[0][:i])
        for kk, msg in errs:
            ctx.violation(kk, "sequence %s threads %d syntax %s grouped %d data type %s: %s" % (list(key[0]), key[1], key[2], key[3], key[4], msg),
                          {"sequence": list(key[0]), "threads": key[1], "syntax": key[2], "grouped": key[3], "dtype": key[4]})
    nj = [(n, sx, ctx.scratch) for n in NAMINGS for sx in ("yaml", "list")]
    for key, errs in core.pmap(naming_case, nj):
        for kk, msg in errs:
            ctx.violation(kk, msg, {"naming": list(key[0]), "syntax": key[1]})
    ctx.note("%d experiment sequences (length <=%d) x threads x syntax x grouping = %d joint runs; %d files compared with stand-alone runs" %
             (len(seqs), k, len(jobs), nfiles))
    ctx.coverage.update({
        "states": len(prefixes), "transitions": sum(len(s) for s in seqs), "traces_validated_against_impl": len(jobs),
        "depth": k, "joint_runs": len(jobs), "files_compared": nfiles, "exhaustive": True,
        "samples": [{"sequence": list(jobs[0][0]), "threads": jobs[0][1], "syntax": jobs[0][2], "grouped": jobs[0][3]}],
        "evaluations": len(jobs), "distinct_nontrivial": len([j for j in jobs if len(j[0]) > 1]),
        "rule": "state = history of experiments already processed by the process (prefix of the sequence); transition = processing one more "
                "experiment; all orderings of <=%d experiments out of {A,B,C,D,E,F} (triples within {A,B,C}, {A,D,E}, {B,D,F}, {D,E,F})" % k,
    })
    ctx.assumptions += ["stand-alone runs use --prefix <experiment name> so that file names and headers agree; command-line header lines dropped"]


def replay(ctx, case):
    if "naming" in case:
        key, errs = naming_case((tuple(case["naming"]), case["syntax"], ctx.scratch))
        return errs[0][1] if errs else None
    key, errs, n = joint_case((tuple(case["sequence"]), case["threads"], case["syntax"], case["grouped"], ctx.scratch, case.get("dtype", "nanopore")))
    return errs[0][1] if errs else None
