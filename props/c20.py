"""C20 — concurrent runs under one user account do not interfere.

The real set_configs_directory, convert_db (+ find_converted_db / compare_stored_gtf) and the index/BED/alignment cache
functions of src/read_mapper.py are executed by 2-3 simulated processes (threads under a cooperative scheduler) on a
virtual file system; ALL interleavings of their file-system operations on the shared $HOME/.config/IsoQuant files are
explored (iterative preemption bounding + state deduplication).  Only gffutils.create_db is replaced (by a function that
writes a db file to the virtual FS in two steps), everything else is the code under test.
"""
import json
import os
from types import SimpleNamespace

from vlib import core, schedfs

LEVEL = "model_checking"
V = schedfs.VROOT
HOME = V + "home"
CFG = HOME + "/.config/IsoQuant"


def fake_create_db(gtf, db, force=True, **kw):
    # gffutils.create_db(force=True): an existing file is removed, then the sqlite file is created and filled
    if os.path.basename(gtf).startswith("bad"):
        raise ValueError("malformed annotation %s" % gtf)           # what gffutils does with a file it cannot parse
    if os.path.exists(db):
        os.remove(db)
    mt = os.path.getmtime(gtf)
    # a conversion with gene/transcript inference (no --complete_genedb) is another database than one without
    complete = bool(kw.get("disable_infer_genes", True))
    with open(db, "w") as f:
        f.write("db-from:%s@%s%s" % (gtf, mt, "" if complete else ":inferred"))


class FakeFeatureDB:
    """stand-in for gffutils.FeatureDB over the virtual db file: two transcripts whose ids carry the database content, so that the junction
       BED written by the REAL db2bed identifies the database it was exported from"""
    def __init__(self, db, keep_order=True):
        with open(db, "r") as f:
            self.content = f.read()

    def all_features(self, featuretype=None):
        for i in (1, 2):
            yield FakeRecord(self.content, i)

    def features_of_type(self, featuretype, order_by=None):
        # the gene records the REAL db2gtf walks over (two genes; their text carries the database content)
        for i in (1, 2):
            yield FakeGene(self.content, i)

    def children(self, record, order_by=None, featuretype=None):
        if isinstance(record, FakeGene):
            return []
        if featuretype == "exon":
            return [SimpleNamespace(start=1000 * record.i + 1, end=1000 * record.i + 200), SimpleNamespace(start=1000 * record.i + 401, end=1000 * record.i + 600)]
        return []


class FakeGene:
    def __init__(self, content, i):
        self.text = "chr1\tSYN\tgene\t%d\t%d\t.\t+\t.\tgene_id \"g%d<%s>\";" % (1000 * i, 1000 * i + 600, i, content)

    def __str__(self):
        return self.text


def expected_gtf(db_content):
    return "".join(FakeGene(db_content, i).text + "\n" for i in (1, 2))


class FakeRecord:
    def __init__(self, content, i):
        self.i = i
        self.id = "t%d<%s>" % (i, content)
        self.attributes = {}
        self.seqid = "chr1"
        self.strand = "+"

    def __getitem__(self, k):
        return self.attributes[k]


def expected_bed(db_content):
    return "".join("chr1\t%d\t%d\tt%d<%s>||unknown_gene\t1000\t+\t%d\t%d\t196,196,196\t2\t200,200,\t0,400,\n" %
                   (1000 * i, 1000 * i + 600, i, db_content, 1000 * i, 1000 * i + 600) for i in (1, 2))


def fake_aligner_call(command, stdout=None, stderr=None):
    """stand-in for the minimap2 binary building an index (-d INDEX REFERENCE): the index file is written in place, in two steps"""
    idx = command[command.index("-d") + 1]
    with open(command[-1], "r") as f:
        ref = f.read()
    with open(idx, "w") as f:
        f.write("idx-of:")
        f.flush()
        f.write(ref + ";end")
    return 0


class FakeFasta:
    """stand-in for pyfaidx.Fasta: a missing index (or one older than the reference) is written in place, in two steps; the object holds
       what the index file says"""
    def __init__(self, reference, indexname=None):
        with open(reference, "r") as f:
            ref = f.read()
        if not os.path.exists(indexname) or os.path.getmtime(indexname) < os.path.getmtime(reference):
            with open(indexname, "w") as f:
                f.write("fai-of:")
                f.flush()
                f.write(ref + ";end")
        with open(indexname, "r") as f:
            self.index = f.read()

    def close(self):
        pass


def mapper_stand_ins(RM):
    """stand-ins for minimap2 (index building and mapping), samtools sort and samtools index under the REAL index_reference / align_fasta:
       each program reads its input file and writes its output file in place, in two steps, as the real programs do"""
    def call(command, stdout=None, stderr=None):
        if "-d" in command:
            return fake_aligner_call(command, stdout, stderr)
        with open(command[2], "r") as f:          # minimap2 INDEX READS -a ...
            reads = f.read()
        stdout.write("sam-of:")
        stdout.flush()
        stdout.write(reads + ("+uf" if "-uf" in command else "") + ";end")
        # the handle was created in the argument list of the call: CPython finalises it as soon as the call returns
        stdout.close()
        return 0

    def run(command, capture_output=False):
        return SimpleNamespace(returncode=0, stdout=b"2.26-stand-in")

    def sort(*a):
        with open(a[-1], "r") as f:
            sam = f.read()
        with open(a[a.index("-o") + 1], "w") as f:
            f.write("bam-of:")
            f.flush()
            f.write(sam[len("sam-of:"):])

    def index(*a):
        with open(a[-1], "r") as f:
            bam = f.read()
        with open(a[-1] + ".bai", "w") as f:
            f.write("bai-of:" + bam)
    RM.get_aligner = lambda name: name
    RM.subprocess = SimpleNamespace(call=call, run=run)
    RM.pysam = SimpleNamespace(sort=sort, index=index, SamtoolsError=RuntimeError)


def make_editor(path, content):
    """an actor outside IsoQuant that replaces an input file while runs are in progress (a new release of the annotation is copied over)"""
    def body(sched):
        # a careful replacement: the new version is written next to the file and renamed over it
        with open(path + ".new", "w") as f:
            f.write(content)
        os.replace(path + ".new", path)
        return {"editor": True}
    return body


def build(sp):
    return make_editor(*sp[1:]) if sp[0] == "editor" else make_process(*sp)


def make_process(pid, gtf, outdir, clean_start=False, with_mapper_caches=False, complete=True):
    def body(sched):
        import isoquant
        import src.gtf2db as G
        mt0 = os.path.getmtime(gtf)
        args = SimpleNamespace(clean_start=clean_start, complete_genedb=complete, gtf_check=False, genedb=gtf, output=outdir,
                               genedb_filename=os.path.join(outdir, os.path.splitext(os.path.basename(gtf))[0] + ".db"))
        isoquant.set_configs_directory(args)
        if with_mapper_caches == "stargtf":
            # STARlong route: the run was given a DATABASE (args.genedb) and the aligner needs a GTF: cached conversion or a fresh one
            import src.read_mapper as RM
            res = {}
            args.genedb = gtf          # the process spec's annotation is a database file here
            args.no_junc_bed = False
            with open(args.genedb, "r") as f:
                res["db_content"] = f.read()
            ann = RM.find_annotation("starlong", args)
            with open(ann, "r") as f:
                res["star_gtf"] = f.read()
            res["star_gtf_path"] = ann
            with open(args.genedb, "r") as f:
                res["db_content_end"] = f.read()
            return res
        # the entry point the pipeline uses (isoquant.run_pipeline): args.genedb is the annotation, args.genedb_filename the target
        db = G.convert_gtf_to_db(args)
        g = os.path.abspath(gtf)
        with open(db, "r") as f:
            content = f.read()
        res = {"gtf": g, "db": db, "db_content": content, "gtf_mtime": os.path.getmtime(gtf), "gtf_mtime_start": mt0, "complete": complete}
        if with_mapper_caches == "index":
            # FASTQ mode: the run asks for the reference index (cached one or a fresh build) and the aligner loads it
            import src.read_mapper as RM
            RM.get_aligner = lambda name: name
            RM.subprocess = SimpleNamespace(call=fake_aligner_call)
            args.reference = V + "data/ref1.fa"
            with open(args.reference, "r") as f:
                res["ref_start"] = f.read()
            args.data_type = "nanopore"
            args.threads = 1
            args.index = None
            mapper = RM.DataSetReadMapper.__new__(RM.DataSetReadMapper)
            mapper.aligner = "minimap2"
            idx = RM.DataSetReadMapper.create_index(mapper, args)
            with open(idx, "r") as f:
                res["index_content"] = f.read()
            res["index_path"] = idx
            with open(args.reference, "r") as f:
                res["ref_end"] = f.read()
        elif with_mapper_caches == "fai":
            # every run loads the reference through the index next to it (the real DatasetProcessor.load_reference over a stand-in for
            # pyfaidx); the index does not exist yet
            import src.dataset_processor as DP
            DP.Fasta = FakeFasta
            ref = V + "data/ref1.fa"
            with open(ref, "r") as f:
                res["ref_start"] = f.read()
            rec = DP.DatasetProcessor.load_reference(ref, ref + ".fai")
            res["fai_loaded"] = rec.index
            with open(ref, "r") as f:
                res["ref_end"] = f.read()
        elif with_mapper_caches in ("alignment", "alignment2", "alignment-uf"):
            # FASTQ mode: start-up of the run in its folder (what isoquant.check_and_load_args does for every new run), then the real
            # DataSetReadMapper.map_reads with a stand-in for the aligner binary; afterwards the run opens the alignments it was given
            import src.read_mapper as RM
            aux = os.path.join(outdir, "OUT", "aux")
            os.makedirs(aux, exist_ok=True)
            fq = V + "data/reads1.fq"
            sample = SimpleNamespace(file_list=[[fq]], prefix="OUT", aux_dir=aux, out_dir=os.path.join(outdir, "OUT"),
                                     readable_names_dict={}, illumina_bam=None)
            args.input_data = SimpleNamespace(samples=[sample], input_type="fastq")
            args.resume = False
            args.reference = V + "data/ref1.fa"
            isoquant.remove_previous_run_locks(args)
            args.index = V + "data/ref1.mmi"

            with open(fq, "r") as f:
                res["fq_start"] = f.read()

            # the REAL align_fasta runs over stand-ins for the external programs (see mapper_stand_ins)
            mapper_stand_ins(RM)
            args.data_type = "nanopore"
            args.threads = 1
            args.stranded = "forward" if with_mapper_caches == "alignment-uf" else "none"
            res["opt"] = "+uf" if args.stranded == "forward" else ""
            if with_mapper_caches == "alignment2":
                # an experiment with two read files
                sample.file_list.append([V + "data/reads2.fq"])
            args.no_junc_bed = True          # no junction file: find_annotation returns None (the real function stays in place)
            mapper = RM.DataSetReadMapper.__new__(RM.DataSetReadMapper)
            mapper.aligner = "minimap2"
            data = RM.DataSetReadMapper.map_reads(mapper, args)
            res["bam_path"] = data.samples[0].file_list[0][0]
            # what the next stage does with every alignment file: pysam.AlignmentFile(bam, require_index=True)
            with open(res["bam_path"], "r") as f:
                res["bam_content"] = f.read()
            with open(res["bam_path"] + ".bai", "r") as f:
                res["bai_content"] = f.read()
            with open(fq, "r") as f:
                res["fq_end"] = f.read()
        elif with_mapper_caches == "annotation":
            # FASTQ mode: the aligner step asks for the junction BED of the annotation (cached one or a fresh export) and reads it
            import src.read_mapper as RM
            args.genedb = db
            args.no_junc_bed = False
            args.junc_bed_file = None
            args.reference = V + "data/ref%d.fa" % pid
            args.data_type = "nanopore"
            bed = RM.find_annotation("minimap2", args)
            with open(bed, "r") as f:
                res["bed_content"] = f.read()
            res["bed_path"] = bed
            with open(db, "r") as f:
                res["db_content_end"] = f.read()      # the database file may have been re-converted by another run in the meantime
        elif with_mapper_caches:
            import src.read_mapper as RM
            args.reference = V + "data/ref%d.fa" % pid
            args.data_type = "nanopore"
            args.index = V + "data/ref%d.mmi" % pid
            args.genedb = db
            RM.store_index(args.index, args)
            res["index"] = RM.find_stored_index(args)
            bed = V + "data/annot%d.bed" % pid
            RM.store_bed(bed, args)
            res["bed"] = RM.find_stored_bed(args)
            fq = V + "data/reads%d.fq" % pid
            bam = V + "data/reads%d.bam" % pid
            RM.store_alignment(bam, fq, bed, args)
            res["bam"] = RM.find_stored_alignment(fq, bed, args)
            res["expect"] = (args.index, bed, bam)
        return res
    return body


def scenario(name):
    """returns (list of process specs, vfs_init)"""
    def base_init(vfs, populated=None, cfg_exists=False):
        for i in (1, 2, 3):
            vfs.add(V + "data/annot%d.gtf" % i, "gtf%d" % i, mtime=10.0 + i)
            for suffix in ("ref%d.fa", "ref%d.mmi", "annot%d.bed", "reads%d.fq", "reads%d.bam"):
                vfs.add(V + "data/" + suffix % i, "x", mtime=20.0 + i)
        for i in (1, 2, 3):
            vfs.dirs.add(V + "out%d" % i)
        vfs.dirs.add(HOME)
        if cfg_exists or populated is not None:
            for f in ("db_config.json", "index_config.json", "bed_config.json", "alignment_config.json"):
                vfs.add(CFG + "/" + f, "{}", mtime=5.0)
        if populated:
            entries = {}
            for i in populated:
                db = V + "old/annot%d.db" % i
                vfs.add(db, "db-from:%s@%s" % (V + "data/annot%d.gtf" % i, 10.0 + i), mtime=30.0 + i)
                entries[V + "data/annot%d.gtf" % i] = {"genedb": db, "gtf_mtime": 10.0 + i, "db_mtime": 30.0 + i, "complete_db": True}
            vfs.files[CFG + "/db_config.json"].content = json.dumps(entries)
    g = lambda i: V + "data/annot%d.gtf" % i
    o = lambda i: V + "out%d" % i
    if name == "fresh-home-different-gtf":
        return [(1, g(1), o(1), False, False), (2, g(2), o(2), False, False)], lambda v: base_init(v)
    if name == "fresh-home-same-gtf":
        return [(1, g(1), o(1), False, False), (2, g(1), o(2), False, False)], lambda v: base_init(v)
    if name == "existing-config-different-gtf":
        return [(1, g(1), o(1), False, False), (2, g(2), o(2), False, False)], lambda v: base_init(v, cfg_exists=True)
    if name == "cache-hit-vs-miss":
        return [(1, g(1), o(1), False, False), (2, g(2), o(2), False, False)], lambda v: base_init(v, populated=[1])
    if name == "clean-start-vs-hit":
        return [(1, g(1), o(1), True, False), (2, g(1), o(2), False, False)], lambda v: base_init(v, populated=[1])
    if name == "mapper-caches":
        return [(1, g(1), o(1), False, True), (2, g(2), o(2), False, True)], lambda v: base_init(v, populated=[1, 2])
    if name == "bed-export-from-cached-db":
        # both runs are handed the cached database (lying in the folder of an earlier run) and both export the junction BED for the aligner
        return [(1, g(1), o(1), False, "annotation"), (2, g(1), o(2), False, "annotation")], lambda v: base_init(v, populated=[1])
    if name == "gtf-rewritten-during-conversion":
        # the annotation is replaced by a new version while run 1 converts the old one; run 2 works on the same path
        return [(1, g(1), o(1), False, False), ("editor", g(1), "gtf1-new-release"), (2, g(1), o(2), False, False)], lambda v: base_init(v, cfg_exists=True)
    if name == "bed-rewrite-vs-cached-reader":
        # database and junction BED of annot1.gtf are cached in out1 (an earlier run); run 1 is a --clean_start rerun in out1 (re-converts the
        # database, the BED cache entry no longer matches, the BED is exported again to the SAME path), run 2 (out2) is handed the cached files
        def init(v):
            base_init(v, cfg_exists=True)
            db = o(1) + "/annot1.db"
            dbc = "db-from:%s@%s" % (g(1), 11.0)
            v.add(db, dbc, mtime=31.0)
            v.add(o(1) + "/annot1.bed", expected_bed(dbc), mtime=32.0)
            v.files[CFG + "/db_config.json"].content = json.dumps({g(1): {"genedb": db, "gtf_mtime": 11.0, "db_mtime": 31.0, "complete_db": True}})
            v.files[CFG + "/bed_config.json"].content = json.dumps({db: {"bed_filename": o(1) + "/annot1.bed", "reference_mtime": 31.0, "bed_mtime": 32.0}})
        return [(1, g(1), o(1), True, "annotation"), (2, g(1), o(2), False, "annotation")], init
    if name == "index-clean-start-vs-cached":
        # the index of the shared reference was built in out1 by an earlier run and is registered; run 1 is a --clean_start rerun in out1,
        # run 2 (out2) is handed the cached index and loads it
        def init(v):
            base_init(v, cfg_exists=True)
            import src.read_mapper as RM
            idx = o(1) + "/ref1_k%s_idx" % RM.KMER_SIZE["nanopore"]
            v.add(idx, "idx-of:x;end", mtime=33.0)
            v.files[CFG + "/index_config.json"].content = json.dumps({V + "data/ref1.fa": {
                "index_filename": idx, "reference_mtime": 21.0, "index_mtime": 33.0, "kmer_size": RM.KMER_SIZE["nanopore"]}})
        return [(1, g(1), o(1), True, "index"), (2, g(1), o(2), False, "index")], init
    if name == "clean-start-rerun-vs-cached-alignment":
        # the alignment of reads1.fq was made in out1 by an earlier run and is registered; run 1 is a --clean_start rerun in out1
        # (aligns anew), run 2 (out2) is handed the cached alignment and opens it
        def init(v):
            base_init(v, cfg_exists=True)
            aux = o(1) + "/OUT/aux"
            v.dirs.add(o(1) + "/OUT")
            v.dirs.add(aux)
            bam = aux + "/OUT_reads1_7.bam"
            v.add(bam, "bam-of:x;end", mtime=34.0)
            v.add(bam + ".bai", "bai-of:bam-of:x;end", mtime=34.2)
            v.add(aux + "/OUT_chr1_lock", "", mtime=34.5)
            key = "%s_aligned_to_%s" % (V + "data/reads1.fq", V + "data/ref1.mmi")
            v.files[CFG + "/alignment_config.json"].content = json.dumps({key: {
                "alignment_fpath": bam, "index_mtime": 21.0, "fastq_mtime": 21.0, "bam_mtime": 34.0, "ann_mtime": ""}})
        return [(1, g(1), o(1), True, "alignment"), (2, g(1), o(2), False, "alignment")], init
    if name == "star-gtf-two-databases-same-mtime":
        # two runs on two DIFFERENT databases that carry the same time stamp (copies made with cp -p / rsync -t / from one archive)
        def init(v):
            base_init(v, cfg_exists=True)
            v.add(V + "data/a.db", "db-A", mtime=40.0)
            v.add(V + "data/b.db", "db-B", mtime=40.0)
        return [(1, V + "data/a.db", o(1), False, "stargtf"), (2, V + "data/b.db", o(2), False, "stargtf")], init
    if name == "star-gtf-rewrite-vs-cached-reader":
        # the GTF export of a.db lies in out1 (an earlier run) and is registered; run 1 is a --clean_start rerun in out1 (exports again,
        # to the same path), run 2 (out2) is handed the cached export and reads it
        def init(v):
            base_init(v, cfg_exists=True)
            v.add(V + "data/a.db", "db-A", mtime=40.0)
            v.add(o(1) + "/a.gtf", expected_gtf("db-A"), mtime=41.0)
            v.files[CFG + "/db_config.json"].content = json.dumps({o(1) + "/a.gtf": {"genedb": V + "data/a.db", "gtf_mtime": 41.0, "db_mtime": 40.0,
                                                                                    "complete_db": True}})
        return [(1, V + "data/a.db", o(1), True, "stargtf"), (2, V + "data/a.db", o(2), False, "stargtf")], init
    if name == "reads-replaced-during-alignment":
        # the read file is replaced by another one while run 1 aligns it; run 2 works on the same path
        return [(1, g(1), o(1), False, "alignment"), ("editor", V + "data/reads1.fq", "x-second-flowcell"), (2, g(1), o(2), False, "alignment")], \
            lambda v: base_init(v, cfg_exists=True)
    if name == "alignment-two-files-vs-one":
        # run 1 maps an experiment of two read files, run 2 one of them: it may be handed run 1's first alignment while run 1 maps the second
        return [(1, g(1), o(1), False, "alignment2"), (2, g(1), o(2), False, "alignment")], lambda v: base_init(v, cfg_exists=True)
    if name == "alignment-other-options":
        # the same reads aligned by two runs with different alignment options (--stranded forward adds -uf)
        return [(1, g(1), o(1), False, "alignment"), (2, g(1), o(2), False, "alignment-uf")], lambda v: base_init(v, cfg_exists=True)
    if name == "alignment-two-fresh":
        return [(1, g(1), o(1), False, "alignment"), (2, g(1), o(2), False, "alignment")], lambda v: base_init(v, cfg_exists=True)
    if name == "reference-replaced-during-indexing":
        # the reference is replaced by a new assembly while run 1 builds its index; run 2 works on the same path
        return [(1, g(1), o(1), False, "index"), ("editor", V + "data/ref1.fa", "x-new-assembly"), (2, g(1), o(2), False, "index")], \
            lambda v: base_init(v, cfg_exists=True)
    if name == "fai-two-fresh":
        return [(1, g(1), o(1), False, "fai"), (2, g(1), o(2), False, "fai")], lambda v: base_init(v, cfg_exists=True)
    if name == "fai-stale-two":
        # the index next to the reference is older than the reference (the file was copied or downloaded again after indexing)
        def init(v):
            base_init(v, cfg_exists=True)
            v.add(V + "data/ref1.fa.fai", "fai-of:an-older-copy;end", mtime=2.0)
        return [(1, g(1), o(1), False, "fai"), (2, g(1), o(2), False, "fai")], init
    if name == "fai-three-fresh":
        return [(1, g(1), o(1), False, "fai"), (2, g(2), o(2), False, "fai"), (3, g(2), o(3), False, "fai")], lambda v: base_init(v, cfg_exists=True)
    if name == "index-two-fresh":
        return [(1, g(1), o(1), False, "index"), (2, g(1), o(2), False, "index")], lambda v: base_init(v, cfg_exists=True)
    if name == "failing-run-vs-valid":
        # run 1 is given an annotation the converter rejects (it fails, as it would alone); runs 2 and 3 are ordinary runs
        def init(v):
            base_init(v, cfg_exists=True)
            v.add(V + "data/bad1.gtf", "garbage", mtime=13.0)
        return [(1, V + "data/bad1.gtf", o(1), False, False), (2, g(2), o(2), False, False), (3, g(2), o(3), False, False)], init
    if name == "bed-of-replaced-db":
        # run 1 (out2) is handed the cached database of annot1.gtf (lying in out1) and exports the junction BED from it; meanwhile the
        # annotation is replaced by a new release and run 2 re-converts it into out1 (same database path); run 3 starts on the new release
        def init(v):
            base_init(v, cfg_exists=True)
            db = o(1) + "/annot1.db"
            v.add(db, "db-from:%s@%s" % (g(1), 11.0), mtime=31.0)
            v.files[CFG + "/db_config.json"].content = json.dumps({g(1): {"genedb": db, "gtf_mtime": 11.0, "db_mtime": 31.0, "complete_db": True}})
        return [(1, g(1), o(2), False, "annotation"), ("editor", g(1), "gtf1-new-release"), (2, g(1), o(1), False, False),
                (3, g(1), o(3), False, "annotation")], init
    if name == "same-gtf-different-completeness":
        # the same annotation converted with and without --complete_genedb: each run must use a conversion made with its own setting
        return [(1, g(1), o(1), False, False, False), (2, g(1), o(2), False, False, True)], lambda v: base_init(v)
    if name == "inferred-cached-vs-complete":
        def init(v):
            base_init(v, populated=[1])
            ent = json.loads(v.files[CFG + "/db_config.json"].content)
            ent[g(1)]["complete_db"] = False
            v.files[CFG + "/db_config.json"].content = json.dumps(ent)
            v.files[V + "old/annot1.db"].content += ":inferred"
            v.files[V + "old/annot1.db"].committed.add(v.files[V + "old/annot1.db"].content)
        return [(1, g(1), o(1), False, False, True), (2, g(1), o(2), False, False, False)], init
    if name == "reconvert-in-place-vs-hit":
        # the cached database lies in the output folder of an earlier run; a new run with --clean_start converts the same annotation into
        # that same folder again (in place) while another run has just been handed the cached file
        def init(v):
            base_init(v, cfg_exists=True)
            db = o(1) + "/annot1.db"
            v.add(db, "db-from:%s@%s" % (g(1), 11.0), mtime=31.0)
            v.files[CFG + "/db_config.json"].content = json.dumps({g(1): {"genedb": db, "gtf_mtime": 11.0, "db_mtime": 31.0, "complete_db": True}})
        return [(1, g(1), o(1), True, False), (2, g(1), o(2), False, False)], init
    if name == "other-annotation-into-cached-folder":
        # the cached database of annot1.gtf lies in out1 (an earlier, finished run); a new run converts ANOTHER annotation with the same
        # base name into out1 while a second run, working on annot1.gtf in out2, is handed the cached path
        def init(v):
            base_init(v, cfg_exists=True)
            db = o(1) + "/annot1.db"
            v.add(db, "db-from:%s@%s" % (g(1), 11.0), mtime=31.0)
            v.files[CFG + "/db_config.json"].content = json.dumps({g(1): {"genedb": db, "gtf_mtime": 11.0, "db_mtime": 31.0, "complete_db": True}})
            v.add(V + "other/annot1.gtf", "gtf-other", mtime=12.5)
        return [(1, V + "other/annot1.gtf", o(1), False, False), (2, g(1), o(2), False, False)], init
    if name == "three-processes":
        return [(1, g(1), o(1), False, False), (2, g(2), o(2), False, False), (3, g(3), o(3), False, False)], lambda v: base_init(v, cfg_exists=True)
    if name == "three-fresh":
        return [(1, g(1), o(1), False, False), (2, g(2), o(2), False, False), (3, g(1), o(3), False, False)], lambda v: base_init(v)
    raise KeyError(name)


def make_check(specs):
    def check(s):
        out = []
        for i, sp in enumerate(specs):
            if sp[0] == "editor":
                if s.errors[i] is not None:
                    out.append(("process-failed:editor", "the editor died with %r" % (s.errors[i],)))
                continue
            pid, gtf, outdir, clean, mapper = sp[:5]
            e = s.errors[i]
            if os.path.basename(gtf).startswith("bad"):
                # this run fails by itself, exactly as it does alone; it is here for what it leaves behind
                if e is None:
                    out.append(("bad-annotation-accepted", "process %d converted a malformed annotation" % pid))
                continue
            if e is not None:
                out.append(("process-failed:%s" % type(e).__name__, "process %d (%s) died with %r" % (pid, os.path.basename(gtf), e)))
                continue
            r = s.results[i]
            if mapper == "stargtf":
                if r["star_gtf"] not in (expected_gtf(r["db_content"]), expected_gtf(r["db_content_end"])):
                    out.append(("foreign-or-partial-gtf", "process %d hands %s to the aligner whose content is %r, expected the complete export "
                                "of its database %r" % (pid, r["star_gtf_path"], r["star_gtf"][:90], r["db_content"])))
                continue
            # the run's own input: the annotation as it was at some moment of the run (it can change only through an editor actor)
            exps = ["db-from:%s@%s%s" % (gtf, m, "" if r.get("complete", True) else ":inferred") for m in (r["gtf_mtime"], r["gtf_mtime_start"])]
            exp = exps[0]
            if r["db_content"] not in exps:
                out.append(("foreign-or-partial-db", "process %d uses %s whose content is %r, expected a conversion of its own input %r" %
                            (pid, r["db"], r["db_content"], exp)))
            if mapper == "fai":
                if r["fai_loaded"] not in ("fai-of:%s;end" % r["ref_start"], "fai-of:%s;end" % r["ref_end"]):
                    out.append(("foreign-or-partial-fai", "process %d loads the reference through an index whose content is %r, expected the "
                                "complete index of its reference" % (pid, r["fai_loaded"])))
                continue
            if mapper == "index":
                if r["index_content"] not in ("idx-of:%s;end" % r["ref_start"], "idx-of:%s;end" % r["ref_end"]):
                    out.append(("foreign-or-partial-index", "process %d loads the index %s whose content is %r, expected the complete index of its "
                                "reference" % (pid, r["index_path"], r["index_content"])))
            elif mapper in ("alignment", "alignment2", "alignment-uf"):
                if r["bai_content"] != "bai-of:" + r["bam_content"]:
                    out.append(("foreign-or-partial-alignment-index", "process %d opens %s.bai whose content is %r" % (pid, r["bam_path"], r["bai_content"])))
                if r["bam_content"] not in ("bam-of:%s%s;end" % (r["fq_start"], r["opt"]), "bam-of:%s%s;end" % (r["fq_end"], r["opt"])):
                    out.append(("foreign-or-partial-alignment", "process %d reads the alignment %s whose content is %r, expected the complete "
                                "alignment of its reads" % (pid, r["bam_path"], r["bam_content"])))
            elif mapper == "annotation":
                if r["bed_content"] not in (expected_bed(r["db_content"]), expected_bed(r["db_content_end"])):
                    out.append(("foreign-or-partial-bed", "process %d hands %s to the aligner whose content is %r, expected the complete export of "
                                "its database %r" % (pid, r["bed_path"], r["bed_content"], r["db_content"])))
            elif mapper:
                got = (r["index"], r["bed"], r["bam"])
                for name, gv, ev in zip(("index", "bed", "alignment"), got, r["expect"]):
                    if gv is not None and gv != ev:
                        out.append(("foreign-%s" % name, "process %d got cached %s %r, its own is %r" % (pid, name, gv, ev)))
        for (tid, path, data) in s.vfs.torn_reads:
            out.append(("torn-read:%s" % os.path.basename(path), "process %s read %r from %s while another process had it open for writing" %
                        (specs[tid][0], data[:40], os.path.basename(path))))
        for f in ("db_config.json", "index_config.json", "bed_config.json", "alignment_config.json"):
            vf = s.vfs.files.get(CFG + "/" + f)
            if vf is not None:
                try:
                    json.loads(vf.content)
                except Exception as e:  # noqa
                    out.append(("final-cache-invalid:%s" % f, "%s ends as %r (%s)" % (f, vf.content[:60], e)))
        return out
    return check


_RM_ORIG = {}
_DP_ORIG = {}


def restore_fasta():
    """the pyfaidx stand-in of the fai scenarios must not survive into another scenario or a real run of the same worker"""
    import src.dataset_processor as DP_
    if "Fasta" not in _DP_ORIG:
        _DP_ORIG["Fasta"] = DP_.Fasta if DP_.Fasta is not FakeFasta else __import__("pyfaidx").Fasta
    DP_.Fasta = _DP_ORIG["Fasta"]


def run_scenario(args):
    name, bound, max_exec = args
    import gffutils
    import src.gtf2db  # noqa
    import src.read_mapper as RM
    # a worker process runs several scenarios: stand-ins installed by an earlier one must not survive into the next
    if not _RM_ORIG:
        _RM_ORIG.update({k: getattr(RM, k) for k in ("get_aligner", "subprocess", "pysam", "find_annotation", "align_fasta", "index_reference")})
    for k, v in _RM_ORIG.items():
        setattr(RM, k, v)
    restore_fasta()
    gffutils.create_db = fake_create_db
    gffutils.FeatureDB = FakeFeatureDB
    os.environ["HOME"] = HOME
    import tempfile
    tempfile.tempdir = V + "tmp"          # the per-user temporary directory is shared state too: it lives in the virtual FS
    specs, init0 = scenario(name)

    def init(vfs):
        init0(vfs)
        vfs.dirs.add(V + "tmp")
    ip = schedfs.Interposer()
    ip.install()
    try:
        stats, viols = schedfs.explore(lambda: [build(sp) for sp in specs], init, make_check(specs), bound=bound,
                                       max_exec=max_exec, interposer=ip)
    finally:
        ip.uninstall()
    return name, bound, stats, viols


def shared_files_case(args):
    """two complete pipeline runs, one after the other, under one HOME with separate output folders (real file system): whatever the
       second run shares with the first one (the inputs and their neighbours, the per-user configuration, the first run's folder) is
       either left alone or replaced by a new file - never rewritten in place, where a run that is still reading it would see it torn"""
    gz, scratch = args
    import shutil
    from vlib import syn, run
    from vlib import worlds as W
    restore_fasta()
    d = os.path.join(scratch, "c20_shared_%d" % gz)
    shutil.rmtree(d, ignore_errors=True)
    w = W.mixed_world(1, groups=False, multimappers=False)
    paths = syn.materialise(w, d, gz_ref=bool(gz))
    errs = []

    def snap():
        st = {}
        for root, _, files in os.walk(d):
            if root.startswith(os.path.join(d, "out2")):
                continue
            for f in files:
                p_ = os.path.join(root, f)
                s_ = os.stat(p_)
                st[p_] = (s_.st_ino, s_.st_mtime_ns, s_.st_size)
        return st
    rc1 = run.run_isoquant(run.base_argv(paths, os.path.join(d, "out1")), paths["home"], os.path.join(d, "o1.txt"))
    before = snap()
    rc2 = run.run_isoquant(run.base_argv(paths, os.path.join(d, "out2")), paths["home"], os.path.join(d, "o2.txt"))
    after = snap()
    if rc1 or rc2:
        errs.append(("run-failed", "exit codes %d / %d" % (rc1, rc2)))
    for p_, (ino, mt, sz) in sorted(before.items()):
        if p_.endswith("o2.txt") or p_ not in after:
            continue
        ino2, mt2, sz2 = after[p_]
        if ino2 == ino and (mt2, sz2) != (mt, sz):
            errs.append(("shared-file-rewritten-in-place:%s" % os.path.basename(p_).replace("out1", ""),
                         "the second run rewrote %s in place (same inode, new time stamp): a run reading it at that moment sees it half-written" %
                         os.path.relpath(p_, d)))
    shutil.rmtree(d, ignore_errors=True)
    return ("shared-files", gz), errs


def borrowed_db_history_case(args):
    """a history of four runs under one HOME (real file system): C converts annotation X into its folder; A (other folder, same X) borrows
       that conversion through the per-user cache and is killed; the owner of C's folder runs there again with ANOTHER annotation of the
       same file name (or removes the folder); A is resumed.  The resumed run must give what a run on X gives alone"""
    kill_at, owner, scratch = args
    import shutil
    from vlib import syn, run
    from vlib import worlds as W
    from props import c12
    restore_fasta()
    d = os.path.join(scratch, "c20_hist_%s_%s" % (kill_at, owner))
    shutil.rmtree(d, ignore_errors=True)
    w = W.mixed_world(1, groups=False, multimappers=False)
    paths = syn.materialise(w, os.path.join(d, "projX"))
    w2 = W.mixed_world(1, groups=False, multimappers=False)
    w2["genes"] = [g for g in w2["genes"] if g["id"] != "GA0"]
    os.makedirs(os.path.join(d, "projY"))
    other = syn.write_gtf(w2, os.path.join(d, "projY", "annot.gtf"))
    home, home0 = os.path.join(d, "home"), os.path.join(d, "home0")
    os.makedirs(home)
    os.makedirs(home0)
    errs = []
    outA, outC, outS = os.path.join(d, "outA"), os.path.join(d, "outC"), os.path.join(d, "solo")
    rcs = run.run_isoquant(run.base_argv(paths, outS), home0, os.path.join(d, "solo.txt"))
    rcc = run.run_isoquant(run.base_argv(paths, outC), home, os.path.join(d, "c.txt"))

    def kill_hook():
        import src.dataset_processor as DP
        if kill_at == "after-conversion":
            def die(self, *a, **k):
                os._exit(9)
            DP.DatasetProcessor.process_all_samples = die
        else:
            orig = DP.DatasetProcessor.collect_reads

            def die2(self, *a, **k):
                orig(self, *a, **k)
                os._exit(9)
            DP.DatasetProcessor.collect_reads = die2
    rca = run.run_isoquant(run.base_argv(paths, outA), home, os.path.join(d, "a.txt"), pre_hook=kill_hook)
    borrowed = "Gene annotation file found" in open(os.path.join(d, "a.txt")).read()
    if rcs or rcc or rca != 9:
        # ordinary runs of the history that fail are violations themselves (each of them succeeds alone)
        msg = "solo run exit %d, run C exit %d, run A exit %d (9 = killed by the harness): %s" % (
            rcs, rcc, rca, open(os.path.join(d, "solo.txt" if rcs else ("c.txt" if rcc else "a.txt"))).read()[-300:])
        shutil.rmtree(d, ignore_errors=True)
        return ("history", kill_at, owner), [("history:run-failed", msg)]
    if not borrowed:
        shutil.rmtree(d, ignore_errors=True)
        raise core.HarnessError("history set-up failed: run A did not borrow C's conversion")
    if owner == "other-annotation":
        av = run.base_argv(paths, outC) + ["--force"]
        av[av.index("--genedb") + 1] = other
        rc = run.run_isoquant(av, home, os.path.join(d, "c2.txt"))
        if rc:
            errs.append(("history:owner-run-failed", "the second run in C's folder exit %d" % rc))
    else:
        shutil.rmtree(outC)
    rc = run.run_isoquant(["--resume", "--output", outA], home, os.path.join(d, "a2.txt"))
    if rc != 0:
        errs.append(("history:resume-failed", "resumed run exit %d: %s" % (rc, open(os.path.join(d, "a2.txt")).read()[-300:])))
    else:
        t0, t1 = run.read_tree(os.path.join(outS, "OUT")), run.read_tree(os.path.join(outA, "OUT"))
        for k, what in c12.tree_diff(t0, t1):
            errs.append(("history:resumed-differs:%s" % k.split("OUT.")[-1], "%s of the resumed run differs from the run alone: %s" % (k, what)))
    shutil.rmtree(d, ignore_errors=True)
    return ("history", kill_at, owner), errs


def run(ctx):
    quick = ctx.tier == "quick"
    hj = [(k_, o_, ctx.scratch) for k_ in ("after-conversion", "after-collection") for o_ in ("other-annotation", "folder-removed")]
    for key, errs in core.pmap(borrowed_db_history_case, hj):
        for k, msg in errs:
            ctx.violation(k, "run A borrows C's conversion, is killed %s, C's owner: %s, A is resumed: %s" % (key[1], key[2], msg), {"history": list(key[1:])})
    ctx.note("borrowed-conversion histories (4 real runs + resume each): %d" % len(hj))
    for key, errs in core.pmap(shared_files_case, [(0, ctx.scratch), (1, ctx.scratch)]):
        for k, msg in errs:
            ctx.violation(k, "two runs in a row (%s reference): %s" % ("gzipped" if key[1] else "plain", msg), {"shared_files": key[1]})
    jobs = []
    two = ["fresh-home-different-gtf", "fresh-home-same-gtf", "existing-config-different-gtf", "cache-hit-vs-miss", "clean-start-vs-hit",
           "same-gtf-different-completeness", "inferred-cached-vs-complete", "reconvert-in-place-vs-hit", "other-annotation-into-cached-folder"]
    # thorough: bound 4 needs ~3 min per fresh-home scenario (5*10^4 executions, 3*10^5 states); unbounded exploration of the
    # fresh-home scenarios did not finish within 50 minutes and is therefore not claimed
    for n in two:
        jobs.append((n, 3 if quick else 4, 60000 if quick else 400000))
    jobs.append(("mapper-caches", 2 if quick else 3, 60000 if quick else 400000))
    jobs.append(("bed-export-from-cached-db", 3 if quick else 4, 60000 if quick else 400000))
    jobs.append(("bed-rewrite-vs-cached-reader", 3 if quick else 4, 60000 if quick else 400000))
    jobs.append(("index-clean-start-vs-cached", 3 if quick else 4, 60000 if quick else 400000))
    jobs.append(("index-two-fresh", 2 if quick else 3, 60000 if quick else 400000))
    jobs.append(("fai-two-fresh", 2 if quick else 3, 60000 if quick else 400000))
    jobs.append(("fai-three-fresh", 1 if quick else 2, 60000 if quick else 400000))
    jobs.append(("fai-stale-two", 2 if quick else 3, 60000 if quick else 400000))
    jobs.append(("clean-start-rerun-vs-cached-alignment", 3 if quick else 4, 60000 if quick else 400000))
    jobs.append(("alignment-two-fresh", 2 if quick else 3, 60000 if quick else 400000))
    jobs.append(("alignment-other-options", 1 if quick else 2, 60000 if quick else 400000))
    jobs.append(("alignment-two-files-vs-one", 2 if quick else 3, 60000 if quick else 400000))
    jobs.append(("reads-replaced-during-alignment", 1 if quick else 2, 60000 if quick else 400000))
    jobs.append(("star-gtf-two-databases-same-mtime", 2 if quick else 3, 60000 if quick else 400000))
    jobs.append(("star-gtf-rewrite-vs-cached-reader", 3 if quick else 4, 60000 if quick else 400000))
    jobs.append(("reference-replaced-during-indexing", 1 if quick else 2, 60000 if quick else 400000))
    jobs.append(("gtf-rewritten-during-conversion", 2 if quick else 3, 60000 if quick else 400000))
    jobs.append(("three-processes", 1 if quick else 2, 60000 if quick else 400000))
    jobs.append(("failing-run-vs-valid", 1 if quick else 2, 60000 if quick else 400000))
    jobs.append(("bed-of-replaced-db", 1 if quick else 2, 60000 if quick else 400000))
    if not quick:
        jobs.append(("three-fresh", 1, 400000))
    tot = {"executions": 0, "states": 0, "transitions": 0, "complete": 0}
    per = {}
    exhaustive = True
    samples = []
    for name, bound, stats, viols in core.pmap(run_scenario, jobs):
        for k in tot:
            tot[k] += stats[k]
        per[name] = dict(stats, preemption_bound=bound)
        if stats["capped"]:
            exhaustive = False
        ctx.note("%s: bound=%s executions=%d complete=%d states=%d transitions=%d depth=%d outcomes=%d%s" %
                 (name, bound, stats["executions"], stats["complete"], stats["states"], stats["transitions"], stats["max_depth"],
                  stats["distinct_outcomes"], " CAPPED" if stats["capped"] else ""))
        for key, msg, sched in viols:
            if name == "other-annotation-into-cached-folder" and key == "foreign-or-partial-db" and "content is 'db-from:/vfs/other/annot1.gtf@12.5'" in msg:
                key += ":cached-path-overwritten-by-another-annotation"      # a complete conversion, of the other run's input
            ctx.violation(key, "scenario %s: %s; schedule %s" % (name, msg, sched), {"scenario": name, "bound": bound, "schedule": sched})
            if len(samples) < 2:
                samples.append({"scenario": name, "schedule": sched})
    ctx.coverage.update({
        "states": tot["states"], "transitions": tot["transitions"], "traces_validated_against_impl": tot["executions"],
        "schedules_completed": tot["complete"], "per_scenario": per, "exhaustive": exhaustive,
        "samples": samples or [{"scenario": jobs[0][0], "schedule": "default (process 1 runs to completion, then process 2)"}],
        "evaluations": tot["executions"], "distinct_nontrivial": tot["states"],
        "rule": "state = (virtual FS content incl. open-for-write flags, per-process history of observed results, finished flags, pending "
                "operations); transition = one file-system operation of one process; every explored trace is an execution of the real functions",
    })
    ctx.assumptions += [
        "visibility model: open('w') truncates at once, buffered writes become visible at close (files are far below the 8 KB buffer), "
        "os.replace is atomic; one scheduling point per file-system call",
        "gffutils.create_db is replaced by remove-if-exists + create + write in the virtual FS; index/BED/alignment caches are driven at "
        "function level (minimap2 absent)",
        "a lost cache entry (another run overwrote the JSON with its snapshot) is not a violation: the statement only forbids half-written "
        "observations, failures and foreign conversions",
    ]


def replay(ctx, case):
    if "history" in case:
        key, errs = borrowed_db_history_case(tuple(case["history"]) + (ctx.scratch,))
        return errs[0][1] if errs else None
    if "shared_files" in case:
        key, errs = shared_files_case((case["shared_files"], ctx.scratch))
        return errs[0][1] if errs else None
    import gffutils
    gffutils.create_db = fake_create_db
    gffutils.FeatureDB = FakeFeatureDB
    os.environ["HOME"] = HOME
    import tempfile
    tempfile.tempdir = V + "tmp"
    specs, init0 = scenario(case["scenario"])

    def init(vfs):
        init0(vfs)
        vfs.dirs.add(V + "tmp")
    ip = schedfs.Interposer()
    ip.install()
    try:
        s = schedfs.Scheduler([build(sp) for sp in specs], init, case["schedule"])
        ip.sched = s
        s.run()
        ip.sched = None
        v = make_check(specs)(s)
    finally:
        ip.uninstall()
    return v[0][1] if v else None
