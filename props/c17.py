"""C17 — identifiers in the outputs are unique, collision-free and functional.

L1: explicit-state search (BFS, state = id table) over all call histories <=k of the real FeatureIdStorage.get_id /
ExcludingIdDistributor.increment built from gffutils databases with reference exon_id attributes and IsoQuant-style
reference ids (transcript7.chr1.nic, novel_gene_chr1_3, look-alikes).
L2: pipeline on multi-chromosome worlds with novel exons shared by several transcripts and fixed-point iteration
(the extended annotation of run n is the reference of run n+1).
"""
import itertools
import os
import shutil

from vlib import core

LEVEL = "model_checking"


def id_world():
    from vlib import syn
    w = {"chroms": {"chr1": 6000, "chr2": 5000},
         "genes": [
             {"id": "novel_gene_chr1_3", "chr": "chr1", "strand": "+", "transcripts": [
                 {"id": "transcript7.chr1.nic", "exons": [[101, 200], [401, 500]],
                  "exon_ids": {"101-200": "chr1.1", "401-500": "chr1.2"}},
                 {"id": "transcript2.chr1.nnic", "exons": [[101, 200], [601, 700]],
                  "exon_ids": {"101-200": "chr1.1", "601-700": "chr1.4"}}]},
             {"id": "novel_gene_x", "chr": "chr1", "strand": "-", "transcripts": [
                 {"id": "transcriptome1", "exons": [[1101, 1200]], "exon_ids": {"1101-1200": "E_custom"}},
                 {"id": "transcript12", "exons": [[1301, 1400]]}]},
             {"id": "G5", "chr": "chr2", "strand": "+", "transcripts": [
                 {"id": "transcript1.chr2.nic", "exons": [[101, 200], [401, 500]], "exon_ids": {"101-200": "chr2.1"}}]},
             {"id": "novel_gene_chr2_2", "chr": "chr2", "strand": "+", "transcripts": [
                 {"id": "T9", "exons": [[2101, 2200]]}]},
         ]}
    return w


def l1_search(scratch, depth):
    import gffutils
    from vlib import syn
    from src.id_policy import FeatureIdStorage, ExcludingIdDistributor, SimpleIDDistributor
    w = id_world()
    gtf = syn.write_gtf(w, os.path.join(scratch, "ids.gtf"))
    db = gffutils.FeatureDB(syn.build_db(gtf, os.path.join(scratch, "ids.db")))
    ref_exon_ids = {}
    for g in w["genes"]:
        for t in g["transcripts"]:
            for k, v in (t.get("exon_ids") or {}).items():
                s, e = map(int, k.split("-"))
                ref_exon_ids[(g["chr"], s, e, g["strand"])] = v
    # ---- operations: get_id on the storage of chr1 or chr2 (one storage per chromosome, as in the pipeline)
    keys = []
    for chrom in ("chr1", "chr2"):
        for ex in ((101, 200), (401, 500), (3001, 3100)):       # two reference exons, one novel
            for strand in ("+", "-"):
                keys.append((chrom, ex, strand))
    bad = []
    states = transitions = 0

    def build(hist):
        st = {c: FeatureIdStorage(SimpleIDDistributor(), db, c, "exon") for c in ("chr1", "chr2")}
        rets = []
        for (c, ex, s) in hist:
            rets.append(st[c].get_id(c, ex, s))
        return st, rets

    def canon(st):
        return tuple(sorted((k, str(v)) for c in st for k, v in st[c].id_dict.items())) + \
            tuple(st[c].id_distributor.value for c in sorted(st))

    def invariant(hist, rets):
        seen = {}
        for (c, ex, s), r in zip(hist, rets):
            k = (c, ex[0], ex[1], s)
            if not isinstance(r, str):
                return "get_id%s returned %r (not the stored identifier string)" % ((c, ex, s), r)
            if k in seen and seen[k] != r:
                return "get_id%s returned %r, earlier call returned %r (id is not a function of the exon)" % ((c, ex, s), r, seen[k])
            seen[k] = r
            if k in ref_exon_ids and r != ref_exon_ids[k]:
                return "reference exon_id %r of %s not preserved (got %r)" % (ref_exon_ids[k], k, r)
        inv = {}
        allids = dict(ref_exon_ids)
        allids.update(seen)
        for k, r in allids.items():
            if r in inv and inv[r] != k:
                return "exons %s and %s share id %r" % (inv[r], k, r)
            inv[r] = k
        return None
    frontier = [()]
    seen_states = set()
    st0, _ = build(())
    seen_states.add(canon(st0))
    samples = []
    while frontier:
        nxt = []
        for hist in frontier:
            states += 1
            if len(hist) >= depth:
                continue
            for op in keys:
                transitions += 1
                h2 = hist + (op,)
                st, rets = build(h2)
                err = invariant(h2, rets)
                if err:
                    bad.append((h2, err))
                    continue
                c = (canon(st), rets[-1])
                # states with equal id tables and counters have equal futures; the last return value is kept in the
                # key so that a wrong return on a revisited table is still explored once
                if c not in seen_states:
                    seen_states.add(c)
                    nxt.append(h2)
                    if len(samples) < 3 and len(h2) == depth:
                        samples.append([list(map(str, o)) for o in h2])
        frontier = nxt
    # ---- ExcludingIdDistributor: allocated numbers avoid every reference number of the chromosome
    ref_numbers = {"chr1": {3, 7, 2, 12}, "chr2": {1, 2}}
    for chrom in ("chr1", "chr2"):
        d = ExcludingIdDistributor(db, chrom)
        got = [d.increment() for _ in range(8)]
        states += 8
        transitions += 8
        if set(got) & ref_numbers[chrom]:
            bad.append((("increment", chrom), "allocated %s collides with reference numbers %s" % (got, sorted(ref_numbers[chrom]))))
        if len(set(got)) != len(got) or got != sorted(got):
            bad.append((("increment", chrom), "allocated numbers not strictly increasing: %s" % got))
    # the same annotation on chromosomes whose NAMES contain the separators of the id scheme (transcript<N>.<chr>.nic,
    # novel_gene_<chr>_<N>): alternative contigs (KI270728.1), names with underscores, and both
    import json
    for n1, n2 in (("KI270728.1", "GL000194.1"), ("chr_un_1", "chrUn_KI270442v1"), ("HLA.A_1", "2.1_x")):
        w2 = json.loads(json.dumps(w).replace("chr1", n1).replace("chr2", n2))
        tag = "ids_%s" % n1.replace(".", "-")
        db2 = gffutils.FeatureDB(syn.build_db(syn.write_gtf(w2, os.path.join(scratch, tag + ".gtf")), os.path.join(scratch, tag + ".db")))
        for chrom, key in ((n1, "chr1"), (n2, "chr2")):
            d = ExcludingIdDistributor(db2, chrom)
            got = [d.increment() for _ in range(8)]
            states += 8
            transitions += 8
            if set(got) & ref_numbers[key]:
                bad.append((("increment", chrom), "allocated %s collides with reference numbers %s (chromosome named %s)" % (got, sorted(ref_numbers[key]), chrom)))
    d = ExcludingIdDistributor(None, "chr1")
    if [d.increment() for _ in range(3)] != [1, 2, 3]:
        bad.append((("increment", None), "annotation-free distributor does not count 1,2,3"))
    return states, transitions, bad, samples


# ------------------------------------------------------------------------------------------------ L2 pipeline
CDS_SHIFT = 40


def add_cds_records(w, gtf):
    """append CDS / UTR records to the reference: each one carries the exon_id of the exon it lies in (as in Ensembl files); the CDS of
    the second exon starts CDS_SHIFT bases inside it"""
    g1 = [g for g in w["genes"] if g["id"] == "G1"][0]
    lines = []
    for t in g1["transcripts"]:
        for i, (s_, e_) in enumerate(t["exons"]):
            eid = t["exon_ids"]["%d-%d" % (s_, e_)]
            a = 'gene_id "G1"; transcript_id "%s"; exon_number "%d"; exon_id "%s";' % (t["id"], i + 1, eid)
            cs = s_ + CDS_SHIFT if (s_, e_) == tuple(W_slot(1000, 1)) else s_
            lines.append("\t".join([g1["chr"], "SYN", "CDS", str(cs), str(e_), ".", g1["strand"], "0", a + ' protein_id "P%s";' % t["id"]]))
            if cs > s_:
                lines.append("\t".join([g1["chr"], "SYN", "five_prime_utr", str(s_), str(cs - 1), ".", g1["strand"], ".", a]))
    with open(gtf, "a") as f:
        f.write("\n".join(lines) + "\n")


def W_slot(base, i):
    from vlib import worlds as W
    return W.slot(base, i)


def pipeline_world(variant):
    from vlib import syn, worlds as W
    w = W.base_world(2, 9000)
    w["genes"].append(W.locus_gene("G1", "chr1", "+", 1000, {"T1": [0, 1, 2, 3, 4], "T2": [0, 2, 3, 4]}))
    w["genes"].append(W.locus_gene("G2", "chr2", "-", 1000, {"T4": [0, 1, 2, 3]}))
    syn.plant_for_transcripts(w)
    reads = []
    # known
    for i in range(3):
        reads.append(W.read_of("k1_%d" % i, "chr1", W.exons(1000, [0, 1, 2, 3, 4])))
        reads.append(W.read_of("k4_%d" % i, "chr2", W.exons(1000, [0, 1, 2, 3]), strand="-"))
    # the known isoform T1 is supported by a second full-length path: reads whose first intron is shifted as a whole by 10 bp
    ks = W.exons(1000, [0, 1, 2, 3, 4])
    ks[0][1] += 10
    ks[1][0] += 10
    W.add_sites_for_blocks(w, "chr1", ks[:2], "+")
    for i in range(4):
        reads.append(W.read_of("ks_%d" % i, "chr1", ks))
    # novel unspliced transcripts (reported with --report_novel_unspliced true): polyA reads on chr1, polyT-headed '-' reads on chr2
    for i in range(5):
        reads.append(W.read_of("mu1_%d" % i, "chr1", [[7601, 8200]]))
        reads.append(W.read_of("mu2_%d" % i, "chr2", [[7201, 7700]], strand="-"))
    # novel in catalog on chr1: skip slot 3; two novel isoforms sharing a novel exon (slot 5 is unannotated) on chr1
    nov_a = W.exons(1000, [0, 1, 2, 4])
    nov_b = W.exons(1000, [0, 1, 2, 3, 4, 5])
    nov_c = W.exons(1000, [0, 2, 3, 4, 5])
    W.add_sites_for_blocks(w, "chr1", nov_b, "+")
    W.add_sites_for_blocks(w, "chr1", nov_c, "+")
    for i in range(5):
        reads.append(W.read_of("na_%d" % i, "chr1", nov_a))
        reads.append(W.read_of("nb_%d" % i, "chr1", nov_b))
        reads.append(W.read_of("nc_%d" % i, "chr1", nov_c))
    # novel on chr2, '-' strand, plus an intergenic novel gene on both chromosomes with the same coordinates
    nov_d = W.exons(1000, [0, 1, 3])
    W.add_sites_for_blocks(w, "chr2", nov_d, "-")
    inter = W.exons(5000, [0, 1, 2])
    W.add_sites_for_blocks(w, "chr1", inter, "+")
    W.add_sites_for_blocks(w, "chr2", inter, "+")
    for i in range(5):
        reads.append(W.read_of("nd_%d" % i, "chr2", nov_d, strand="-"))
        reads.append(W.read_of("ig1_%d" % i, "chr1", inter))
        reads.append(W.read_of("ig2_%d" % i, "chr2", inter))
    # an annotated gene whose reads form two disjoint clusters, each giving a model of that gene (gene record must stay unique)
    from vlib import mix
    w["genes"].append({"id": "G6", "chr": "chr1", "strand": "+", "transcripts": [{"id": "T8", "exons": [list(e) for e in mix.G6_EXONS]}]})
    syn.plant_for_transcripts(w)
    W.add_sites_for_blocks(w, "chr1", [mix.G6_EXONS[i] for i in (0, 2, 3)], "+")
    W.add_sites_for_blocks(w, "chr1", [mix.G6_EXONS[i] for i in (4, 6, 7)], "+")
    for i in range(6):
        reads.append(W.read_of("h1_%d" % i, "chr1", [mix.G6_EXONS[k] for k in (0, 2, 3)]))
        reads.append(W.read_of("h2_%d" % i, "chr1", [mix.G6_EXONS[k] for k in (4, 6, 7)]))
        # reads of the annotated isoform T8 itself, again in two disjoint clusters (exons 1-4 / 5-8): the reference id is reported once
        reads.append(W.read_of("f1_%d" % i, "chr1", [mix.G6_EXONS[k] for k in (0, 1, 2, 3)], polya=False))
        reads.append(W.read_of("f2_%d" % i, "chr1", [mix.G6_EXONS[k] for k in (4, 5, 6, 7)]))
    if variant in ("extra", "dotted"):
        nov_e = W.exons(1000, [1, 2, 3, 4, 5])
        W.add_sites_for_blocks(w, "chr1", nov_e, "+")
        for i in range(5):
            reads.append(W.read_of("ne_%d" % i, "chr1", nov_e))
    if variant == "cds":
        # an Ensembl-like reference: every exon of G1 has an exon_id, and the CDS records (written by pipeline_case) repeat the id of
        # the exon they lie in; a novel isoform uses an acceptor exactly at the CDS start inside the second exon
        g1 = [g for g in w["genes"] if g["id"] == "G1"][0]
        for t in g1["transcripts"]:
            t["exon_ids"] = dict(("%d-%d" % (s_, e_), "ENSE%08d" % s_) for s_, e_ in t["exons"])
        nov_f = W.exons(1000, [0, 1, 2, 3, 4])
        nov_f[1][0] += CDS_SHIFT
        W.add_sites_for_blocks(w, "chr1", nov_f, "+")
        for i in range(6):
            reads.append(W.read_of("nf_%d" % i, "chr1", nov_f))
    if variant == "lifted":
        # a reference lifted from another assembly: a transcript that now lies on chr2 carries exon ids (and a transcript id) that an
        # earlier IsoQuant run made up when the locus was part of chr1
        g2 = [g for g in w["genes"] if g["id"] == "G2"][0]
        t4 = g2["transcripts"][0]
        t4["id"] = "transcript1.chr1.nnic"
        t4["exon_ids"] = dict(("%d-%d" % (s_, e_), "chr1.%d" % (i + 1)) for i, (s_, e_) in enumerate(t4["exons"]))
    W.dedup_sites(w)
    w["reads"] = reads
    if variant == "dotted":
        # chromosome names that contain the separators of the id scheme (an alternative contig and a name with underscores)
        import json
        w = json.loads(json.dumps(w).replace('"chr1"', '"KI270728.1"').replace('"chr2"', '"chrUn_GL000194v1"'))
    return w


def gtf_id_errors(path, ref_transcripts=None, ref_genes=None, exon_table=None, label=""):
    from vlib import run
    recs = run.parse_gtf(path)
    errs = []
    gene_recs = {}
    tr_recs = {}
    for r in recs:
        if r["type"] == "gene":
            gid = r["attrs"].get("gene_id")
            gene_recs[gid] = gene_recs.get(gid, 0) + 1
        elif r["type"] == "transcript":
            tid = r["attrs"].get("transcript_id")
            tr_recs[tid] = tr_recs.get(tid, 0) + 1
        elif r["type"] == "exon":
            eid = r["attrs"].get("exon_id")
            key = (r["chr"], r["start"], r["end"], r["strand"])
            if eid is None:
                errs.append(("exon-without-id", "%s exon %s has no exon_id" % (label, key)))
                continue
            if exon_table is not None:
                fwd, rev = exon_table
                if key in fwd and fwd[key] != eid:
                    errs.append(("exon-id-not-functional", "%s exon %s carries exon_id %r and %r" % (label, key, fwd[key], eid)))
                if eid in rev and rev[eid] != key:
                    errs.append(("exon-id-collision", "%s exon_id %r used for %s and %s" % (label, eid, rev[eid], key)))
                fwd.setdefault(key, eid)
                rev.setdefault(eid, key)
    for gid, c in gene_recs.items():
        if c > 1:
            errs.append(("gene-id-duplicate", "%s gene_id %s has %d gene records" % (label, gid, c)))
    for tid, c in tr_recs.items():
        if c > 1:
            errs.append(("transcript-id-duplicate", "%s transcript_id %s has %d transcript records" % (label, tid, c)))
    return errs, set(gene_recs), set(tr_recs)


READ_SETS = {"all": None,
             "R0": ("k1", "ks", "k4", "na", "nd", "ig1", "h1", "f1", "f2"),
             "R1": ("k1", "k4", "nb", "ig2", "h2", "f1", "mu1", "mu2"),
             "R2": ("k1", "k4", "nc", "ne", "ig1", "ig2", "f2"),
             # R3 creates ids on the second chromosome only, R4 then builds novel models on both (per-chromosome reservations differ)
             "R3": ("k1", "k4", "nd"),
             "R4": ("k1", "k4", "na", "ig2")}


def pipeline_case(args):
    variant, strategy, iterations, scratch = args
    from vlib import syn, run
    # iterations: a number (the same reads every time: fixed-point chain) or a history of read-set names, one per iteration
    history = tuple(iterations) if not isinstance(iterations, int) else ("all",) * iterations
    iterations = len(history)
    d = os.path.join(scratch, "p_%s_%s_%s" % (variant, strategy, "".join(history)))
    shutil.rmtree(d, ignore_errors=True)
    w = pipeline_world(variant)
    paths = syn.materialise(w, d)
    errs = []
    gtf = paths["gtf"]
    if variant == "cds":
        add_cds_records(w, gtf)
    ref_exon = {}
    nruns = 0
    novel_total = 0
    seqs = syn.genome_sequences(w)
    for it in range(iterations):
        out = os.path.join(d, "out%d" % it)
        bam = paths["bam"]
        if READ_SETS[history[it]] is not None:
            sub = [r for r in w["reads"] if r["name"].split("_")[0] in READ_SETS[history[it]]]
            bam = syn.write_bam(w, os.path.join(d, "reads_it%d.bam" % it), reads=sub, seqs=seqs)
        argv = ["--output", out, "--reference", paths["ref"], "--bam", bam, "--data_type", "nanopore",
                "--prefix", "OUT", "--threads", "1", "--genedb", gtf, "--complete_genedb",
                "--model_construction_strategy", strategy, "--report_novel_unspliced", "true"]
        rc = run.run_isoquant(argv, paths["home"], os.path.join(d, "o%d.txt" % it))
        nruns += 1
        if rc != 0:
            errs.append(("run-failed", "iteration %d exit %d: %s" % (it, rc, open(os.path.join(d, "o%d.txt" % it)).read()[-300:])))
            break
        ref = run.parse_gtf(gtf)
        ref_t = set(r["attrs"].get("transcript_id") for r in ref if r["type"] == "transcript")
        ref_g = set(r["attrs"].get("gene_id") for r in ref if r["type"] == "gene")
        ref_exon_ids = {}
        for r in ref:
            if r["type"] == "exon" and "exon_id" in r["attrs"]:
                ref_exon_ids[(r["chr"], r["start"], r["end"], r["strand"])] = r["attrs"]["exon_id"]
        table = ({}, {})
        for k, v in ref_exon_ids.items():
            table[0][k] = v
            table[1].setdefault(v, k)
        mg = os.path.join(out, "OUT", "OUT.transcript_models.gtf")
        eg = os.path.join(out, "OUT", "OUT.extended_annotation.gtf")
        e1, g1, t1 = gtf_id_errors(mg, exon_table=table, label="it%d transcript_models" % it)
        e2, g2, t2 = gtf_id_errors(eg, exon_table=table, label="it%d extended_annotation" % it)
        errs += e1 + e2
        recs = run.gtf_transcripts(run.parse_gtf(mg))
        ref_tr = run.gtf_transcripts(ref)
        for tid, t in recs.items():
            if tid in ref_tr:
                if sorted(t["exons"]) != sorted(ref_tr[tid]["exons"]):
                    errs.append(("novel-id-equals-reference-id", "it%d: model %s has a reference id but exons %s != reference %s" %
                                 (it, tid, sorted(t["exons"]), sorted(ref_tr[tid]["exons"]))))
            else:
                novel_total += 1
                if t["gene"] not in ref_g and not str(t["gene"]).startswith("novel_gene"):
                    errs.append(("novel-gene-name", "it%d: %s gene %s" % (it, tid, t["gene"])))
        novel_genes = g1 - ref_g
        for g in novel_genes:
            if g in ref_g:
                errs.append(("novel-gene-id-collision", g))
        # a novel gene id must not be reused for an unrelated locus of the reference: covered by duplicate gene records in extended
        gtf = os.path.join(d, "ref_it%d.gtf" % (it + 1))
        shutil.copy(eg, gtf)
    shutil.rmtree(d, ignore_errors=True)
    if variant == "lifted":
        errs = [(k + ":id-names-another-chromosome", m) for k, m in errs]
    return variant, strategy, nruns, novel_total, [(k, ("reads per iteration %s: " % list(history)) + m) for k, m in errs]


def joint_case(args):
    """several experiments in ONE invocation (YAML), each with another read set of the same loci: every output file of every experiment
       obeys the id rules (what an experiment found must not show up in the files of the next one)"""
    variant, strategy, sets, scratch = args
    from vlib import syn, run
    import yaml
    d = os.path.join(scratch, "j_%s_%s_%s" % (variant, strategy, "".join(sets)))
    shutil.rmtree(d, ignore_errors=True)
    w = pipeline_world(variant)
    paths = syn.materialise(w, d)
    seqs = syn.genome_sequences(w)
    items = [{"data format": "bam"}]
    for i, sname in enumerate(sets):
        sub = [r for r in w["reads"] if READ_SETS[sname] is None or r["name"].split("_")[0] in READ_SETS[sname]]
        syn.write_bam(w, os.path.join(d, "e%d.bam" % i), reads=sub, seqs=seqs)
        items.append({"name": "E%d" % i, "long read files": ["e%d.bam" % i]})
    with open(os.path.join(d, "in.yaml"), "w") as f:
        yaml.safe_dump(items, f)
    out = os.path.join(d, "out")
    rc = run.run_isoquant(["--output", out, "--reference", paths["ref"], "--yaml", os.path.join(d, "in.yaml"), "--data_type", "nanopore",
                           "--threads", "1", "--genedb", paths["gtf"], "--complete_genedb", "--model_construction_strategy", strategy,
                           "--report_novel_unspliced", "true"], paths["home"], os.path.join(d, "o.txt"))
    errs = []
    novel = 0
    if rc != 0:
        errs.append(("run-failed", "exit %d: %s" % (rc, open(os.path.join(d, "o.txt")).read()[-300:])))
    else:
        ref = run.parse_gtf(paths["gtf"])
        ref_exon_ids = {}
        for r in ref:
            if r["type"] == "exon" and "exon_id" in r["attrs"]:
                ref_exon_ids[(r["chr"], r["start"], r["end"], r["strand"])] = r["attrs"]["exon_id"]
        for i in range(len(sets)):
            table = (dict(ref_exon_ids), {})
            for k_, v_ in ref_exon_ids.items():
                table[1].setdefault(v_, k_)
            for fn in ("transcript_models", "extended_annotation"):
                e_, g_, t_ = gtf_id_errors(os.path.join(out, "E%d" % i, "E%d.%s.gtf" % (i, fn)), exon_table=table, label="experiment %d %s" % (i, fn))
                errs += e_
                novel += len(t_)
    shutil.rmtree(d, ignore_errors=True)
    return variant, strategy, 1, novel, [(k, ("joint run of read sets %s: " % list(sets)) + m) for k, m in errs]


def run(ctx):
    quick = ctx.tier == "quick"
    depth = 3 if quick else 4
    states, transitions, bad, samples = l1_search(ctx.scratch, depth)
    for hist, err in bad:
        ctx.violation("l1:" + err.split("(")[0].split(" of ")[0][:60].strip(), "history %s: %s" % (list(hist), err), {"history": list(hist)})
    ctx.note("L1 id-table search depth %d: %d states, %d transitions" % (depth, states, transitions))
    jobs = []
    strategies = ["default_ont", "all"] if quick else ["default_ont", "all", "sensitive_pacbio", "default_pacbio"]
    for variant in (["base"] if quick else ["base", "extra"]):
        for s in strategies:
            jobs.append((variant, s, 2 if quick else 3, ctx.scratch))
    jobs.append(("dotted", "all", 2 if quick else 3, ctx.scratch))
    for s in strategies:
        jobs.append(("cds", s, 2, ctx.scratch))
    jobs.append(("lifted", "all", 1, ctx.scratch))
    # histories: the annotation of iteration i+1 is the extended annotation of iteration i, obtained from ANOTHER read set, so that ids
    # generated earlier meet novel transcripts of the same loci generated later
    sets = ("R0", "R1", "R2")
    for hist in itertools.product(sets, repeat=2 if quick else 3):
        for s in (["all"] if quick else ["all", "default_ont"]):
            jobs.append(("extra", s, hist, ctx.scratch))
    for hist in (("R3", "R4"), ("R4", "R3"), ("R3", "R4", "R0")):
        for s in ("all", "default_ont"):
            jobs.append(("extra", s, hist, ctx.scratch))
    nruns = 0
    novel = 0
    jj = [("extra", s_, h_, ctx.scratch) for h_ in (itertools.permutations(sets, 2) if quick else itertools.permutations(sets, 3))
          for s_ in (["all"] if quick else ["all", "default_ont"])] + [("extra", "all", ("R3", "R4"), ctx.scratch)]
    for variant, strategy, n, nov, errs in core.pmap(joint_case, jj):
        nruns += n
        novel += nov
        for key, msg in errs:
            ctx.violation("l2:%s" % key, "world %s strategy %s: %s" % (variant, strategy, msg), {"variant": variant, "strategy": strategy, "msg": msg[:120]})
    for variant, strategy, n, nov, errs in core.pmap(pipeline_case, jobs):
        nruns += n
        novel += nov
        for key, msg in errs:
            ctx.violation("l2:%s" % key, "world %s strategy %s: %s" % (variant, strategy, msg), {"variant": variant, "strategy": strategy, "msg": msg[:120]})
    ctx.note("L2 pipeline: %d runs (fixed-point chains), %d novel transcripts inspected" % (nruns, novel))
    ctx.coverage.update({
        "states": states, "transitions": transitions, "traces_validated_against_impl": transitions + nruns,
        "depth": depth, "pipeline_runs": nruns, "novel_transcripts_inspected": novel, "exhaustive": True,
        "samples": samples + [{"pipeline": jobs[0][:3]}],
        "evaluations": transitions + nruns, "distinct_nontrivial": states,
        "rule": "state = exon-id tables of the two per-chromosome storages + counters; transition = one get_id call on one of 12 keys "
                "(2 chr x 3 exons x 2 strands, 5 preloaded from reference exon_id attributes)",
    })
    ctx.assumptions += ["state merging: histories with equal id tables, equal counters and equal last return value have equal futures "
                        "(get_id reads nothing else)",
                        "pipeline worlds use the SYN lattice (200-bp exons, 400-bp introns, planted canonical sites)"]


def replay(ctx, case):
    return "re-run ./check C17 (deterministic)"
