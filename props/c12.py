"""C12 — equivalent representations of the same input give identical results.

(a) annotation as .gtf / .gtf.gz / prebuilt .db x {--complete_genedb, inferred} x {fresh HOME, HOME whose cache already
    has the conversion, cache entry stale by mtime}: all output files identical.
(b) alignments: every assignment of R read classes to <=3 BAM files (empty files dropped) in every file order: read
    assignments, corrected BED and ungrouped reference-based count/TPM tables equal as multisets of records.
"""
import gzip
import itertools
import json
import os
import shutil

from vlib import core

LEVEL = "exploration"


def the_world():
    from vlib import worlds as W
    w = W.mixed_world(2, groups=False, multimappers=True)
    # a read with two records of the same span and strand but different exon structure (primary = isoform 1, secondary = isoform 2)
    # (a start of its own: no record of another read lies between the two in any file)
    e1, e2 = W.exons(1000, [0, 1, 2, 3, 4]), W.exons(1000, [0, 2, 3, 4])
    e1[0][0] += 3
    e2[0][0] += 3
    w["reads"].append(W.read_of("eqspan", "chr1", e1))
    w["reads"].append(W.read_of("eqspan", "chr1", e2, secondary=True))
    # the same with BOTH records consistent with one isoform (the secondary record has one junction 2 bp off, within delta): the two
    # are "duplicates" for the resolver, which of them is reported must not depend on the files they lie in
    e3, e4 = W.exons(1000, [0, 1, 2, 3, 4]), W.exons(1000, [0, 1, 2, 3, 4])
    e3[0][0] += 7
    e4[0][0] += 7
    e4[2][0] += 2
    w["reads"].append(W.read_of("eqsame", "chr1", e3))
    w["reads"].append(W.read_of("eqsame", "chr1", e4, secondary=True))
    # reads whose SECONDARY record wins: the primary one is an unspliced intergenic alignment, the secondary one follows an annotated
    # isoform (on the other chromosome / on the same one); a file that holds secondary records only still contributes
    w["reads"].append(W.read_of("secwin1", "chr2", [[7001, 7400]], polya=False))
    w["reads"].append(W.read_of("secwin1", "chr1", W.exons(1000, [0, 2, 3, 4]), secondary=True))
    w["reads"].append(W.read_of("secwin2", "chr2", [[7101, 7450]], polya=False))
    w["reads"].append(W.read_of("secwin2", "chr2", W.exons(5000, [0, 1, 2]), strand="-", secondary=True))
    # an unmapped record that carries the position of its mate / of a discarded alignment (flag 4 with RNAME and POS), starting where
    # records of other reads start
    w["reads"].append({"name": "placed_unm", "unmapped": True, "chr": "chr1", "pos": 1001})
    return w


def tree_diff(t0, t1, as_multiset=False):
    out = []
    for k in sorted(set(t0) | set(t1)):
        if k not in t0 or k not in t1:
            out.append((k, "present in only one run"))
            continue
        a, b = t0[k], t1[k]
        if as_multiset:
            a = b"\n".join(sorted(a.split(b"\n")))
            b = b"\n".join(sorted(b.split(b"\n")))
        if a != b:
            la, lb = a.split(b"\n"), b.split(b"\n")
            i = next((i for i, (x, y) in enumerate(zip(la, lb)) if x != y), min(len(la), len(lb)))
            out.append((k, "first difference: %r vs %r" % ((la[i] if i < len(la) else b"")[:90], (lb[i] if i < len(lb) else b"")[:90])))
    return out


def annotation_case(args):
    rep, complete, cache, scratch = args[:4]
    style = args[4] if len(args) > 4 else "plain"     # how the GTF is written (record order, extra record types and attributes)
    from vlib import syn, run
    w = the_world()
    d = os.path.join(scratch, "c12a_%s_%d_%s_%s" % (rep.replace(".", ""), complete, cache, style))
    shutil.rmtree(d, ignore_errors=True)
    paths = syn.materialise(w, d)
    if style not in ("plain", "shuffled"):
        syn.write_gtf(w, paths["gtf"], style=style)
    # reference run: plain gtf, --complete_genedb, fresh home (the record ORDER of a GTF is not part of the annotation: the reference of
    # the shuffled style is the run on the plain file)
    ref_out = os.path.join(d, "ref")
    ref_argv = run.base_argv(paths, ref_out)
    if style == "partial":
        # a partly incomplete annotation (gene GB0 has exon records only, e.g. entries appended to a downloaded file); only runs WITHOUT
        # --complete_genedb are compared: the reference is the run on a database converted beforehand (records inferred)
        lines = [l for l in open(paths["gtf"]) if not ('gene_id "GB0"' in l and l.split("\t")[2] in ("gene", "transcript"))]
        open(paths["gtf"], "w").writelines(lines)
        ref_db = os.path.join(d, "reference.db")
        syn.build_db(paths["gtf"], ref_db, complete=False)
        ref_argv = ["--output", ref_out, "--reference", paths["ref"], "--bam", paths["bam"], "--data_type", "nanopore", "--prefix", "OUT",
                    "--threads", "1", "--genedb", ref_db]
    rc = run.run_isoquant(ref_argv, paths["home"], os.path.join(d, "ref.txt"))
    if rc != 0:
        return args[:3] + (style,), [("reference-run-failed", "exit %d (%s style)" % (rc, style))]
    t0 = run.read_tree(os.path.join(ref_out, "OUT"))
    if style == "shuffled":
        syn.write_gtf(w, paths["gtf"], style=style)
    ann = paths["gtf"]
    if rep == "gtf.gz":
        ann = paths["gtf"] + ".gz"
        with open(paths["gtf"], "rb") as fi, gzip.open(ann, "wb") as fo:
            fo.write(fi.read())
    elif rep == "db":
        ann = os.path.join(d, "prebuilt.db")
        syn.build_db(paths["gtf"], ann, complete=bool(complete))
    home = os.path.join(d, "home2")
    os.makedirs(home, exist_ok=True)
    out = os.path.join(d, "out")
    argv = ["--output", out, "--reference", paths["ref"], "--bam", paths["bam"], "--data_type", "nanopore", "--prefix", "OUT",
            "--threads", "1", "--genedb", ann] + (["--complete_genedb"] if complete else [])
    errs = []
    if cache in ("cached", "stale", "overwritten") and rep != "db":
        # first run populates the per-user cache; the second one must hit it (or detect staleness)
        pre = os.path.join(d, "pre")
        argv_pre = list(argv)
        argv_pre[1] = pre
        rc = run.run_isoquant(argv_pre, home, os.path.join(d, "pre.txt"))
        if rc != 0:
            errs.append(("run-failed", "cache-populating run exit %d" % rc))
        if cache == "stale":
            st = os.stat(ann)
            os.utime(ann, (st.st_atime, st.st_mtime + 100))
        if cache == "overwritten":
            # another annotation with the same base name is converted into the same output folder (--force): the cached db
            # file of the first annotation is replaced by the conversion of a different input
            import time
            w2 = the_world()
            w2["genes"] = [g for g in w2["genes"] if g["id"] != "GA0"]
            odir = os.path.join(d, "other")
            os.makedirs(odir, exist_ok=True)
            other = syn.write_gtf(w2, os.path.join(odir, "annot.gtf"))
            if rep == "gtf.gz":
                with open(other, "rb") as fi, gzip.open(other + ".gz", "wb") as fo:
                    fo.write(fi.read())
                other += ".gz"
            time.sleep(0.02)
            argv_o = list(argv)
            argv_o[1] = pre
            argv_o[argv_o.index("--genedb") + 1] = other
            rc = run.run_isoquant(argv_o + ["--force"], home, os.path.join(d, "other.txt"))
            if rc != 0:
                errs.append(("run-failed", "overwriting run exit %d" % rc))
    if cache == "reused-folder":
        # the output folder holds an earlier run on ANOTHER annotation of the same base name (a later release); the annotation of this run
        # keeps the time stamp of its release (wget -N, rsync -t, cp -p): it is older than everything the earlier run left behind
        w2 = the_world()
        w2["genes"] = [g for g in w2["genes"] if g["id"] != "GA0"]
        odir = os.path.join(d, "other")
        os.makedirs(odir, exist_ok=True)
        other = syn.write_gtf(w2, os.path.join(odir, "annot.gtf"))
        if rep == "gtf.gz":
            with open(other, "rb") as fi, gzip.open(other + ".gz", "wb") as fo:
                fo.write(fi.read())
            other += ".gz"
        argv_o = list(argv)
        argv_o[argv_o.index("--genedb") + 1] = other
        rc = run.run_isoquant(argv_o, home, os.path.join(d, "other.txt"))
        if rc != 0:
            errs.append(("run-failed", "earlier run in the reused folder exit %d" % rc))
        st = os.stat(ann)
        os.utime(ann, (st.st_atime - 1000000, st.st_mtime - 1000000))
        argv = argv + ["--force"]
    rc = run.run_isoquant(argv, home, os.path.join(d, "o.txt"))
    if rc != 0:
        errs.append(("run-failed", "exit %d: %s" % (rc, open(os.path.join(d, "o.txt")).read()[-300:])))
    else:
        log = open(os.path.join(d, "o.txt")).read()
        if cache == "cached" and rep != "db" and "Gene annotation file found" not in log:
            errs.append(("cache-not-used", "second run did not reuse the converted annotation (harness expectation)"))
        t1 = run.read_tree(os.path.join(out, "OUT"))
        for k, what in tree_diff(t0, t1):
            errs.append(("annotation:%s" % k.split("OUT.")[-1], "annotation (%s style) as %s complete=%d cache=%s: %s %s" % (style, rep, complete, cache, k, what)))
    shutil.rmtree(d, ignore_errors=True)
    return args[:3] + (style,), errs


def flag_history_case(args):
    """a partly incomplete annotation (gene GB0 has exon lines only: --complete_genedb ignores it, a run without the option infers its
       records): run A with one value of --complete_genedb fills the per-user cache, run B with the OTHER value follows under the same
       HOME; B must give what it gives with a cold cache (run C, other HOME)"""
    first_complete, scratch = args
    from vlib import syn, run
    w = the_world()
    d = os.path.join(scratch, "c12f_%d" % first_complete)
    shutil.rmtree(d, ignore_errors=True)
    paths = syn.materialise(w, d)
    lines = [l for l in open(paths["gtf"]) if not ('gene_id "GB0"' in l and l.split("\t")[2] in ("gene", "transcript"))]
    open(paths["gtf"], "w").writelines(lines)
    errs = []

    def go(out, home, complete, log):
        os.makedirs(home, exist_ok=True)
        argv = ["--output", out, "--reference", paths["ref"], "--bam", paths["bam"], "--data_type", "nanopore", "--prefix", "OUT",
                "--threads", "1", "--genedb", paths["gtf"]] + (["--complete_genedb"] if complete else [])
        return run.run_isoquant(argv, home, os.path.join(d, log))
    h1, h2 = os.path.join(d, "h1"), os.path.join(d, "h2")
    rcs = [go(os.path.join(d, "a"), h1, first_complete, "a.txt"), go(os.path.join(d, "b"), h1, not first_complete, "b.txt"),
           go(os.path.join(d, "c"), h2, not first_complete, "c.txt")]
    if any(rcs):
        errs.append(("run-failed", "exit codes %s" % rcs))
    else:
        tb, tc = run.read_tree(os.path.join(d, "b", "OUT")), run.read_tree(os.path.join(d, "c", "OUT"))
        for k, what in tree_diff(tc, tb):
            errs.append(("flag-history:%s" % k.split("OUT.")[-1], "run %s --complete_genedb after a run %s it under the same HOME: %s %s (compared with "
                         "the same run on a cold cache)" % ("without" if first_complete else "with", "with" if first_complete else "without", k, what)))
    shutil.rmtree(d, ignore_errors=True)
    return ("flag-history", first_complete), errs


CLASSES = 5


def read_classes(w):
    """4 classes by locus, so that a BAM file can lack a whole locus / chromosome that another file covers:
       0 = chr1 gene locus at 1000, 1 = rest of chr1, 2 = chr2 gene locus at 1000, 3 = rest of chr2 + unmapped;
       primary records of one read name stay in the class of the first record, class 4 = all secondary records (a split by record, e.g.
       by alignment flag or by region, separates the records of one read)"""
    cls = {}
    for r in w["reads"]:
        if r["name"] in cls:
            continue
        if r.get("unmapped"):
            cls[r["name"]] = 3
        else:
            first = r["blocks"][0][0]
            cls[r["name"]] = (0 if first < 4900 else 1) + (0 if r["chr"] == "chr1" else 2)
    return cls


def record_class(cls, r):
    return 4 if r.get("secondary") else cls[r["name"]]


MULTISET_FILES = ("read_assignments.tsv", "corrected_reads.bed", "gene_counts.tsv", "gene_tpm.tsv", "transcript_counts.tsv", "transcript_tpm.tsv",
                  "OUT.exon_counts.tsv", "OUT.intron_counts.tsv", "read_assignments.SQANTI-like.tsv")


def bam_case(args):
    assigns, scratch, wid = args
    from vlib import syn, run
    w = the_world()
    cls = read_classes(w)
    d = os.path.join(scratch, "c12b_%d" % wid)
    shutil.rmtree(d, ignore_errors=True)
    paths = syn.materialise(w, d)
    seqs = syn.genome_sequences(w)
    ref_out = os.path.join(d, "ref")
    rc = run.run_isoquant(run.base_argv(paths, ref_out, extra=["--no_model_construction", "--count_exons", "--sqanti_output"]), paths["home"], os.path.join(d, "ref.txt"))
    if rc != 0:
        return [((), [("reference-run-failed", "exit %d" % rc)])], 1
    t0 = {k: v for k, v in run.read_tree(os.path.join(ref_out, "OUT")).items() if any(k.endswith(x) or k.endswith(x + ".gz") for x in MULTISET_FILES)}
    res = []
    n = 1
    for assign, order in assigns:
        files = {}
        for r in w["reads"]:
            files.setdefault(assign[record_class(cls, r)], []).append(r)
        bams = []
        for fi in order:
            if fi not in files:
                continue
            # the files of one experiment lie in different folders and, for every second partition, share their base name
            same_name = (sum(assign) + len(order)) % 2 == 0
            os.makedirs(os.path.join(d, "lane%d" % fi), exist_ok=True)
            p = os.path.join(d, "lane%d" % fi, "reads.bam" if same_name else "part%d.bam" % fi)
            # part files of different origin need not list the reference sequences in the same order: the last file of every partition
            # with differently named parts has its @SQ lines reversed (and is sorted accordingly)
            wf = w if (same_name or fi != order[-1]) else dict(w, chroms=dict(reversed(list(w["chroms"].items()))))
            syn.write_bam(wf, p, reads=files[fi], seqs=seqs)
            bams.append(p)
        out = os.path.join(d, "out")
        shutil.rmtree(out, ignore_errors=True)
        argv = ["--output", out, "--reference", paths["ref"], "--bam"] + bams + ["--data_type", "nanopore", "--prefix", "OUT",
                "--threads", "1", "--genedb", paths["gtf"], "--complete_genedb", "--no_model_construction", "--count_exons", "--sqanti_output"]
        rc = run.run_isoquant(argv, paths["home"], os.path.join(d, "o.txt"))
        n += 1
        errs = []
        if rc != 0:
            errs.append(("run-failed", "exit %d: %s" % (rc, open(os.path.join(d, "o.txt")).read()[-300:])))
        else:
            t1 = {k: v for k, v in run.read_tree(os.path.join(out, "OUT")).items() if k in t0}
            for k, what in tree_diff(t0, t1, as_multiset=True):
                errs.append(("bam-split:%s" % k.split("OUT.")[-1], "classes->files %s, file order %s: %s %s" % (assign, order, k, what)))
        if errs:
            res.append(((assign, order), errs))
    shutil.rmtree(d, ignore_errors=True)
    return res, n


def narrow_header_case(args):
    """per-chromosome BAM files whose headers list their own reference sequence only (reads aligned chromosome by chromosome), in both
    orders, and a single such file next to a reference with more sequences: the results are those of the one BAM with the full header"""
    mode, scratch = args
    from vlib import syn, run
    w = the_world()
    d = os.path.join(scratch, "c12n_%s" % mode)
    shutil.rmtree(d, ignore_errors=True)
    chroms = list(w["chroms"])
    reads = [r for r in w["reads"] if not r.get("unmapped")]
    if mode.startswith("single"):
        reads = [r for r in reads if r["chr"] == chroms[0]]
    paths = syn.materialise(dict(w, reads=reads), d)
    seqs = syn.genome_sequences(w)
    extra = ["--no_model_construction", "--count_exons", "--sqanti_output"]
    if mode.endswith("-table"):
        # ... with the read groups given in a table (split into one table per reference sequence at start-up)
        mode_ = mode
        mode = mode[:-6]
        with open(os.path.join(d, "groups.tsv"), "w") as f:
            for i, nm in enumerate(sorted(set(r["name"] for r in reads))):
                f.write("%s\tg%d\n" % (nm, i % 3))
        extra += ["--read_group", "file:" + os.path.join(d, "groups.tsv")]
    else:
        mode_ = mode
    ref_out = os.path.join(d, "ref")
    rc = run.run_isoquant(run.base_argv(paths, ref_out, extra=extra), paths["home"], os.path.join(d, "ref.txt"))
    if rc != 0:
        return mode_, [("reference-run-failed", "exit %d" % rc)]
    t0 = {k: v for k, v in run.read_tree(os.path.join(ref_out, "OUT")).items() if any(k.endswith(x) or k.endswith(x + ".gz") for x in MULTISET_FILES)
          or "grouped" in k}
    bams = []
    for c in (chroms[:1] if mode == "single" else (chroms if mode == "forward" else list(reversed(chroms)))):
        sub = [r for r in reads if r["chr"] == c]
        if sub:
            bams.append(syn.write_bam(dict(w, chroms={c: w["chroms"][c]}), os.path.join(d, "only_%s.bam" % c), reads=sub, seqs=seqs))
    out = os.path.join(d, "out")
    argv = ["--output", out, "--reference", paths["ref"], "--bam"] + bams + ["--data_type", "nanopore", "--prefix", "OUT",
            "--threads", "1", "--genedb", paths["gtf"], "--complete_genedb"] + extra
    rc = run.run_isoquant(argv, paths["home"], os.path.join(d, "o.txt"))
    errs = []
    if rc != 0:
        errs.append(("narrow-header:run-failed", "exit %d: %s" % (rc, open(os.path.join(d, "o.txt")).read()[-300:])))
    else:
        t1 = {k: v for k, v in run.read_tree(os.path.join(out, "OUT")).items() if k in t0}
        for k, what in tree_diff(t0, t1, as_multiset=True):
            errs.append(("narrow-header:%s" % k.split("OUT.")[-1], "%s %s" % (k, what)))
    shutil.rmtree(d, ignore_errors=True)
    return mode_, errs


def run(ctx):
    quick = ctx.tier == "quick"
    jobs = []
    for rep in ("gtf", "gtf.gz", "db"):
        for complete in (1, 0):
            for cache in (("fresh", "cached", "stale", "overwritten", "reused-folder") if rep != "db" else ("fresh",)):
                jobs.append((rep, complete, cache, ctx.scratch))
    for rep in ("gtf", "gtf.gz", "db"):
        for cache in (("fresh",) if rep == "db" else ("fresh", "cached")):
            jobs.append((rep, 0, cache, ctx.scratch, "partial"))
    for style in ("ensembl", "shuffled"):
        for rep in ("gtf", "gtf.gz", "db"):
            for complete in (1, 0):
                for cache in (("fresh", "cached") if (rep == "gtf" and not quick) else ("fresh",)):
                    jobs.append((rep, complete, cache, ctx.scratch, style))
    n_ann = 0
    for key, errs in core.pmap(annotation_case, jobs):
        n_ann += 1
        for k, msg in errs:
            ctx.violation(k, msg, {"annotation_case": list(key)})
    for key, errs in core.pmap(flag_history_case, [(1, ctx.scratch), (0, ctx.scratch)]):
        n_ann += 1
        for k, msg in errs:
            ctx.violation(k, msg, {"flag_history": key[1]})
    ctx.note("annotation representations: %d cases" % n_ann)
    for mode, errs in core.pmap(narrow_header_case, [(m, ctx.scratch) for m in ("forward", "reverse", "single", "forward-table", "single-table")]):
        for k, msg in errs:
            ctx.violation(k, "BAM files whose headers list one reference sequence each (%s): %s" % (mode, msg), {"narrow_header": mode})
    assigns = []
    nfiles = 2 if quick else 3
    for a in itertools.product(range(nfiles), repeat=CLASSES):
        used = sorted(set(a))
        if len(used) == 1 and used != [0]:
            continue
        orders = list(itertools.permutations(used)) if len(used) <= 2 else [tuple(used), tuple(reversed(used)), (used[1], used[0], used[2])]
        for o in orders:
            assigns.append((a, o))
    ctx.rng.shuffle(assigns)
    nruns = 0
    for res, n in core.pmap(bam_case, [(c, ctx.scratch, i) for i, c in enumerate(core.chunks(assigns, core.NCPU))]):
        nruns += n
        for key, errs in res:
            for k, msg in errs:
                ctx.violation(k, msg, {"bam_case": [list(key[0]), list(key[1])] if key else []})
    ctx.note("BAM partitions: %d (assignment of %d read classes to <=%d files x file orders), %d runs" % (len(assigns), CLASSES, nfiles, nruns))
    ctx.coverage.update({
        "evaluations": n_ann + nruns, "distinct_nontrivial": n_ann - 1 + len([a for a in assigns if len(set(a[0])) > 1]),
        "rule": "annotation case = (representation, --complete_genedb, cache state); BAM case = (map of 4 read classes to files, file order); "
                "non-trivial = representation differs from the reference run / reads really split over >=2 files",
        "exhaustive": True, "annotation_cases": n_ann, "bam_partitions": len(assigns),
        "samples": [{"annotation": list(jobs[1][:3])}, {"classes_to_files": list(assigns[0][0]), "file_order": list(assigns[0][1])}],
    })
    ctx.assumptions += ["BAM-split comparison restricted to read assignments, corrected BED and ungrouped gene/transcript tables, as multisets "
                        "of lines (with several files IsoQuant switches on file_name grouping, which the property does not constrain)",
                        "annotation contains gene and transcript records (the statement's precondition for --complete_genedb equivalence)"]


def replay(ctx, case):
    if "narrow_header" in case:
        mode, errs = narrow_header_case((case["narrow_header"], ctx.scratch))
        return errs[0][1] if errs else None
    return "re-run ./check C12 (deterministic)"
