"""C13 — exon/intron inclusion and exclusion counts equal a recount from the alignments.

Annotations with overlapping / contained / shared exons, exons shared by two genes, introns nested in introns; reads =
every subset of exon slots (contiguous and not) with exact boundaries, plus mono-exonic reads inside exons and inside
introns, plus a second read cluster of the same gene far away (the gene is then loaded for two regions); delta presets;
with and without read_id grouping.  Oracle: recount from the alignments; every feature row must be unique and carry the
annotation's chromosome, coordinates, strand and gene list; grouped rows sum to the ungrouped ones.
"""
import itertools
import os
import shutil

from vlib import core

LEVEL = "exploration"
PRESETS = {"exact": 0, "default": 6, "default+delta0": 0, "default+delta4": 4}
PRESET_OPTS = {"default+delta0": ["--matching_strategy", "default", "--delta", "0"], "default+delta4": ["--matching_strategy", "default", "--delta", "4"]}


ISO_MENU = {
    "A1": lambda S: [S(0), S(1), S(2), S(3), S(4)],
    "A2": lambda S: [S(0), S(2), S(3), S(4)],                        # intron nested: A2's intron 0-2 contains A1's introns
    "A3": lambda S: [S(0), S(1, de=100), S(2), S(4)],                 # overlapping exon (alternative donor +100)
    "A4": lambda S: [S(0), S(1, ds=60, de=-60), S(2), S(3), S(4)],    # contained exon
    "A5": lambda S: [S(2), S(3)],
    "A6": lambda S: [S(0, de=-80), S(3, ds=-90), S(4)],               # alternative donor and acceptor on a long nested intron
    "A7": lambda S: [S(1), S(2, ds=40)],                              # alternative first exon + alternative acceptor
}
# an isoform that differs from A1 by 3 bases at one exon end (closer than every non-zero delta): only in dedicated jobs, not in the grammar
NEAR = {"A8": lambda S: [S(0), S(1), S(2, de=3), S(3), S(4)]}
SECOND = ("none", "same-strand", "antisense", "mono-in-intron", "same+anti", "exon-is-intron")


def annotation(variant):
    """variant: 0/1/2 (the original cumulative annotations) or a tuple (isoform ids, second-gene kind) from the grammar:
       gene GA (+) with any subset of ISO_MENU; second gene GB (+) sharing exons 3,4 / GM (-) antisense sharing exons 1,2 /
       GI mono-exonic inside GA's intron 0-1; plus intron-less loci far away"""
    S = lambda i, ds=0, de=0: [1000 + 700 * i + 1 + ds, 1000 + 700 * i + 250 + de]
    if not isinstance(variant, tuple):
        variant = {0: (("A1", "A2", "A3", "A4"), "none"), 1: (("A1", "A2", "A3", "A4", "A5"), "same-strand"),
                   2: (("A1", "A2", "A3", "A4", "A5"), "same+anti")}[variant]
    isos, second = variant
    genes = [{"id": "GA", "chr": "chr1", "strand": "+", "transcripts": [{"id": t, "exons": (ISO_MENU.get(t) or NEAR[t])(S)} for t in isos]}]
    if second in ("same-strand", "same+anti"):
        genes.append({"id": "GB", "chr": "chr1", "strand": "+", "transcripts": [{"id": "B1", "exons": [S(3), S(4), S(5)]}]})   # shares exons 3,4 with GA
    if second in ("antisense", "same+anti"):
        genes.append({"id": "GM", "chr": "chr1", "strand": "-", "transcripts": [{"id": "M1", "exons": [S(1), S(2)]}]})         # antisense sharing exons
    if second == "mono-in-intron":
        genes.append({"id": "GI", "chr": "chr1", "strand": "-", "transcripts": [{"id": "I1", "exons": [[1351, 1600]]}]})       # inside intron 0-1
    if second == "exon-is-intron":
        # an antisense gene whose exons have exactly the coordinates of two introns of GA (exon and intron rows with equal coordinates)
        genes.append({"id": "GE", "chr": "chr1", "strand": "-", "transcripts": [{"id": "E1", "exons": [[S(0)[1] + 1, S(1)[0] - 1], [S(2)[1] + 1, S(3)[0] - 1]]}]})
    # loci without any annotated intron: a mono-exonic gene alone, and two overlapping mono-exonic genes on opposite strands
    genes.append({"id": "GS", "chr": "chr1", "strand": "+", "transcripts": [{"id": "S1", "exons": [[9501, 10100]]}]})
    genes.append({"id": "GP", "chr": "chr1", "strand": "+", "transcripts": [{"id": "P1", "exons": [[11501, 12000]]}]})
    genes.append({"id": "GQ", "chr": "chr1", "strand": "-", "transcripts": [{"id": "Q1", "exons": [[11801, 12300]]}]})
    return genes, S


def has_b(variant):
    if isinstance(variant, tuple):
        return variant[1] in ("same-strand", "same+anti")
    return variant >= 1


def vtag(variant):
    return str(variant) if not isinstance(variant, tuple) else "-".join(variant[0]) + "_" + variant[1].replace("+", "")


def long_world():
    """a read cluster longer than 32 kb (cut into sub-regions at the coverage valley): gene G1 (exons 1001-1200, 5001-5200, 38001-38300) with
       gene G2 nested in its last intron (34501-34700, 36001-36200); one read follows G1 end to end, i.e. it spans G2's exons and intron"""
    from vlib import syn, worlds as W
    w = {"chroms": {"chr1": 45000, "chr2": 3000}, "sites": [], "reads": [], "genes": [
        {"id": "G1", "chr": "chr1", "strand": "+", "transcripts": [{"id": "T1", "exons": [[1001, 1200], [5001, 5200], [38001, 38300]]}]},
        {"id": "G2", "chr": "chr1", "strand": "+", "transcripts": [{"id": "T2", "exons": [[34501, 34700], [36001, 36200]]}]}]}
    syn.plant_for_transcripts(w)
    for i in range(3):
        w["reads"].append(W.read_of("a%d_gA" % i, "chr1", [[1051, 1200], [5001, 5150]], polya=False))
        w["reads"].append(W.read_of("b%d_gB" % i, "chr1", [[34551, 34700], [36001, 36150]], polya=False))
    w["reads"].append(W.read_of("c0_gA", "chr1", [[1101, 1200], [5001, 5200], [38001, 38200]], polya=False))
    return w


def make_world(variant, two_clusters):
    from vlib import syn, worlds as W
    if variant == "long-locus":
        return long_world()
    genes, S = annotation(variant)
    w = {"chroms": {"chr1": 14000, "chr2": 3000}, "genes": genes, "reads": [], "sites": []}
    syn.plant_for_transcripts(w)
    reads = []
    n = [0]

    def add(blocks, grp, polya=False, strand="+"):
        n[0] += 1
        reads.append(W.read_of("r%d_%s" % (n[0], grp), "chr1", blocks, polya=polya, strand=strand))
    slots = range(5) if not two_clusters else range(3)
    grp = itertools.cycle(["gA", "gB"])
    if two_clusters == 2:
        # disjoint small clusters inside one gene, two of them inside the same (nested) introns
        add([S(0)], next(grp))
        add([[1300, 1550]], next(grp))
        add([[2000, 2300]], next(grp))
        add([S(3), S(4)], next(grp))
        w["reads"] = reads
        return w
    for k in range(1, len(slots) + 1):
        for sub in itertools.combinations(slots, k):
            add([S(i) for i in sub], next(grp))
    # the same intron chains on reads whose terminal blocks are NOT the annotated exons: truncated by 60 bp at either end, and extended by
    # 60 bp at the start (such a read sorts before the full-length one: it is the first read with that chain in its region)
    if not two_clusters:
        for k in range(2, len(slots) + 1):
            for sub in itertools.combinations(slots, k):
                mid = [S(i) for i in sub[1:-1]]
                add([S(sub[0], ds=60)] + mid + [S(sub[-1])], next(grp))
                add([S(sub[0])] + mid + [S(sub[-1], de=-60)], next(grp))
                add([S(sub[0], ds=-60)] + mid + [S(sub[-1])], next(grp))
    # reads with a polyA tail (polyT head) that end before annotated features further downstream (upstream): those features are
    # beyond the molecule's end and must not be counted as skipped
    if not two_clusters:
        add([S(0), S(1), S(2)], next(grp), polya=True)
        add([S(1), S(2), S(3)], next(grp), polya=True)
        add([S(2), S(3), S(4)], next(grp), polya=True, strand="-")
    # alternative forms
    add([S(0), S(1, de=100), S(2)], next(grp))
    add([S(0), S(1, ds=60, de=-60), S(2)], next(grp))
    if not two_clusters:
        # splice sites 3 and 5 bp off the annotated ones: matched or not depending on the requested delta
        add([S(0), S(1, de=3), S(2), S(3)], next(grp))
        add([S(1), S(2, ds=-5), S(3), S(4)], next(grp))
        add([S(0, de=-80), S(3, ds=-90), S(4)], next(grp))
        add([S(1), S(2, ds=40), S(3)], next(grp))
        add([[1351, 1600]], next(grp), strand="-")
    # mono-exonic reads inside an exon, inside an intron, spanning exon+intron partially
    add([[1000 + 700 + 41, 1000 + 700 + 200]], next(grp))
    add([[1300, 1650]], next(grp))
    if not two_clusters:
        # multi-mapped reads whose SECONDARY alignment is the retained one (primary in an unannotated stretch / primary inconsistent):
        # the retained alignment is a processed read like any other
        reads.append(W.read_of("mmA_gA", "chr1", [[12801, 13100]], polya=False))
        reads.append(W.read_of("mmA_gA", "chr1", [S(i) for i in (0, 1, 2, 3, 4)], secondary=True))
        reads.append(W.read_of("mmB_gB", "chr2", [[501, 700], [1001, 1200]], polya=False))
        reads.append(W.read_of("mmB_gB", "chr1", [S(i) for i in (0, 2, 3, 4)], secondary=True))
        # the intron-less loci: reads equal to the exon, a read inside it, a spliced read whose intron jumps over the gene
        add([[9501, 10100]], next(grp))
        add([[9501, 10100]], next(grp), polya=True)
        add([[9651, 9900]], next(grp))
        add([[9201, 9400], [10201, 10400]], next(grp))
        add([[11501, 12000]], next(grp))
        add([[11801, 12300]], next(grp), strand="-")
        add([[11801, 12300]], next(grp), polya=True, strand="-")
        add([[11301, 11450], [12351, 12500]], next(grp))
    if two_clusters:
        # a second, disjoint cluster of reads of the same gene (last exons): the gene is loaded for two processing regions
        add([S(4)], next(grp))
        add([[1000 + 700 * 4 + 31, 1000 + 700 * 4 + 220]], next(grp))
        if has_b(variant):
            add([S(4), S(5)], next(grp))
    w["reads"] = reads
    return w


def feature_table(genes):
    exons = {}
    introns = {}
    for g in genes:
        for t in g["transcripts"]:
            ex = [tuple(e) for e in t["exons"]]
            for e in ex:
                exons.setdefault((g["chr"], e[0], e[1]), {"strands": set(), "genes": set()})
                exons[(g["chr"], e[0], e[1])]["strands"].add(g["strand"])
                exons[(g["chr"], e[0], e[1])]["genes"].add(g["id"])
            for a, b in zip(ex, ex[1:]):
                k = (g["chr"], a[1] + 1, b[0] - 1)
                introns.setdefault(k, {"strands": set(), "genes": set()})
                introns[k]["strands"].add(g["strand"])
                introns[k]["genes"].add(g["id"])
    return exons, introns


def overlaps_at_least(r1, r2, delta):
    """at least delta common positions, or one range inside the other (the definition, not a copy of the code)"""
    inter = min(r1[1], r2[1]) - max(r1[0], r2[0]) + 1
    if inter < 1:
        return False
    return inter >= delta or (r1[0] <= r2[0] and r2[1] <= r1[1]) or (r2[0] <= r1[0] and r1[1] <= r2[1])


def recount(world, delta, processed, clusters_of_gene):
    """expected (include, exclude) per feature and per group, from the alignments of processed reads.
       A read contributes only to features of genes loaded for its processing region (genes overlapping the read cluster)."""
    exons, introns = feature_table(world["genes"])
    exp_e = {}
    exp_i = {}
    undecided = set()
    for r in world["reads"]:
        B = [tuple(b) for b in r["blocks"]]
        if (r["name"], tuple(B)) not in processed:
            continue
        grp = r["name"].split("_")[-1]
        J = [(B[i][1] + 1, B[i + 1][0] - 1) for i in range(len(B) - 1)]
        span = (B[0][0], B[-1][1])
        inner = (B[0][1] + delta, B[-1][0] - delta)
        visible = clusters_of_gene(r)
        for (c, s, e), meta in exons.items():
            if not (meta["genes"] & visible):
                continue
            near = [b for b in B if abs(b[0] - s) <= 3 * delta + 20 and abs(b[1] - e) <= 3 * delta + 20]
            exact = [b for b in B if abs(b[0] - s) <= delta and abs(b[1] - e) <= delta]
            if near and not exact:
                undecided.add(("exon", c, s, e))
            if exact:
                exp_e.setdefault((c, s, e), {}).setdefault(grp, [0, 0])[0] += 1
            elif inner[0] <= s and e <= inner[1]:
                exp_e.setdefault((c, s, e), {}).setdefault(grp, [0, 0])[1] += 1
            elif B[0][1] < s and e < B[-1][0]:
                undecided.add(("exon", c, s, e))       # between the terminal exons but closer than delta to one of them: not decided here
        for (c, s, e), meta in introns.items():
            if not (meta["genes"] & visible):
                continue
            exact = [j for j in J if abs(j[0] - s) <= delta and abs(j[1] - e) <= delta]
            if exact:
                exp_i.setdefault((c, s, e), {}).setdefault(grp, [0, 0])[0] += 1
            elif overlaps_at_least(span, (s, e), 20):
                exp_i.setdefault((c, s, e), {}).setdefault(grp, [0, 0])[1] += 1
            else:
                ov = min(span[1], e) - max(span[0], s) + 1
                if 0 < ov < 45:
                    undecided.add(("intron", c, s, e))
    return exp_e, exp_i, undecided


def parse_feature_counts(path):
    rows = []
    if path is None or not os.path.exists(path):
        return None
    for l in open(path):
        if l.startswith("#") or not l.strip():
            continue
        v = l.rstrip("\n").split("\t")
        rows.append({"chr": v[0], "start": int(v[1]), "end": int(v[2]), "strand": v[3], "flags": v[4], "genes": set(v[5].split(",")),
                     "group": v[6], "inc": int(v[7]), "exc": int(v[8])})
    return rows


def case(args):
    variant, two_clusters, preset, grouped, scratch = args
    from vlib import syn, run
    delta = PRESETS[preset]
    w = make_world(variant, two_clusters)
    d = os.path.join(scratch, "c13_%s_%d_%s_%d" % (vtag(variant), two_clusters, preset, grouped))
    shutil.rmtree(d, ignore_errors=True)
    paths = syn.materialise(w, d)
    out = os.path.join(d, "out")
    extra = ["--count_exons", "--no_model_construction"] + PRESET_OPTS.get(preset, ["--matching_strategy", preset]) + \
        (["--read_group", "read_id:_"] if grouped else [])
    rc = run.run_isoquant(run.base_argv(paths, out, extra=extra), paths["home"], os.path.join(d, "o.txt"))
    errs = []
    nfeat = 0
    if rc != 0:
        errs.append(("run-failed", "exit %d: %s" % (rc, open(os.path.join(d, "o.txt")).read()[-300:])))
        shutil.rmtree(d, ignore_errors=True)
        return args[:4], errs, 0
    rows = run.parse_assignments(run.find(out, "OUT", ".read_assignments.tsv"))
    processed = set((r["read_id"], tuple(r["exon_list"])) for r in rows)
    exons, introns = feature_table(w["genes"])
    # which genes are loaded for a read: genes overlapping the read's alignment cluster (clusters are separated by gaps)
    reads_sorted = sorted((r for r in w["reads"] if not r.get("unmapped") and r["chr"] == "chr1"), key=lambda r: r["blocks"][0][0])
    clusters = []
    for r in reads_sorted:
        s, e = r["blocks"][0][0], r["blocks"][-1][1]
        if clusters and s <= clusters[-1][1]:
            clusters[-1][1] = max(clusters[-1][1], e)
        else:
            clusters.append([s, e])
    gene_span = {g["id"]: (min(t["exons"][0][0] for t in g["transcripts"]), max(t["exons"][-1][1] for t in g["transcripts"])) for g in w["genes"]}

    def visible(r):
        if r["chr"] != "chr1":
            return set()
        s = r["blocks"][0][0]
        cl = next(c for c in clusters if c[0] <= s <= c[1])
        direct = set(g for g, (a, b) in gene_span.items() if a <= cl[1] and b >= cl[0])
        return direct
    exp_e, exp_i, undecided = recount(w, delta, processed, visible)
    for kind, exp, table, suffix in (("exon", exp_e, exons, ".exon"), ("intron", exp_i, introns, ".intron")):
        ung = parse_feature_counts(run.find(out, "OUT", suffix + "_counts.tsv"))
        if ung is None:
            errs.append(("table-missing", "%s_counts.tsv missing" % suffix))
            continue
        seen = {}
        for r in ung:
            k = (r["chr"], r["start"], r["end"])
            nfeat += 1
            if k not in table:
                errs.append((kind + ":unknown-feature", "%s row %s is not an annotated %s" % (kind, k, kind)))
                continue
            meta = table[k]
            if r["genes"] != meta["genes"]:
                errs.append((kind + ":gene-list", "%s %s lists genes %s, annotation says %s" % (kind, k, sorted(r["genes"]), sorted(meta["genes"]))))
            if set(r["strand"]) != meta["strands"]:
                errs.append((kind + ":strand", "%s %s strand %r, annotation says %s" % (kind, k, r["strand"], sorted(meta["strands"]))))
            seen.setdefault(k, []).append(r)
        for k, rs in seen.items():
            if len(rs) > 1:
                errs.append((kind + ":dup-row", "%s %s is printed in %d rows (%s)" % (kind, k, len(rs), [(x["inc"], x["exc"]) for x in rs])))
        for k in table:
            if (kind, ) + k in undecided:
                continue
            e = exp.get(k, {})
            inc = sum(v[0] for v in e.values())
            exc = sum(v[1] for v in e.values())
            got_inc = sum(x["inc"] for x in seen.get(k, []))
            got_exc = sum(x["exc"] for x in seen.get(k, []))
            if (got_inc, got_exc) != (inc, exc):
                # a feature with a twin (another annotated feature of the same kind within delta at both ends): IsoQuant lets a read feature
                # match only its nearest annotated feature and reports the twin as excluded
                twin = delta > 0 and any(k2 != k and k2[0] == k[0] and abs(k2[1] - k[1]) <= delta and abs(k2[2] - k[2]) <= delta for k2 in table)
                if twin and got_inc + got_exc == inc + exc and got_inc <= inc:
                    errs.append((kind + ":count:twin-within-delta", "%s %s (another annotated %s lies within delta=%d of it): reported include/exclude "
                                 "%d/%d, by the statement %d/%d - reads that contain the feature within delta are counted as excluding it" %
                                 (kind, k, kind, delta, got_inc, got_exc, inc, exc)))
                    continue
                if variant == "long-locus" and got_inc == inc and got_exc < exc:
                    errs.append((kind + ":count:split-cluster-lost-exclusion", "%s %s in a read cluster that is cut into sub-regions: reported "
                                 "include/exclude %d/%d, recount %d/%d - the read that spans the feature is processed once per sub-region with that "
                                 "sub-region's genes, and the copy that is kept does not know the feature" % (kind, k, got_inc, got_exc, inc, exc)))
                    continue
                errs.append((kind + ":count", "%s %s: reported include/exclude %d/%d, recount from the alignments %d/%d" %
                             (kind, k, got_inc, got_exc, inc, exc)))
        if grouped:
            grp = parse_feature_counts(run.find(out, "OUT", suffix + "_grouped_counts.tsv"))
            if grp is None:
                errs.append(("table-missing", "%s_grouped_counts.tsv missing" % suffix))
                continue
            tot = {}
            for r in grp:
                k = (r["chr"], r["start"], r["end"])
                t = tot.setdefault(k, [0, 0])
                t[0] += r["inc"]
                t[1] += r["exc"]
                e = exp.get(k, {}).get(r["group"], [0, 0])
            for k in table:
                if (kind,) + k in undecided:
                    continue
                got = tuple(tot.get(k, [0, 0]))
                u = (sum(x["inc"] for x in seen.get(k, [])), sum(x["exc"] for x in seen.get(k, [])))
                if got != u:
                    errs.append((kind + ":grouped-not-partition", "%s %s: groups sum to %s, ungrouped row says %s" % (kind, k, got, u)))
            pergrp = {}
            for r in grp:
                k = (r["chr"], r["start"], r["end"], r["group"])
                pergrp.setdefault(k, [0, 0])
                pergrp[k][0] += r["inc"]
                pergrp[k][1] += r["exc"]
            for k in table:
                if (kind,) + k in undecided:
                    continue
                for g, v in exp.get(k, {}).items():
                    if tuple(pergrp.get(k + (g,), [0, 0])) != tuple(v):
                        errs.append((kind + ":group-count", "%s %s group %s: reported %s, recount %s" % (kind, k, g, pergrp.get(k + (g,), [0, 0]), v)))
    shutil.rmtree(d, ignore_errors=True)
    return args[:4], errs, nfeat


def run(ctx):
    quick = ctx.tier == "quick"
    jobs = []
    for variant in ((0, 1) if quick else (0, 1, 2)):
        for two in (0, 1, 2):
            for preset in PRESETS:
                for grouped in (0, 1):
                    jobs.append((variant, two, preset, grouped, ctx.scratch))
    # annotation grammar: every subset of <=2 (quick) / <=3 (thorough) isoform shapes x second-gene kinds
    ids = sorted(ISO_MENU)
    k = 0
    for n in range(1, (2 if quick else 3) + 1):
        for isos in itertools.combinations(ids, n):
            for second in SECOND:
                if second == "same+anti" and quick:
                    continue
                for preset in PRESETS:
                    for grouped in (0, 1):
                        k += 1
                        if quick and (k % 4) != (len(isos) + SECOND.index(second)) % 4:
                            continue            # quick: one (preset, grouping) combination per annotation, rotating
                        jobs.append(((isos, second), 0, preset, grouped, ctx.scratch))
    # several read clusters per gene (the gene list is loaded once per covered region; with a nested or overlapping second gene the
    # regions see different gene lists with the same outer coordinates) x the second-gene kinds
    for isos in ([("A1", "A2")] if quick else list(itertools.combinations(ids, 2))):
        for second in SECOND:
            for two in (1, 2):
                for preset in (("default",) if quick else ("exact", "default")):
                    jobs.append(((isos, second), two, preset, 0, ctx.scratch))
    for preset in ("exact", "default"):
        jobs.append(((("A1", "A8"), "none"), 0, preset, 0, ctx.scratch))
    jobs.append(("long-locus", 0, "default", 0, ctx.scratch))
    nrows = 0
    for key, errs, nf in core.pmap(case, jobs):
        nrows += nf
        for k, msg in errs:
            ctx.violation(k + (":two-regions" if key[1] else ""), "annotation variant %s, two read clusters=%d, preset %s, grouped=%d: %s" % (key + (msg,)),
                          {"case": list(key)})
    ctx.note("%d pipeline runs, %d feature rows compared with the recount" % (len(jobs), nrows))
    ctx.coverage.update({
        "evaluations": len(jobs), "distinct_nontrivial": len(jobs), "feature_rows_checked": nrows,
        "rule": "case = (annotation variant, one/two read clusters per gene, preset, grouping); each case carries all slot-subset reads; every "
                "annotated exon and intron is recounted",
        "exhaustive": True, "samples": [{"case": list(jobs[0][:4])}],
    })
    ctx.assumptions += ["features are matched exactly or are far (>3*delta+20) from read boundaries; near-threshold overlaps are not decided",
                        "a read contributes to the features of the genes overlapping its alignment cluster (IsoQuant processes loci cluster by cluster)"]


def replay(ctx, case_):
    c = list(case_["case"])
    if isinstance(c[0], list):
        c[0] = (tuple(c[0][0]), c[0][1])
    key, errs, n = case(tuple(c) + (ctx.scratch,))
    return errs[0][1] if errs else None
