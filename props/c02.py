"""C02 — expression tables equal the documented weighting of reported read assignments.

L1: real create_gene_counter / create_transcript_counter fed with real ReadAssignment objects: all multisets of <=n reads
    over an alphabet of assignment kinds x 5x5 strategies x 2 normalisations, split over two 'chromosomes' and pushed
    through dump -> merge_counts -> convert_counts_to_tpm; output FILES are parsed.
L2: cross-file recount on pipeline runs: gene/transcript tables recomputed from read_assignments.tsv + corrected BED,
    transcript_model_counts recomputed from transcript_model_reads.tsv, TPM = counts * 1e6 / sum.
"""
import itertools
import os
import shutil
from types import SimpleNamespace

from vlib import core

LEVEL = "exploration"

STAT_LINES = {"__ambiguous", "__no_feature", "__not_aligned", "__usable", "__unassigned"}     # a FEATURE id may start with two underscores too
STRATEGIES = ["unique_only", "with_ambiguous", "unique_splicing_consistent", "unique_inconsistent", "all"]


def weight(strategy, atype, k):
    """documented weight of a read of assignment type atype shared by k features"""
    amb = strategy in ("with_ambiguous", "all")
    if atype in ("unique", "unique_minor_difference"):
        return 1.0
    if atype == "ambiguous":
        if k == 1:
            return 1.0
        return 1.0 / k if amb else 0.0
    if atype == "inconsistent_non_intronic":
        if k > 1:
            return 1.0 / k if strategy == "all" else 0.0
        return 1.0 if strategy in ("unique_splicing_consistent", "unique_inconsistent", "all") else 0.0
    if atype == "inconsistent":
        if k > 1:
            return 1.0 / k if strategy == "all" else 0.0
        return 1.0 if strategy in ("unique_inconsistent", "all") else 0.0
    if atype == "inconsistent_ambiguous":
        return 1.0 / k if strategy == "all" else 0.0
    return 0.0


# ------------------------------------------------------------------------------------------------ L1
KINDS = {
    # kind: (assignment type, [(gene, transcript)], spliced corrected alignment?)
    "uniq_T1": ("unique", [("G1", "T1")], True),
    "minor_T1": ("unique_minor_difference", [("G1", "T1")], True),
    "uniq_T1_mono_read": ("unique", [("G1", "T1")], False),          # spliced isoform, corrected alignment mono-exonic
    "uniq_T3_mono": ("unique", [("G1", "T3")], False),               # mono-exonic isoform
    "amb_T1T2": ("ambiguous", [("G1", "T1"), ("G1", "T2")], True),
    "amb_T1T4": ("ambiguous", [("G1", "T1"), ("G2", "T4")], True),
    "incons_T1": ("inconsistent", [("G1", "T1")], True),
    "nonintr_T2": ("inconsistent_non_intronic", [("G1", "T2")], True),
    "incamb_T1T2": ("inconsistent_ambiguous", [("G1", "T1"), ("G1", "T2")], True),
    "incamb_T2T4": ("inconsistent_ambiguous", [("G1", "T2"), ("G2", "T4")], True),
    "noninf": ("noninformative", [], True),
    "intergenic": ("intergenic", [], True),
}
INTRONS = {"T1": [(1, 2)], "T2": [(1, 2)], "T3": [], "T4": [(5, 6)]}


def make_ra(i, kind):
    import src.isoform_assignment as IA
    atype, matches, spliced = KINDS[kind]
    RT = IA.ReadAssignmentType
    ms = [IA.IsoformMatch(IA.MatchClassification.full_splice_match, g, t) for g, t in matches]
    if not ms:
        ms = [IA.IsoformMatch(IA.MatchClassification.intergenic)] if atype == "intergenic" else []
    ra = IA.ReadAssignment("r%d" % i, RT[atype], ms)
    ra.gene_info = SimpleNamespace(all_isoforms_introns=INTRONS)
    ra.corrected_exons = [(1, 10), (20, 30)] if spliced else [(1, 30)]
    return ra


def expected_tables(reads, level, strategy):
    """returns ({feature: sum}, confirmed set, n_ambiguous, n_no_feature)"""
    sums = {}
    confirmed = set()
    n_amb = n_nof = 0
    for kind in reads:
        atype, matches, spliced = KINDS[kind]
        if not matches:
            n_nof += 1
            continue
        feats = sorted(set(g for g, t in matches)) if level == "gene" else sorted(set(t for g, t in matches))
        lt = atype
        if level == "gene":
            if atype == "ambiguous" and len(feats) == 1:
                lt = "unique"
            if atype == "inconsistent_ambiguous" and len(feats) == 1:
                lt = "inconsistent"
        if lt == "ambiguous":
            n_amb += 1
        w = weight(strategy, lt, len(feats))
        for f in feats:
            sums[f] = sums.get(f, 0.0) + w
        if lt in ("unique", "unique_minor_difference"):
            if level == "gene":
                confirmed.add(feats[0])
            elif spliced or not INTRONS[feats[0]]:
                confirmed.add(feats[0])
    return sums, confirmed, n_amb, n_nof


def l1_chunk(args):
    cases, scratch, wid = args
    from src.long_read_counter import create_gene_counter, create_transcript_counter
    from src.file_utils import merge_counts
    from vlib import run
    d = os.path.join(scratch, "c02_l1_%d" % wid)
    os.makedirs(d, exist_ok=True)
    bad = []
    n = 0
    nontriv = 0
    for reads, split in cases:
        kinds_present = set(KINDS[k][0] for k in reads)
        if len(kinds_present) > 1:
            nontriv += 1
        for level, maker, allf in (("gene", create_gene_counter, ["G1", "G2"]),
                                   ("transcript", create_transcript_counter, ["T1", "T2", "T3", "T4"])):
            for strategy in STRATEGIES:
                for norm in ("simple", "usable_reads"):
                    n += 1
                    for f in os.listdir(d):
                        os.remove(os.path.join(d, f))
                    prefix = os.path.join(d, "S." + level)
                    try:
                        # per-chromosome counters exactly as construct_models_in_parallel creates them, then merged
                        parts = [reads[:split], reads[split:]]
                        for ci, part in enumerate(parts):
                            c = maker(os.path.join(d, "S_chr%d.%s" % (ci, level)), strategy, complete_feature_list=allf, output_zeroes=True)
                            for i, kind in enumerate(part):
                                c.add_read_info(make_ra(i, kind))
                            c.dump()
                        main = maker(prefix, strategy, complete_feature_list=set(), output_zeroes=True)
                        merge_counts(main, "S", ["chr0", "chr1"], 3)
                        main.convert_counts_to_tpm(norm)
                    except Exception as e:  # noqa
                        bad.append(("exception", reads, level, strategy, norm, repr(e)))
                        continue
                    header, rows = run.parse_counts(prefix + "_counts.tsv")
                    got = {}
                    dup = False
                    for f, vals in rows.items():
                        if f in STAT_LINES:
                            continue
                        got[f] = sum(float(v[0]) for v in vals)
                    # a feature split over both parts is printed twice (one row per chromosome) only if it lives on two
                    # chromosomes, which real features never do: here G1/T1 may appear in both parts, rows are summed
                    sums, confirmed, n_amb, n_nof = expected_tables(reads, level, strategy)
                    # confirmation is per chromosome part in this harness (same feature in both parts): recompute per part
                    exp = {}
                    for part in parts:
                        s, cf, _, _ = expected_tables(part, level, strategy)
                        for f, v in s.items():
                            exp.setdefault(f, [0.0, 0.0])
                            exp[f][0] += v
                            if f in cf:
                                exp[f][1] += v
                    for f in allf:
                        g = got.get(f, 0.0)
                        full, conf = exp.get(f, [0.0, 0.0])
                        okvals = {round(full, 2), round(conf, 2), 0.0}
                        if level == "gene" or True:
                            pass
                        if round(g, 2) not in {round(x, 2) for x in okvals} and abs(g - full) > 0.011 and abs(g - conf) > 0.011:
                            bad.append(("value", reads, level, strategy, norm, "feature %s printed %.2f, documented weighting gives %.2f" % (f, g, full)))
                        elif conf > 0 and abs(g - conf) > 0.011 and abs(g - full) > 0.011:
                            bad.append(("zeroed-confirmed", reads, level, strategy, norm, "feature %s printed %.2f although confirmed (expected %.2f)" % (f, g, conf)))
                        elif conf > 0 and g == 0:
                            bad.append(("zeroed-confirmed", reads, level, strategy, norm, "feature %s printed 0 although a unique spliced read confirms it" % f))
                    stats = {k: int(float(v[0][0])) for k, v in rows.items() if k in STAT_LINES}
                    if stats.get("__ambiguous") != n_amb:
                        bad.append(("stat-ambiguous", reads, level, strategy, norm, "__ambiguous %s expected %d" % (stats.get("__ambiguous"), n_amb)))
                    if stats.get("__no_feature") != n_nof:
                        bad.append(("stat-no-feature", reads, level, strategy, norm, "__no_feature %s expected %d" % (stats.get("__no_feature"), n_nof)))
                    if stats.get("__not_aligned") != 3:
                        bad.append(("stat-not-aligned", reads, level, strategy, norm, "__not_aligned %s expected 3" % stats.get("__not_aligned")))
                    # TPM
                    th, trows = run.parse_counts(prefix + "_tpm.tsv")
                    tpm = {f: sum(float(v[0]) for v in vals) for f, vals in (trows or {}).items() if not f in STAT_LINES}
                    tot = sum(got.values())
                    if norm == "simple":
                        for f in got:
                            e = got[f] * 1e6 / tot if tot > 0 else 0.0
                            if abs(tpm.get(f, 0.0) - e) > 0.51 * 1e6 * 0.005 / max(tot, 1) + 1e-3:
                                bad.append(("tpm", reads, level, strategy, norm, "TPM of %s is %.6f, counts give %.6f" % (f, tpm.get(f, 0.0), e)))
                        if tot > 0 and abs(sum(tpm.values()) - 1e6) > 1.0:
                            bad.append(("tpm-sum", reads, level, strategy, norm, "TPMs sum to %.3f" % sum(tpm.values())))
                    else:
                        # usable_reads: ratios preserved
                        nz = [f for f in got if got[f] > 0]
                        for a, b in itertools.combinations(nz, 2):
                            if tpm.get(b, 0) and abs(tpm[a] / tpm[b] - got[a] / got[b]) > 1e-3 * max(1.0, got[a] / got[b]):
                                bad.append(("tpm-ratio", reads, level, strategy, norm, "ratio %s/%s differs between counts and TPM" % (a, b)))
    shutil.rmtree(d, ignore_errors=True)
    return n, nontriv, bad[:20]


# ------------------------------------------------------------------------------------------------ L2 cross-file recount
def recount(out, prefix, gene_strategy, transcript_strategy, mono_isoforms, n_unmapped=None):
    """returns list of (key, message) inconsistencies between the count tables and the per-read files"""
    from vlib import run
    errs = []
    rows = run.parse_assignments(run.find(out, prefix, ".read_assignments.tsv"))
    bed = {}
    for b in run.parse_bed(run.find(out, prefix, ".corrected_reads.bed")):
        bed.setdefault((b["name"], b["chr"]), []).append(b["blockCount"])
    per_read = {}
    for r in rows:
        key = (r["read_id"], r["chr"], r["exons"])
        d = per_read.setdefault(key, {"type": r["assignment_type"], "gtype": r["info"].get("gene_assignment"), "t": set(), "g": set(), "chr": r["chr"], "id": r["read_id"]})
        if r["isoform_id"] != ".":
            d["t"].add(r["isoform_id"])
            d["g"].add(r["gene_id"])
    for level, strategy in (("gene", gene_strategy), ("transcript", transcript_strategy)):
        sums = {}
        confirmed = set()
        n_amb = n_nof = 0
        per_id = {}
        per_id_types = {}
        for key, d in per_read.items():
            feats = d["g"] if level == "gene" else d["t"]
            atype = d["type"] if level == "transcript" else (d["gtype"] or d["type"])
            if not feats or atype in ("noninformative", "intergenic"):
                n_nof += 1
                continue
            if atype == "ambiguous":
                n_amb += 1
            w = weight(strategy, atype, len(feats))
            per_id[d["id"]] = per_id.get(d["id"], 0.0) + w * len(feats)
            per_id_types.setdefault(d["id"], []).append(atype)
            for f in feats:
                sums[f] = sums.get(f, 0.0) + w
            if atype in ("unique", "unique_minor_difference"):
                f = next(iter(feats))
                if level == "gene":
                    confirmed.add(f)
                else:
                    spliced = any(c > 1 for c in bed.get((d["id"], d["chr"]), []))
                    if spliced or f in mono_isoforms:
                        confirmed.add(f)
        heavy = sorted(rid for rid, v in per_id.items() if v > 1.0 + 1e-6)
        if heavy:
            tied = len(per_id_types[heavy[0]]) > 1 and set(per_id_types[heavy[0]]) == {"ambiguous"}
            errs.append(("read-weight-above-one" + (":tied-loci" if tied else ""), "%s table: read %s is reported at several loci and contributes %.2f in total" %
                         (level, heavy[0], per_id[heavy[0]])))
        header, table = run.parse_counts(run.find(out, prefix, ".%s_counts.tsv" % level))
        if table is None:
            errs.append(("table-missing", "%s counts table missing" % level))
            continue
        for f, vals in table.items():
            if f in STAT_LINES:
                continue
            if len(vals) > 1:
                errs.append(("duplicate-row", "%s table lists %s %d times" % (level, f, len(vals))))
            v = sum(float(x[0]) for x in vals)
            s = sums.get(f, 0.0)
            if abs(v) > 1e-9 and abs(v - s) > 0.011:
                errs.append(("value-not-sum", "%s %s = %.2f but the reported assignments give %.2f under %s" % (level, f, v, s, strategy)))
            if f in confirmed and abs(v - s) > 0.011:
                errs.append(("confirmed-zeroed", "%s %s = %.2f although a uniquely assigned spliced read supports it (sum %.2f)" % (level, f, v, s)))
        for f, s in sums.items():
            if s > 0 and f in confirmed and f not in table:
                errs.append(("feature-missing" + (":hash-named" if f.startswith("#") else ""), "%s %s missing from the table" % (level, f)))
        stats = {k: int(float(v[0][0])) for k, v in table.items() if k in STAT_LINES}
        if stats.get("__ambiguous") != n_amb:
            errs.append(("stat-ambiguous", "%s __ambiguous %s, read_assignments.tsv has %d such reads" % (level, stats.get("__ambiguous"), n_amb)))
        if stats.get("__no_feature") != n_nof:
            errs.append(("stat-no-feature", "%s __no_feature %s, read_assignments.tsv has %d such reads" % (level, stats.get("__no_feature"), n_nof)))
        if n_unmapped is not None and stats.get("__not_aligned") != n_unmapped:
            errs.append(("stat-not-aligned", "%s __not_aligned %s, the input has %d unmapped reads" % (level, stats.get("__not_aligned"), n_unmapped)))
        errs += tpm_errors(out, prefix, level)
    # transcript models
    p = run.find(out, prefix, ".transcript_model_reads.tsv")
    if p:
        import gzip
        per = {}
        op = gzip.open(p, "rt") if p.endswith(".gz") else open(p)
        for l in op:
            if l.startswith("#") or not l.strip():
                continue
            rid, tid = l.rstrip("\n").split("\t")[:2]
            per.setdefault(rid, []).append(tid)
        sums = {}
        for rid, tids in per.items():
            tids = [t for t in tids if t != "*"]
            if not tids:
                continue
            w = 1.0 if len(tids) == 1 else (1.0 / len(tids) if transcript_strategy in ("with_ambiguous", "all") else 0.0)
            for t in tids:
                sums[t] = sums.get(t, 0.0) + w
        header, table = run.parse_counts(run.find(out, prefix, ".transcript_model_counts.tsv"))
        if table is not None:
            for f, vals in table.items():
                if f in STAT_LINES:
                    continue
                v = sum(float(x[0]) for x in vals)
                if len(vals) > 1:
                    errs.append(("duplicate-row", "transcript_model table lists %s %d times" % (f, len(vals))))
                if abs(v) > 1e-9 and abs(v - sums.get(f, 0.0)) > 0.011:
                    loci = {}
                    for (rid_, chr_, ex_) in per_read:
                        loci.setdefault(rid_, set()).add((chr_, ex_))
                    tied = any(f in tids and len(loci.get(rid, ())) > 1 for rid, tids in per.items())
                    errs.append(("model-value-not-sum" + (":tied-loci" if tied else ""), "transcript_model %s = %.2f but transcript_model_reads gives %.2f" % (f, v, sums.get(f, 0.0))))
            # reads listed with '*' only (assigned to no model) are the table's __no_feature line, whatever region they came from
            n_star = sum(1 for rid, tids in per.items() if all(t == "*" for t in tids))
            nof = [int(float(x[0])) for k, v in table.items() if k == "__no_feature" for x in v]
            if nof and nof[0] != n_star:
                errs.append(("model-stat-no-feature", "transcript_model __no_feature %d, transcript_model_reads lists %d reads without a model" % (nof[0], n_star)))
            errs += tpm_errors(out, prefix, "transcript_model")
    return errs


def tpm_errors(out, prefix, level):
    from vlib import run
    errs = []
    h, c = run.parse_counts(run.find(out, prefix, ".%s_counts.tsv" % level))
    h2, t = run.parse_counts(run.find(out, prefix, ".%s_tpm.tsv" % level))
    if c is None or t is None:
        return errs
    counts = {f: sum(float(x[0]) for x in v) for f, v in c.items() if not f in STAT_LINES}
    tpm = {f: sum(float(x[0]) for x in v) for f, v in t.items() if not f in STAT_LINES}
    tot = sum(counts.values())
    if tot <= 0:
        return errs
    for f, v in counts.items():
        e = v * 1e6 / tot
        if abs(tpm.get(f, 0.0) - e) > 0.01:
            errs.append(("tpm", "%s TPM of %s is %.4f, counts give %.4f" % (level, f, tpm.get(f, 0.0), e)))
            break
    if abs(sum(tpm.values()) - 1e6) > 1.0:
        errs.append(("tpm-sum", "%s TPMs sum to %.2f" % (level, sum(tpm.values()))))
    return errs


def l2_world(variant):
    from vlib import worlds as W, syn
    w = W.standard_world()          # G1: T1 [0..4], T2 [0,2,3,4], T3 [0,1,2,4]; G3 mono T6 (5301-5900); G2 (chr2,-): T4 [0..3], T5 [0,1,3]
    reads = []
    n = 0

    def add(blocks, chrom="chr1", strand="+", count=2, **kw):
        nonlocal n
        for _ in range(count):
            reads.append(W.read_of("r%d" % n, chrom, blocks, strand=strand, **kw))
            n += 1
    add(W.exons(1000, [0, 1, 2, 3, 4]))                          # FSM T1
    add(W.exons(1000, [0, 2, 3, 4]))                             # FSM T2
    add(W.exons(1000, [0, 1, 2, 4]), count=1)                    # FSM T3
    add([[2251, 2400], [2801, 2950]], polya=False)               # ISM of T1/T2 (slots 2-3): ambiguous
    add([[1021, 1200], [1601, 1800], [2201, 2400], [2801, 3000], [3401, 3600]], polya=True)  # start 20 bp inside: unique (minor?)
    add([[971, 1200], [1601, 1800], [2201, 2400], [2801, 3000], [3401, 3600]])               # 30 bp elongation: unique_minor_difference
    add(W.exons(1000, [0, 1, 3, 4]))                             # novel combination: inconsistent
    add([[1001, 1200], [1601, 2400], [2801, 3000], [3401, 3600]])  # intron retention: inconsistent
    add([[881, 1200], [1601, 1800], [2201, 2400], [2801, 3000], [3401, 3600]], polya=False)   # 120-bp 5' extension: non-intronic inconsistency
    add([[5351, 5850]])                                          # mono-exon match T6
    add([[1250, 1550]], polya=False)                             # intronic mono-exonic
    add([[7000, 7400]], polya=False)                             # intergenic
    add(W.exons(1000, [0, 1, 2, 3]), chrom="chr2", strand="-")   # FSM T4
    add(W.exons(1000, [0, 1, 3]), chrom="chr2", strand="-")      # FSM T5
    add([[1001, 1200], [1601, 1750]], chrom="chr2", strand="-", polya=False)   # ambiguous T4/T5
    if variant >= 1:
        # a gene and a transcript whose ids start with two underscores (as the statistic lines of the tables do)
        w["genes"].append(W.locus_gene("__GU", "chr2", "+", 5000, {"__TU1": [0, 1, 2]}))
        syn.plant_for_transcripts(w)
        add(W.exons(5000, [0, 1, 2]), chrom="chr2", count=3)
        # multi-mapped reads with both alignments on ONE chromosome: primary FSM of T1 / secondary on the mono-exonic gene G3, and
        # primary FSM of T4 / secondary FSM of T5's locus on chr2: the losing alignment must not be counted
        reads.append(W.read_of("mmS1", "chr1", W.exons(1000, [0, 1, 2, 3, 4])))
        reads.append(W.read_of("mmS1", "chr1", [[5351, 5850]], secondary=True))
        reads.append(W.read_of("mmS2", "chr2", W.exons(1000, [0, 1, 2, 3]), strand="-"))
        reads.append(W.read_of("mmS2", "chr2", W.exons(1000, [0, 1, 3]), strand="-", secondary=True))
        reads.append({"name": "unm1", "unmapped": True})
        reads.append({"name": "unm2", "unmapped": True})
        add([[1001, 1200], [1601, 1800]], polya=False, mapq=0)     # low MAPQ consistent
    if variant >= 2:
        # a multi-mapped read whose alignments tie: the primary one is ambiguous over T1/T3 (slots 0-1), the secondary one a full match
        # of __TU1 on the other chromosome - one read, two loci
        reads.append(W.read_of("mmT", "chr1", [[1001, 1200], [1601, 1750]], polya=False))
        reads.append(W.read_of("mmT", "chr2", W.exons(5000, [0, 1, 2]), secondary=True))
    if variant >= 3:
        # a gene and a transcript whose ids start with '#' (the header lines of the tables do), on the chromosome processed second
        w["genes"].append(W.locus_gene("#GH", "chr2", "+", 7000, {"#TH1": [[7001, 7200], [7501, 7700]]}))
        syn.plant_for_transcripts(w)
        add([[7001, 7200], [7501, 7700]], chrom="chr2", count=3)
    w["reads"] = reads
    W.add_sites_for_blocks(w, "chr1", W.exons(1000, [0, 1, 3, 4]), "+")
    W.dedup_sites(w)
    return w


def l2m_case(args):
    """two experiments in one invocation (YAML): the reads of the pipeline world split in two, with 3 and 1 unmapped reads; every table
       of each experiment is recounted from that experiment's own files and input"""
    gs, ts, order, scratch = args
    from vlib import syn, run
    w = l2_world(1)
    d = os.path.join(scratch, "c02_l2m_%s_%s_%d" % (gs, ts, order))
    shutil.rmtree(d, ignore_errors=True)
    paths = syn.materialise(dict(w, reads=None), d)
    seqs = syn.genome_sequences(w)
    mapped = [r for r in w["reads"] if not r.get("unmapped")]
    names = sorted(set(r["name"] for r in mapped))
    first = set(names[0::2])
    exps = {"E1": [r for r in mapped if r["name"] in first] + [{"name": "u%d" % i, "unmapped": True} for i in range(3)],
            "E2": [r for r in mapped if r["name"] not in first] + [{"name": "u9", "unmapped": True}]}
    import yaml
    items = [{"data format": "bam"}]
    for x in (("E1", "E2") if order == 0 else ("E2", "E1")):
        syn.write_bam(w, os.path.join(d, x + ".bam"), reads=exps[x], seqs=seqs)
        items.append({"name": x, "long read files": [x + ".bam"]})
    with open(os.path.join(d, "in.yaml"), "w") as f:
        yaml.safe_dump(items, f)
    out = os.path.join(d, "out")
    rc = run.run_isoquant(["--output", out, "--reference", paths["ref"], "--yaml", os.path.join(d, "in.yaml"), "--data_type", "nanopore",
                           "--prefix", "OUT", "--threads", "1", "--genedb", paths["gtf"], "--complete_genedb",
                           "--gene_quantification", gs, "--transcript_quantification", ts], paths["home"], os.path.join(d, "o.txt"))
    errs = []
    if rc != 0:
        errs.append(("run-failed", "exit %d: %s" % (rc, open(os.path.join(d, "o.txt")).read()[-300:])))
    else:
        for x, n_unm in (("E1", 3), ("E2", 1)):
            try:
                errs += [(k, "experiment %s: %s" % (x, m)) for k, m in recount(out, x, gs, ts, {"T6", "__TU1"}, n_unmapped=n_unm)]
            except Exception as e:  # noqa
                errs.append(("recount-crashed", "experiment %s: %r" % (x, e)))
    shutil.rmtree(d, ignore_errors=True)
    return (gs, ts, order), errs


def l2d_case(args):
    """a gene with one annotated isoform T1 (five exons); n_fl full-length reads of T1, n_skip full-length reads that skip the third exon
    (a novel model that is built and - when it is rare enough - discarded again) and partial reads that fit both: every read ends up in at
    most one row of transcript_model_reads per model, and the model tables are the sums over that file"""
    n_fl, n_skip, part, scratch = args
    from vlib import syn, run, worlds as W
    w = W.base_world(1, 6000)
    w["genes"].append(W.locus_gene("G1", "chr1", "+", 1000, {"T1": [0, 1, 2, 3, 4]}))
    syn.plant_for_transcripts(w)
    W.add_sites_for_blocks(w, "chr1", W.exons(1000, [0, 1, 3, 4]), "+")
    W.dedup_sites(w)
    reads = [W.read_of("fl%d" % i, "chr1", W.exons(1000, [0, 1, 2, 3, 4])) for i in range(n_fl)]
    reads += [W.read_of("skip%d" % i, "chr1", W.exons(1000, [0, 1, 3, 4])) for i in range(n_skip)]
    pb = {"tail": [[2851, 3000], [3401, 3600]], "head": [[1001, 1200], [1601, 1750]]}[part]
    reads += [W.read_of("part%d" % i, "chr1", pb, polya=(part == "tail")) for i in range(7)]
    w["reads"] = reads
    d = os.path.join(scratch, "c02_l2d_%d_%d_%s" % (n_fl, n_skip, part))
    shutil.rmtree(d, ignore_errors=True)
    paths = syn.materialise(w, d)
    out = os.path.join(d, "out")
    rc = run.run_isoquant(run.base_argv(paths, out), paths["home"], os.path.join(d, "o.txt"))
    errs = []
    if rc != 0:
        errs.append(("run-failed", "exit %d: %s" % (rc, open(os.path.join(d, "o.txt")).read()[-300:])))
    else:
        errs += recount(out, "OUT", "unique_splicing_consistent", "unique_only", set())
        import gzip
        p = run.find(out, "OUT", ".transcript_model_reads.tsv")
        seen = {}
        for l in (gzip.open(p, "rt") if p.endswith(".gz") else open(p)):
            if l.startswith("#") or not l.strip():
                continue
            k = tuple(l.rstrip("\n").split("\t")[:2])
            seen[k] = seen.get(k, 0) + 1
        dup = sorted(k for k, c in seen.items() if c > 1)
        if dup:
            errs.append(("model-read-listed-twice", "transcript_model_reads lists %d (read, model) pairs more than once, e.g. %s" % (len(dup), dup[0])))
    shutil.rmtree(d, ignore_errors=True)
    return (n_fl, n_skip, part), errs


def l2_case(args):
    variant, gs, ts, norm, extra, scratch = args
    from vlib import syn, run
    w = l2_world(variant)
    d = os.path.join(scratch, "c02_l2_%d_%s_%s_%s_%s" % (variant, gs, ts, norm, "_".join(extra).replace("-", "")))
    shutil.rmtree(d, ignore_errors=True)
    paths = syn.materialise(w, d)
    out = os.path.join(d, "out")
    if "REUSED" in extra:
        # the output folder holds the tables of an earlier run on other reads (every second one) with the most permissive strategies
        extra = tuple(x for x in extra if x != "REUSED") + ("--force",)
        w_old = dict(w, reads=[r for i, r in enumerate(w["reads"]) if i % 2 == 0])
        p_old = syn.materialise(w_old, d + "_old")
        run.run_isoquant(run.base_argv(p_old, out, extra=["--gene_quantification", "all", "--transcript_quantification", "all"]),
                         paths["home"], os.path.join(d, "o_old.txt"))
        shutil.rmtree(d + "_old", ignore_errors=True)
    rc = run.run_isoquant(run.base_argv(paths, out, extra=["--gene_quantification", gs, "--transcript_quantification", ts,
                                                          "--normalization_method", norm] + list(extra)),
                          paths["home"], os.path.join(d, "o.txt"))
    if rc != 0:
        errs = [("run-failed", "exit %d: %s" % (rc, open(os.path.join(d, "o.txt")).read()[-300:]))]
    else:
        errs = recount(out, "OUT", gs, ts, {"T6"}) if norm == "simple" else [e for e in recount(out, "OUT", gs, ts, {"T6"}) if not e[0].startswith("tpm")]
        rows = run.parse_assignments(run.find(out, "OUT", ".read_assignments.tsv"))
        types = sorted(set(r["assignment_type"] for r in rows))
    shutil.rmtree(d, ignore_errors=True)
    return (variant, gs, ts, norm, extra), errs, (types if rc == 0 else [])


# ------------------------------------------------------------------------------------------------ L3 recount on the other worlds
def l3_case(args):
    """the cross-file recount on the worlds of other checks: MIX read-structure scenarios (novel isoforms, noise), C13's annotation
       grammar (genes sharing exons on the same and on the opposite strand: gene-ambiguous reads), the multi-chromosome mixed world"""
    kind, param, gs, ts, scratch = args
    from vlib import syn, run, mix, worlds as W
    if kind == "mix":
        w = mix.make_world(param, annotated=1)
        tag = "mix" + "-".join("%s%d" % x for x in param)
    elif kind == "c13":
        from props import c13
        w = c13.make_world(param, 0)
        tag = "c13" + c13.vtag(param)
    else:
        w = W.mixed_world(param, groups=False, multimappers=False)
        tag = "mixed%d" % param
    mono = set(t["id"] for g in w["genes"] for t in g["transcripts"] if len(t["exons"]) == 1)
    d = os.path.join(scratch, "c02_l3_%s_%s_%s" % (tag, gs, ts))
    shutil.rmtree(d, ignore_errors=True)
    paths = syn.materialise(w, d)
    out = os.path.join(d, "out")
    rc = run.run_isoquant(run.base_argv(paths, out, extra=["--gene_quantification", gs, "--transcript_quantification", ts,
                                                          "--model_construction_strategy", "all"]), paths["home"], os.path.join(d, "o.txt"))
    if rc != 0:
        errs = [("run-failed", "exit %d: %s" % (rc, open(os.path.join(d, "o.txt")).read()[-300:]))]
    else:
        try:
            errs = recount(out, "OUT", gs, ts, mono)
        except Exception as e:  # noqa
            errs = [("recount-crashed", repr(e))]
    shutil.rmtree(d, ignore_errors=True)
    return (kind, param, gs, ts), errs


def l3_jobs(ctx):
    from vlib import mix
    from props import c13
    quick = ctx.tier == "quick"
    pairs = [("unique_only", "unique_only"), ("all", "all")] if quick else [(s, s) for s in STRATEGIES]
    jobs = []
    scen = mix.scenarios(1, levels=(12,) if quick else (3, 12))
    if not quick:
        scen += [sc for sc in mix.scenarios(2, levels=(12,)) if len(sc) == 2]
    for sc in scen:
        for gs, ts in pairs:
            jobs.append(("mix", sc, gs, ts, ctx.scratch))
    ids = sorted(c13.ISO_MENU)
    variants = [0, 1, 2] + [(isos, sec) for n in (1, 2) for isos in itertools.combinations(ids, n) for sec in c13.SECOND]
    if quick:
        variants = variants[:3] + variants[3::11]
    for v in variants:
        for gs, ts in pairs:
            jobs.append(("c13", v, gs, ts, ctx.scratch))
    for n_chr in ((2,) if quick else (2, 3)):
        for gs, ts in pairs:
            jobs.append(("mixed", n_chr, gs, ts, ctx.scratch))
    return jobs


def run(ctx):
    quick = ctx.tier == "quick"
    nmax = 2 if quick else 3
    kinds = sorted(KINDS)
    cases = []
    for n in range(1, nmax + 1):
        for reads in itertools.combinations_with_replacement(kinds, n):
            for split in range(0, n + 1) if not quick else (0, n // 2 + (1 if n > 1 else 0)):
                if split > n:
                    continue
                cases.append((list(reads), split))
    cases = [c for i, c in enumerate(cases) if c not in cases[:i]] if len(cases) < 3000 else cases
    ctx.rng.shuffle(cases)
    ctx.note("L1: %d read multisets/splits (<=%d reads over %d kinds) x 2 levels x 5 strategies x 2 normalisations" % (len(cases), nmax, len(kinds)))
    total = nontriv = 0
    for n, nt, bad in core.pmap(l1_chunk, [(c, ctx.scratch, i) for i, c in enumerate(core.chunks(cases, core.NCPU * 2))]):
        total += n
        nontriv += nt
        for kind, reads, level, strategy, norm, msg in bad:
            ctx.violation("l1:%s:%s:%s" % (kind, level, strategy), "reads %s level %s strategy %s norm %s: %s" % (reads, level, strategy, norm, msg),
                          {"reads": reads, "level": level, "strategy": strategy, "norm": norm})
    ctx.note("L1 counter executions: %d" % total)
    jobs = []
    for variant in (0, 1, 2, 3):
        for gs, ts in (itertools.product(STRATEGIES, STRATEGIES) if not quick and variant < 2 else
                       [(s, s) for s in STRATEGIES] + [("unique_splicing_consistent", "unique_only")]):
            jobs.append((variant, gs, ts, "simple", (), ctx.scratch))
    if not quick:
        for gs in STRATEGIES:
            jobs.append((1, gs, gs, "usable_reads", (), ctx.scratch))
            jobs.append((1, gs, gs, "simple", ("--data_type", "pacbio_ccs"), ctx.scratch))
            jobs.append((1, gs, gs, "simple", ("--threads", "2"), ctx.scratch))
    for gs in (STRATEGIES if not quick else ("unique_only", "all")):
        jobs.append((1, gs, gs, "simple", ("REUSED",), ctx.scratch))
    seen_types = set()
    for key, errs, types in core.pmap(l2_case, jobs):
        seen_types.update(types)
        for k, msg in errs:
            ctx.violation("l2:%s" % k, "pipeline variant %s gene=%s transcript=%s norm=%s %s: %s" % (key + (msg,)), {"case": list(key[:4])})
    ctx.note("L2 pipeline runs: %d; assignment types seen in read_assignments: %s" % (len(jobs), sorted(seen_types)))
    jm = [(g_, g_, o_, ctx.scratch) for g_ in (("unique_only", "all") if quick else STRATEGIES) for o_ in (0, 1)]
    for key, errs in core.pmap(l2m_case, jm):
        for k, msg in errs:
            ctx.violation("l2m:%s" % k, "two experiments, gene=%s transcript=%s order %d: %s" % (key + (msg,)), {"l2m": list(key)})
    ctx.note("two-experiment runs: %d" % len(jm))
    jobs = jobs + jm
    jd2 = [(n_fl, n_skip, part, ctx.scratch) for n_fl in ((60, 170) if quick else (30, 60, 100, 170, 300)) for n_skip in ((2, 3) if quick else (1, 2, 3, 5, 8))
           for part in ("tail", "head")]
    for key, errs in core.pmap(l2d_case, jd2):
        for k, msg in errs:
            ctx.violation("l2d:%s" % k, "%d full-length reads, %d exon-skipping reads, partial reads at the %s: %s" % (key + (msg,)), {"l2d": list(key)})
    ctx.note("discarded-model runs: %d" % len(jd2))
    jobs = jobs + jd2
    # grouped TPM tables (a read group whose column total lies between 0 and 1): every group column is its counts column rescaled
    from props import c09
    jd = [(st, ctx.scratch) for st in ("with_ambiguous", "all", "unique_only", ("unique_only", "all"), ("all", "unique_only"))]
    for key, errs in core.pmap(c09.l3d_case, jd):
        for k, msg in errs:
            ctx.violation("l3d:%s" % k, "strategy %s: %s" % (key, msg), {"l3d": key})
    jobs = jobs + jd
    j3 = l3_jobs(ctx)
    for key, errs in core.pmap(l3_case, j3, chunksize=2):
        for k, msg in errs:
            ctx.violation("l3:%s:%s" % (key[0], k), "world %s %s gene=%s transcript=%s: %s" % (key + (msg,)), {"l3": [key[0], key[1], key[2], key[3]]})
    ctx.note("L3 recount on MIX / C13-grammar / mixed worlds: %d pipeline runs" % len(j3))
    jobs = jobs + j3
    ctx.coverage.update({
        "evaluations": total + len(jobs), "distinct_nontrivial": nontriv + len(jobs),
        "rule": "L1 case = (read-kind multiset, chromosome split, level, strategy, normalisation), distinct by construction; non-trivial = "
                ">=2 different assignment types in the multiset; L2 case = pipeline run (world variant, gene strategy, transcript strategy, normalisation)",
        "exhaustive": True, "l1_cases": total, "pipeline_runs": len(jobs), "assignment_types_seen_e2e": sorted(seen_types),
        "samples": [{"reads": cases[0][0], "split": cases[0][1]}, {"pipeline": list(jobs[0][:4])}],
    })
    ctx.assumptions += ["weights transcribed from docs/cmd.md (Quantification); a feature may be printed as 0 when no read confirms it",
                        "__ambiguous counts reads typed 'ambiguous' at the level of the table (gene tables use gene_assignment)",
                        "multi-locus ties (one read kept at several loci) are C08's subject and not generated here"]


def _tup(x):
    return tuple(_tup(y) for y in x) if isinstance(x, list) else x


def replay(ctx, case):
    if "l2d" in case:
        key, errs = l2d_case(tuple(case["l2d"]) + (ctx.scratch,))
        return errs[0][1] if errs else None
    if "l3d" in case:
        from props import c09
        key, errs = c09.l3d_case((case["l3d"], ctx.scratch))
        for k, msg in errs:
            ctx.violation("l3d:%s" % k, msg, case)
        return
    if "l2m" in case:
        key, errs = l2m_case(tuple(case["l2m"]) + (ctx.scratch,))
        return errs[0][1] if errs else None
    if "l3" in case:
        kind, param, gs, ts = case["l3"]
        key, errs = l3_case((kind, _tup(param), gs, ts, ctx.scratch))
        return errs[0][1] if errs else None
    if "case" in case:
        c = case["case"]
        key, errs, types = l2_case((c[0], c[1], c[2], c[3], (), ctx.scratch))
        return errs[0][1] if errs else None
    return "re-run ./check C02 (deterministic)"
