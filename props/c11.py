"""C11 — results are equivariant under coordinate translation and strand reflection.

Base scenarios: (a) the C01 read families on lattice annotations (assignment only), (b) noise-free MIX scenarios
(transcript models), (c) a split-locus world for bin-multiple shifts.  Transformations: insertion of k bases at the start
of every chromosome (k in {1, 7, 255, 256, 257, 1000}) and reverse-complementing the genome with annotation and
alignments mirrored.  Both runs are complete pipeline executions; outputs are compared after the inverse transform.
"""
import collections
import itertools
import os
import re
import shutil

from vlib import core

LEVEL = "exploration"

SHIFTS = (1, 7, 255, 256, 257, 1000)


# ------------------------------------------------------------------------------------------------ transformations
def translate_world(w, seqs, k):
    from vlib import syn
    w2 = {"chroms": {c: l + k for c, l in w["chroms"].items()}, "genes": [], "reads": [], "sites": []}
    for g in w["genes"]:
        w2["genes"].append(dict(g, transcripts=[dict(t, exons=[[s + k, e + k] for s, e in t["exons"]]) for t in g["transcripts"]]))
    for r in w["reads"]:
        if r.get("unmapped"):
            w2["reads"].append(dict(r))
        else:
            w2["reads"].append(dict(r, blocks=[[s + k, e + k] for s, e in r["blocks"]]))
    pad = syn.background("pad", k)
    seqs2 = {c: pad + s for c, s in seqs.items()}
    return w2, seqs2


def reflect_world(w, seqs):
    from vlib import syn
    L = w["chroms"]
    flip = {"+": "-", "-": "+", ".": "."}
    w2 = {"chroms": dict(L), "genes": [], "reads": [], "sites": []}
    for g in w["genes"]:
        n = L[g["chr"]] + 1
        w2["genes"].append(dict(g, strand=flip[g["strand"]], transcripts=[
            dict(t, exons=[[n - e, n - s] for s, e in reversed(t["exons"])]) for t in g["transcripts"]]))
    for r in w["reads"]:
        if r.get("unmapped"):
            w2["reads"].append(dict(r))
            continue
        n = L[r["chr"]] + 1
        r2 = dict(r, blocks=[[n - e, n - s] for s, e in reversed(r["blocks"])], reverse=not r.get("reverse", False))
        r2.pop("clip_left", None)
        r2.pop("clip_right", None)
        if r.get("clip_right"):
            r2["clip_left"] = syn.revcomp(r["clip_right"])
        if r.get("clip_left"):
            r2["clip_right"] = syn.revcomp(r["clip_left"])
        nb = len(r["blocks"])
        if r.get("edits"):
            # [block, offset from the block start in reference bases, kind, length]: deletions / mismatches cover ln reference bases,
            # an insertion sits between two reference bases
            ed2 = []
            for bi, off, kind, ln in r["edits"]:
                blen = r["blocks"][bi][1] - r["blocks"][bi][0] + 1
                ed2.append([nb - 1 - bi, blen - off - (0 if kind == "I" else ln), kind, ln])
            r2["edits"] = ed2
        if r.get("block_seq"):
            r2["block_seq"] = {nb - 1 - int(bi): syn.revcomp(sq) for bi, sq in r["block_seq"].items()}
        w2["reads"].append(r2)
    seqs2 = {c: syn.revcomp(s) for c, s in seqs.items()}
    return w2, seqs2


def write_world(w, seqs, d):
    from vlib import syn
    os.makedirs(d, exist_ok=True)
    paths = {"ref": os.path.join(d, "ref.fa")}
    syn.write_fasta(w, paths["ref"], seqs)
    if w["genes"]:
        paths["gtf"] = syn.write_gtf(w, os.path.join(d, "annot.gtf"))
    paths["bam"] = syn.write_bam(w, os.path.join(d, "reads.bam"), seqs=seqs)
    paths["home"] = os.path.join(d, "home")
    os.makedirs(paths["home"], exist_ok=True)
    return paths


# ------------------------------------------------------------------------------------------------ normalised outputs
RAW_SIDE_NAMES = ("correct_polya_site", "alternative_polya_site", "internal_polya", "alternative_tss", "fake_polya_site")


def norm_event(ev, mirror):
    name = ev.split(":")[0]
    if mirror and any(name.startswith(p) for p in RAW_SIDE_NAMES):
        if name.endswith("_left"):
            name = name[:-5] + "_right"
        elif name.endswith("_right"):
            name = name[:-6] + "_left"
    return name


def observe(out, w, inv):
    """inv(chr, s, e) -> (s, e) in base coordinates; returns dict of comparable structures"""
    from vlib import run
    obs = {}
    rows = run.parse_assignments(run.find(out, "OUT", ".read_assignments.tsv"))
    per = {}
    mirror = inv.mirror
    for r in rows:
        ex = tuple(sorted(inv(r["chr"], s, e) for s, e in r["exon_list"]))
        strand = {"+": "-", "-": "+"}.get(r["strand"], r["strand"]) if mirror else r["strand"]
        evs = tuple(sorted(norm_event(x, mirror) for x in r["assignment_events"].split(",")
                           if x and x != "." and not re.match(r"^\d+-\d+$", x)))
        per.setdefault((r["read_id"], r["chr"], ex), set()).add((r["isoform_id"], r["gene_id"], r["assignment_type"], strand, evs,
                                                              r["info"].get("Classification"), r["info"].get("PolyA")))
    obs["assignments"] = {k: tuple(sorted(v)) for k, v in per.items()}
    bed = {}
    for b in run.parse_bed(run.find(out, "OUT", ".corrected_reads.bed")):
        ex = tuple(sorted(inv(b["chr"], s, e) for s, e in b["blocks"]))
        strand = {"+": "-", "-": "+"}.get(b["strand"], b["strand"]) if mirror else b["strand"]
        bed.setdefault((b["name"], b["chr"]), []).append((ex, strand))
    obs["bed"] = {k: tuple(sorted(v)) for k, v in bed.items()}
    for level in ("gene", "transcript"):
        h, t = run.parse_counts(run.find(out, "OUT", ".%s_counts.tsv" % level))
        obs[level + "_counts"] = {f: tuple(v[0]) for f, v in (t or {}).items()}
    for kind in ("exon", "intron"):
        fp = run.find(out, "OUT", ".%s_counts.tsv" % kind)
        if fp is None:
            continue
        tab = {}
        for l in open(fp):
            if l.startswith("#") or not l.strip():
                continue
            v = l.rstrip("\n").split("\t")
            s_, e_ = inv(v[0], int(v[1]), int(v[2]))
            strand = "".join(sorted({"+": "-", "-": "+"}.get(c, c) for c in v[3])) if mirror else "".join(sorted(v[3]))
            tab.setdefault((v[0], s_, e_, strand, tuple(sorted(v[5].split(",")))), []).append((v[7], v[8]))
        obs[kind + "_feature_counts"] = {k: tuple(sorted(x)) for k, x in tab.items()}
    mp = os.path.join(out, "OUT", "OUT.transcript_models.gtf")
    if os.path.exists(mp):
        ts = run.gtf_transcripts(run.parse_gtf(mp))
        models = set()
        for tid, t in ts.items():
            ex = tuple(sorted(inv(t["chr"], s, e) for s, e in t["exons"]))
            strand = {"+": "-", "-": "+"}.get(t["strand"], t["strand"]) if mirror else t["strand"]
            known = tid if not tid.startswith("transcript") else "novel"
            models.add((t["chr"], strand, ex, known))
        obs["models"] = models
        h, t = run.parse_counts(run.find(out, "OUT", ".transcript_model_counts.tsv"))
        def chain_key(tid):
            ex = sorted(inv(ts[tid]["chr"], s, e) for s, e in ts[tid]["exons"])
            if len(ex) == 1:
                return (ts[tid]["chr"], "mono", round(ex[0][0], -2), round(ex[0][1], -2))
            return (ts[tid]["chr"], tuple((ex[i][1] + 1, ex[i + 1][0] - 1) for i in range(len(ex) - 1)), round(ex[0][0], -2), round(ex[-1][1], -2))
        chain_of = {tid: chain_key(tid) for tid in ts}
        obs["model_counts"] = {chain_of.get(f, f): tuple(v[0]) for f, v in (t or {}).items()}
    return obs


class Inv:
    def __init__(self, k=0, lengths=None):
        self.k = k
        self.lengths = lengths
        self.mirror = lengths is not None

    def __call__(self, c, s, e):
        if self.mirror:
            n = self.lengths[c] + 1
            return (n - e, n - s)
        return (s - self.k, e - self.k)


LAST_DIFF = {}


def compare(base, other, what):
    errs = []
    LAST_DIFF.clear()
    for key in base:
        if key not in other:
            continue
        if key in ("models", "model_counts") and not what.get("models", True):
            continue
        a, b = base[key], other[key]
        if a != b:
            if isinstance(a, dict):
                ks = [k for k in set(a) | set(b) if a.get(k) != b.get(k)]
                k0 = sorted(ks, key=str)[0]
                sub = key
                if key == "assignments":
                    LAST_DIFF["assignments"] = list(ks)
                    # a tail exactly apa_delta (50) away from the annotated end: "correct" polyA site on one strand, "alternative" one on
                    # the other, because the polyT position is reported 2 bases off (root cause of the polyT known finding)
                    def strip(v):
                        return tuple(tuple(tuple(e for e in x if "polya_site" not in e) if isinstance(x, tuple) else x for x in rec) for rec in (v or ()))

                    def has(v, word):
                        return any(word in e for rec in (v or ()) for x in rec if isinstance(x, tuple) for e in x)
                    if all(a.get(k) is not None and b.get(k) is not None and strip(a.get(k)) == strip(b.get(k)) and
                           {has(a.get(k), "correct_polya_site"), has(b.get(k), "correct_polya_site")} == {True, False} and
                           {has(a.get(k), "alternative_polya_site"), has(b.get(k), "alternative_polya_site")} == {True, False} for k in ks):
                        sub = "assignments:polya-site-at-apa-delta-boundary"
                errs.append((sub, "%s differs for %s: base %s, transformed %s (%d entries differ)" % (key, k0, a.get(k0), b.get(k0), len(ks))))
            else:
                # models: pair up models with equal intron chain and strand whose ends differ by a few bases
                oa, ob = sorted(a - b), sorted(b - a)
                sub = key
                if key == "models" and len(oa) == len(ob):
                    offs = set()
                    for x, y in zip(oa, ob):
                        if x[0] == y[0] and x[1] == y[1] and x[3] == y[3] and len(x[2]) == len(y[2]) and \
                                (len(x[2]) == 1 or (x[2][0][1] == y[2][0][1] and x[2][-1][0] == y[2][-1][0] and x[2][1:-1] == y[2][1:-1])) and \
                                abs(y[2][0][0] - x[2][0][0]) <= 5 and abs(y[2][-1][1] - x[2][-1][1]) <= 5:
                            offs.add((y[2][0][0] - x[2][0][0], y[2][-1][1] - x[2][-1][1]))
                        else:
                            offs.add(None)
                    if None not in offs:
                        # (0,+2): base model ends at its polyA site, the mirrored run extends the model 2 bases beyond the polyT head;
                        # (+2,0): the same for a base model on the '-' strand. One error per class of offsets (a scenario may hold models
                        # of several classes)
                        p2 = offs & {(0, 2), (2, 0)}
                        rest = offs - p2
                        if p2:
                            errs.append(("models:terminal-offset:polyT-2bp", "%s differ: only base %s, only transformed %s" % (key, oa[:2], ob[:2])))
                        for o in sorted(rest):
                            errs.append(("models:terminal-offset:%s" % [o], "%s differ: only base %s, only transformed %s" % (key, oa[:2], ob[:2])))
                        continue
                errs.append((sub, "%s differ: only base %s, only transformed %s" % (key, oa[:2], ob[:2])))
    return errs


# ------------------------------------------------------------------------------------------------ base scenarios
def assignment_world(idx):
    """C01 family: lattice annotation + derived reads (no edits), negative reads, a read starting at base 1 of chr2"""
    from props import c01
    from vlib import syn
    anns = c01.annotations("quick")
    name, w, iso, meta = anns[idx % len(anns)]
    reads = []
    k = 0
    for tid, (chrom, strand, ex, g) in iso.items():
        for r in c01.derive_reads(tid, chrom, strand, ex, 6, 1):
            if r["extras"].get("edits"):
                continue
            reads.append(dict({"name": "p%d" % k, "chr": chrom, "blocks": [list(b) for b in r["blocks"]]}, **r["extras"]))
            k += 1
        for r in c01.negative_reads(tid, chrom, strand, ex):
            reads.append(dict({"name": "n%d" % k, "chr": chrom, "blocks": [list(b) for b in r["blocks"]]}, **r["extras"]))
            k += 1
    # reads with an alternative (unannotated, non-overlapping) terminal exon, full-length and truncated at the other side: the
    # read then has another number of introns than the isoform it is compared with; both sides, so that the mirror image exists
    for tid, (chrom, strand, ex, g) in iso.items():
        if len(ex) < 3 or g != "G1":
            continue
        alt_last = (ex[-1][1] + 301, ex[-1][1] + 520)
        alt_first = (ex[0][0] - 520, ex[0][0] - 301)
        for nm_, bl in (("altlast_full", list(ex[:-1]) + [alt_last]), ("altlast_trunc", list(ex[1:-1]) + [alt_last]),
                        ("altfirst_full", [alt_first] + list(ex[1:])), ("altfirst_trunc", [alt_first] + list(ex[1:-1]))):
            if bl[0][0] < 1 or len(bl) < 2:
                continue
            reads.append({"name": "%s_%s_%d" % (nm_, tid, k), "chr": chrom, "blocks": [list(b) for b in bl], "reverse": strand == "-"})
            k += 1
    # reads that follow an isoform and carry a short spurious terminal exon (30 bp, 120 bp beyond the annotated end) on the 3' side
    # (with and without a polyA tail / polyT head) or on the 5' side: the fake-terminal-exon handling exists once per side and strand
    for tid, (chrom, strand, ex, g) in iso.items():
        if len(ex) < 2 or g != "G1":
            continue
        right = (ex[-1][1] + 120, ex[-1][1] + 149)
        left = (ex[0][0] - 149, ex[0][0] - 120)
        if left[0] < 1:
            continue
        for side, bl in (("R", list(ex) + [right]), ("L", [left] + list(ex))):
            three_prime = (side == "R") == (strand == "+")
            for tail in ((0, 1) if three_prime else (0,)):
                r = {"name": "fake%s%d_%s_%d" % (side, tail, tid, k), "chr": chrom, "blocks": [list(b) for b in bl], "reverse": strand == "-"}
                if tail:
                    r["clip_right" if strand == "+" else "clip_left"] = ("A" if strand == "+" else "T") * 30
                reads.append(r)
                k += 1
    # reads whose polyT head AND polyA tail are both aligned as short terminal blocks behind spurious introns (each side is trimmed by its
    # own branch; the mirror image of such a read has both as well)
    for tid, (chrom, strand, ex, g) in iso.items():
        if len(ex) < 2 or g != "G1" or ex[0][0] - 400 < 1:
            continue
        for clips in (0, 1):
            bl = [[ex[0][0] - 400, ex[0][0] - 376]] + [list(b) for b in ex] + [[ex[-1][1] + 376, ex[-1][1] + 400]]
            r = {"name": "bothtails%d_%s_%d" % (clips, tid, k), "chr": chrom, "blocks": bl, "reverse": strand == "-",
                 "block_seq": {0: "T" * 25, len(bl) - 1: "A" * 25}}
            if clips:
                r["clip_left"] = "T" * 10
                r["clip_right"] = "A" * 10
            reads.append(r)
            k += 1
    # mono-exonic reads next to the gene boundaries: adjacent to the first / last base without overlapping it, and overlapping exactly
    # one base of the gene (whether the gene is "seen" for the read must not depend on the side)
    g1 = [ex for tid, (chrom, strand, ex, g) in iso.items() if g == "G1"]
    gs, ge = min(e[0][0] for e in g1), max(e[-1][1] for e in g1)
    for nm_, bl in (("adjL", [gs - 300, gs - 1]), ("adjR", [ge + 1, ge + 300]), ("touchL", [gs - 300, gs]), ("touchR", [ge, ge + 300])):
        if bl[0] >= 1:
            reads.append({"name": "%s_%d" % (nm_, k), "chr": "chr1", "blocks": [bl], "reverse": False})
            k += 1
    reads.append({"name": "edge", "chr": "chr2", "blocks": [[1, 300], [701, 900]], "reverse": False})
    w = dict(w, reads=reads)
    syn.plant_for_transcripts(w)
    return w, "assign-%s%s" % (name, "+arich" if meta.get("arich") else "")


NOISE_FREE = ["K1", "K2", "K4", "P1", "Q1", "N1", "N2", "M1", "G1", "S1", "V1", "W1", "V2", "I1", "I2", "Y0", "H1", "H2", "MA", "S2"]


def model_world(scenario):
    from vlib import mix
    w = mix.make_world(scenario, annotated=True)
    w["reads"].append({"name": "edge", "chr": "chr2", "blocks": [[1, 300], [701, 900]], "reverse": False})
    return w, "mix-" + "-".join("%s%d" % x for x in scenario)


def case(args):
    kind, param, transform, scratch = args
    from vlib import syn, run, mix
    if kind == "assign":
        w, tag = assignment_world(param)
        extra = ["--no_model_construction"]
        models = False
    elif kind == "noisy":
        # hand-made noisy reads that exercise side-specific code: (0) read overhanging the 5' end of a multi-exon isoform inside a long
        # mono-exonic one, every intron shifted by 10 (left/right terminal penalties of the isoform pre-selection); (1) read with a 6-bp
        # exon that shares the END of a 40-bp annotated exon (overlap tests with equal right / left ends)
        from vlib import worlds as W
        w = W.base_world(1, 9000)
        if param[0] == 0:
            w["genes"].append({"id": "G1", "chr": "chr1", "strand": param[1], "transcripts": [
                {"id": "X", "exons": [[401, 3000]]},
                {"id": "Y", "exons": [[1000, 1200], [1501, 1700], [2001, 2200], [2501, 2700]]}]})
            blocks = [[[985, 1210], [1511, 1710], [2011, 2210], [2511, 2690]], [[1010, 1210], [1511, 1710], [2011, 2210], [2511, 2715]]]
        else:
            w["genes"].append({"id": "G1", "chr": "chr1", "strand": param[1], "transcripts": [
                {"id": "Y", "exons": [[501, 700], [1001, 1040], [1301, 1500], [1801, 2000]]}]})
            blocks = [[[511, 700], [1035, 1040], [1301, 1500], [1801, 1990]], [[511, 700], [1001, 1006], [1301, 1500], [1801, 1990]]]
        syn.plant_for_transcripts(w)
        w["reads"] = [{"name": "n%d" % i, "chr": "chr1", "blocks": b, "reverse": param[1] == "-"} for i, b in enumerate(blocks)]
        w["reads"].append({"name": "edge", "chr": "chr1", "blocks": [[1, 300]], "reverse": False})
        tag = "noisy%d%s" % (param[0], "p" if param[1] == "+" else "m")
        extra = ["--no_model_construction"]
        models = False
    elif kind == "boundary":
        # isolated mono-exonic reads next to gene boundaries (each read is a read cluster of its own): adjacent to the first / last base of
        # a gene without overlapping it (gene GA), overlapping exactly one base (gene GB); param = strand of the genes
        from vlib import worlds as W
        w = W.base_world(1, 12000)
        ea = [[2001, 2300], [2601, 2900], [3201, 3500]]
        eb = [[7001, 7300], [7601, 7900], [8201, 8500]]
        w["genes"].append({"id": "GA", "chr": "chr1", "strand": param, "transcripts": [{"id": "TA", "exons": ea}]})
        w["genes"].append({"id": "GB", "chr": "chr1", "strand": param, "transcripts": [{"id": "TB", "exons": eb}]})
        syn.plant_for_transcripts(w)
        w["reads"] = [{"name": "adjL", "chr": "chr1", "blocks": [[1701, 2000]], "reverse": False},
                      {"name": "adjR", "chr": "chr1", "blocks": [[3501, 3800]], "reverse": False},
                      {"name": "touchL", "chr": "chr1", "blocks": [[6702, 7001]], "reverse": False},
                      {"name": "touchR", "chr": "chr1", "blocks": [[8500, 8799]], "reverse": False},
                      {"name": "gapL", "chr": "chr1", "blocks": [[4700, 4999]], "reverse": True},
                      {"name": "edge", "chr": "chr1", "blocks": [[1, 300]], "reverse": False}]
        # a multi-mapped read: the primary record follows TA and carries the tail, the secondary record (SEQ '*', as aligners write it)
        # covers TA's last two exons - the two records are neighbours in coordinate order, in either direction
        tail = {"clip_right": "A" * 30} if param == "+" else {"clip_left": "T" * 30}
        w["reads"].append(dict({"name": "mmq", "chr": "chr1", "blocks": ea, "reverse": param == "-"}, **tail))
        w["reads"].append({"name": "mmq", "chr": "chr1", "blocks": [ea[1], [ea[2][0], ea[2][1] + 100]], "reverse": param == "-", "secondary": True,
                           "no_seq": True})          # starts after the primary record and ends after it: a neighbour in both directions
        tag = "boundary" + ("p" if param == "+" else "m")
        extra = ["--no_model_construction"]
        models = False
    elif kind == "ends":
        # a novel isoform (the annotated one skips its middle exon) supported by three reads: two end exactly at (1001, 1990), the third
        # one starts ds and ends de bases away (no tail of its own); tails = the first two carry a polyA tail / polyT head. Whether the
        # third read counts for the model (3 reads are needed) must not depend on which side of the locus its deviation lies
        from vlib import worlds as W
        strand, tails, ds, de = param
        w = W.base_world(1, 6000)
        novel = [[1001, 1200], [1451, 1600], [1801, 1990]]
        w["genes"].append({"id": "G1", "chr": "chr1", "strand": strand, "transcripts": [{"id": "T", "exons": [[1001, 1200], [1801, 1990]]}]})
        syn.plant_for_transcripts(w)
        W.add_sites_for_blocks(w, "chr1", novel, strand)
        W.dedup_sites(w)
        tail = ({"clip_right": "A" * 30} if strand == "+" else {"clip_left": "T" * 30}) if tails else {}
        w["reads"] = [dict({"name": "e%d" % i, "chr": "chr1", "blocks": [list(b) for b in novel], "reverse": strand == "-"}, **tail) for i in (1, 2)]
        third = [list(b) for b in novel]
        third[0][0] += ds
        third[-1][1] += de
        w["reads"].append({"name": "e3", "chr": "chr1", "blocks": third, "reverse": strand == "-"})
        if tails == 2:
            # two tail clusters 60 bp apart (three reads each) at the 3' side; the extra read carries a tail as well and ends between /
            # next to them: which cluster it joins must not depend on the orientation
            side = -1 if strand == "+" else 0
            for i in (4, 5, 6):
                b = [list(x) for x in novel]
                if strand == "+":
                    b[-1][1] += 60
                else:
                    b[0][0] -= 60
                w["reads"].append(dict({"name": "e%d" % i, "chr": "chr1", "blocks": b, "reverse": strand == "-"}, **tail))
            w["reads"].append(dict({"name": "e7", "chr": "chr1", "blocks": [list(x) for x in novel], "reverse": strand == "-"}, **tail))
            w["reads"][2].update(tail)
        w["reads"].append({"name": "edge", "chr": "chr1", "blocks": [[1, 300]], "reverse": False})
        tag = "ends-%s%d_%d_%d" % ("p" if strand == "+" else "m", tails, ds, de)
        extra = ["--model_construction_strategy", "all"]
        models = True
    elif kind == "mmtie":
        # multi-mapped reads in an unannotated region: the primary alignment at locus A, an identical secondary one at locus B on the
        # same chromosome (param: which of the two lies at the lower coordinates); neither is assigned to a gene
        from vlib import worlds as W
        w = W.base_world(1, 9000)
        w["genes"].append({"id": "G1", "chr": "chr1", "strand": "+", "transcripts": [{"id": "T", "exons": [[7001, 7300], [7601, 7900]]}]})
        syn.plant_for_transcripts(w)
        la = [[501, 700], [1001, 1200], [1501, 1800]]
        lb = [[b[0] + 3000, b[1] + 3000] for b in la]
        W.add_sites_for_blocks(w, "chr1", la, "+")
        W.add_sites_for_blocks(w, "chr1", lb, "+")
        W.dedup_sites(w)
        prim, sec = (la, lb) if param == 0 else (lb, la)
        for i in range(4):
            w["reads"].append({"name": "mt%d" % i, "chr": "chr1", "blocks": [list(b) for b in prim], "reverse": False, "clip_right": "A" * 30})
            w["reads"].append({"name": "mt%d" % i, "chr": "chr1", "blocks": [list(b) for b in sec], "reverse": False, "clip_right": "A" * 30,
                               "secondary": True})
        w["reads"].append({"name": "edge", "chr": "chr1", "blocks": [[1, 300]], "reverse": False})
        tag = "mmtie-%d" % param
        extra = ["--model_construction_strategy", "all"]
        models = True
    elif kind == "knownends":
        # three annotated isoforms with one intron chain whose starts ascend (1001, 1031, 1061) and whose ends are a permutation of
        # (3000, 3200, 3450); six polyA reads of a novel isoform (middle exon skipped) end 3 bases behind one of the annotated ends:
        # the model's end is snapped to the closest annotated end - on either strand, whatever the order the ends are listed in
        from vlib import worlds as W
        strand, perm, which = param
        w = W.base_world(1, 6000)
        ends = [(3000, 3200, 3450)[i] for i in perm]
        chain = [[1001, 1200], [1501, 1700], [2001, 2200], [2501, None]]
        ts = []
        for i, e in enumerate(ends):
            ex = [list(x) for x in chain]
            ex[0][0] = 1001 + 30 * i
            ex[-1][1] = e
            ts.append({"id": "T%d" % (i + 1), "exons": ex})
        w["genes"].append({"id": "G1", "chr": "chr1", "strand": strand, "transcripts": ts})
        syn.plant_for_transcripts(w)
        novel = [[1101, 1200], [2001, 2200], [2501, (3000, 3200, 3450)[which] + 3]]
        W.add_sites_for_blocks(w, "chr1", novel, strand)
        W.dedup_sites(w)
        if strand == "+":
            tail = {"clip_right": "A" * 30}
        else:
            # the gene is on '-': its 3' ends are the STARTS; mirror the coordinates inside the locus so that the varied ends are 3' ends
            tail = {"clip_left": "T" * 30}
        w["reads"] = [dict({"name": "k%d" % i, "chr": "chr1", "blocks": [list(b) for b in novel], "reverse": strand == "-"}, **tail) for i in range(6)]
        w["reads"].append({"name": "edge", "chr": "chr1", "blocks": [[1, 300]], "reverse": False})
        tag = "knownends-%s%s_%d" % ("p" if strand == "+" else "m", "".join(map(str, perm)), which)
        extra = ["--model_construction_strategy", "all"]
        models = True
    elif kind == "c13":
        # C13's annotations (overlapping / contained / shared / antisense exons, nested introns, intron-less loci) with all slot-subset
        # reads: exon and intron inclusion/exclusion tables of the mirrored input must be the mirrored tables
        from props import c13
        w = c13.make_world(param, 0)
        tag = "c13-" + c13.vtag(param)
        extra = ["--no_model_construction", "--count_exons"]
        models = False
    elif kind == "mixed":
        # the multi-chromosome world of C06/C10 (FSM, ISM, novel in/not in catalog, novel genes, mono-exonic reads, multimappers
        # across and within chromosomes); all alignments are noise-free
        from vlib import worlds as W
        w = W.mixed_world(param, groups=False, multimappers=True)
        tag = "mixed-%d" % param
        extra = ["--model_construction_strategy", "all"]
        models = True
    elif kind == "noise":
        # C14's noise family (misaligned / fake / retained features next to every exon of a 7-exon isoform): the corrected
        # alignments of the mirrored input must be the mirror image of the corrected alignments
        from props import c14
        strategy, preset = param
        w, _ = c14.noise_world(c14.PRESETS[preset], 1)
        tag = "noise-%s-%s" % (strategy, preset)
        extra = ["--no_model_construction", "--matching_strategy", preset, "--splice_correction_strategy", strategy]
        models = False
    else:
        w, tag = model_world(param)
        extra = ["--model_construction_strategy", "all"]
        models = True
    seqs = syn.genome_sequences(w)
    d = os.path.join(scratch, "c11_%s_%s" % (tag, str(transform).replace("-", "m")))
    shutil.rmtree(d, ignore_errors=True)
    pb = write_world(w, seqs, os.path.join(d, "base"))
    ob = os.path.join(d, "base", "out")
    rc = run.run_isoquant(run.base_argv(pb, ob, extra=extra), pb["home"], os.path.join(d, "base.txt"))
    errs = []
    if rc != 0:
        errs.append(("base-run-failed", "exit %d: %s" % (rc, open(os.path.join(d, "base.txt")).read()[-300:])))
        shutil.rmtree(d, ignore_errors=True)
        return (kind, tag, transform), errs, 0
    base = observe(ob, w, Inv())
    if transform == "reflect":
        w2, s2 = reflect_world(w, seqs)
        inv = Inv(lengths=w["chroms"])
    else:
        w2, s2 = translate_world(w, seqs, transform)
        inv = Inv(k=transform)
    pt = write_world(w2, s2, os.path.join(d, "tr"))
    ot = os.path.join(d, "tr", "out")
    rc = run.run_isoquant(run.base_argv(pt, ot, extra=extra), pt["home"], os.path.join(d, "tr.txt"))
    if rc != 0:
        errs.append(("transformed-run-failed", "exit %d: %s" % (rc, open(os.path.join(d, "tr.txt")).read()[-300:])))
    else:
        other = observe(ot, w2, inv)
        found = compare(base, other, {"models": models})
        diff_reads = LAST_DIFF.get("assignments") or []

        def at_boundary(rk):
            # a tailed read whose outermost aligned base at the tail side lies apa_delta (50) +-2 away from the 3' end of an isoform: the
            # polyT position is reported 2 bases further out than the polyA position of the mirror image (known finding), so the isoform
            # is within reach on one strand only
            rd = next((r for r in w["reads"] if r["name"] == rk[0] and r.get("chr") == rk[1]), None)
            if rd is None or not (rd.get("clip_left") or rd.get("clip_right")):
                return False
            pos = rd["blocks"][0][0] if rd.get("clip_left") else rd["blocks"][-1][1]
            for g in w["genes"]:
                if g["chr"] != rk[1]:
                    continue
                for t in g["transcripts"]:
                    end3 = t["exons"][0][0] if rd.get("clip_left") else t["exons"][-1][1]
                    if 48 <= abs(end3 - pos) <= 52:
                        return True
            return False
        boundary = bool(diff_reads) and all(at_boundary(rk) for rk in diff_reads)
        for k, msg in found:
            if boundary and k in ("assignments", "transcript_counts", "gene_counts"):
                k += ":polya-site-at-apa-delta-boundary"
            errs.append((k, msg))
    n = len(base.get("assignments", {}))
    shutil.rmtree(d, ignore_errors=True)
    return (kind, tag, transform), errs, n


def penalty_order_level(depth):
    """the penalty of an inconsistent match is the sum of its event costs; reflection reverses the order of the events along the read.
       Every sequence of <= depth events over one representative event per distinct cost, scored by the real
       LongReadAssigner.select_best_among_inconsistent for two isoforms - A with the events in that order, B with the reversed order:
       both have the same events, so they must tie whatever the order"""
    import src.isoform_assignment as IA
    from src.long_read_assigner import LongReadAssigner
    from types import SimpleNamespace
    by_cost = {}
    for t, c in IA.event_subtype_cost.items():
        if c > 0 and "elongation" not in t.name:
            by_cost.setdefault(c, t)
    reps = [by_cost[c] for c in sorted(by_cost)]
    a = LongReadAssigner.__new__(LongReadAssigner)
    a.params = SimpleNamespace(minor_exon_extension=50, major_exon_extension=300)
    a.coverage_based_nucleotide_score = None
    a.resolve_by_nucleotide_score = lambda profile, isoforms, similarity_function=None: isoforms
    bad = []
    n = 0
    for k in range(2, depth + 1):
        for seq in itertools.product(reps, repeat=k):
            if tuple(reversed(seq)) < seq and tuple(reversed(seq)) != seq:
                pass
            n += 1
            ev = [IA.MatchEvent(t) for t in seq]
            try:
                best, score = a.select_best_among_inconsistent(None, {"A": ev, "B": list(reversed(ev))})
            except Exception as e:  # noqa
                bad.append((seq, "select_best_among_inconsistent raised %r" % (e,)))
                continue
            if sorted(best) != ["A", "B"]:
                costs = [IA.event_subtype_cost[t] for t in seq]
                bad.append((seq, "events with costs %s: the isoform whose events come in this order and the one with the reversed order do not "
                                 "tie (best: %s): the sums differ in the last bit" % (costs, best)))
    return n, bad


def terminal_positions_level():
    """the real IntronGraph.collect_terminal_positions on one or two reads (2-3 exons on a 40-position grid, tiny terminal exons
       included) x every substitution of the first and of the last intron by an intron shifted by -3..3 at either site: the terminal
       positions collected for the mirror image of the input must be the mirror image of those collected for the input"""
    from src.intron_graph import IntronGraph
    from types import SimpleNamespace
    L = 41        # mirror: x -> L - x

    def mirror_iv(iv):
        return (L - iv[1], L - iv[0])

    def collect(reads, cmap):
        g = IntronGraph.__new__(IntronGraph)
        g.params = SimpleNamespace(delta=1)
        g.incoming_edges = collections.defaultdict(set)
        g.outgoing_edges = collections.defaultdict(set)
        g.intron_collector = SimpleNamespace(discarded_introns=set(), substitute=lambda v: cmap.get(v, v))
        g.read_assignments = reads
        pa, re_, pt, rs = g.collect_terminal_positions()
        flat = lambda d: sorted((k, p, c) for k, v in d.items() for p, c in v.items())
        return {"ends": flat(pa) + flat(re_), "starts": flat(pt) + flat(rs)}

    def read(exons, strand, tail):
        introns = [(exons[i][1] + 1, exons[i + 1][0] - 1) for i in range(len(exons) - 1)]
        pi = SimpleNamespace(external_polya_pos=-1, internal_polya_pos=-1, external_polyt_pos=-1, internal_polyt_pos=-1)
        if tail and strand == "+":
            pi.external_polya_pos = exons[-1][1] + 1
        if tail and strand == "-":
            pi.external_polyt_pos = exons[0][0] - 1
        return SimpleNamespace(multimapper=False, corrected_introns=introns, corrected_exons=list(exons), strand=strand, polya_info=pi)
    exon_sets = []
    for first_len in (1, 2, 4):
        for last_len in (1, 2, 4):
            exon_sets.append([(10, 10 + first_len - 1), (20, 23), (31 - last_len, 30)])
            exon_sets.append([(10, 10 + first_len - 1), (31 - last_len, 30)])
    bad = []
    n = 0
    import collections as _c
    for exons in exon_sets:
        introns = [(exons[i][1] + 1, exons[i + 1][0] - 1) for i in range(len(exons) - 1)]
        for which in (0, -1):
            for dl in range(-3, 4):
                for dr in range(-3, 4):
                    sub = (introns[which][0] + dl, introns[which][1] + dr)
                    if sub[0] >= sub[1]:
                        continue
                    cmap = {introns[which]: sub} if sub != introns[which] else {}
                    for strand in "+-":
                        for tail in (0, 1):
                            n += 1
                            base = collect([read(exons, strand, tail)], cmap)
                            m_exons = [mirror_iv(e) for e in reversed(exons)]
                            m_map = {mirror_iv(k): mirror_iv(v) for k, v in cmap.items()}
                            mir = collect([read(m_exons, "-" if strand == "+" else "+", tail)], m_map)
                            back_ends = sorted((mirror_iv(k), L - p, c) for k, p, c in mir["starts"])
                            back_starts = sorted((mirror_iv(k), L - p, c) for k, p, c in mir["ends"])
                            if back_ends != base["ends"] or back_starts != base["starts"]:
                                bad.append(((exons, which, dl, dr, strand, tail),
                                            "read exons %s strand %s tail %d, %s intron substituted by %s: ends %s starts %s, the mirrored input gives "
                                            "(mapped back) ends %s starts %s" % (exons, strand, tail, "first" if which == 0 else "last", sub,
                                                                                base["ends"], base["starts"], back_ends, back_starts)))
    return n, bad


def polya_verification_level():
    """PolyAVerifier.verify_polya vs verify_polyt on mirrored inputs: isoforms with and without short terminal exons, reads with the
       terminal variations the verifier looks at, tail positions on a grid around every terminal exon boundary (external and internal),
       every subset of the terminal events"""
    import src.isoform_assignment as IA
    from src.polya_verification import PolyAVerifier
    from src.polya_finder import PolyAInfo
    from types import SimpleNamespace
    L = 10000
    params = SimpleNamespace(apa_delta=50, delta=6, max_fake_terminal_exon_len=30, max_missed_exon_len=200)
    T = IA.MatchEventSubtype
    right = [T.exon_elongation_right, T.major_exon_elongation_right, T.fake_terminal_exon_right, T.terminal_exon_misalignment_right]
    to_left = {T.exon_elongation_right: T.exon_elongation_left, T.major_exon_elongation_right: T.major_exon_elongation_left,
               T.fake_terminal_exon_right: T.fake_terminal_exon_left, T.terminal_exon_misalignment_right: T.terminal_exon_misalignment_left,
               T.correct_polya_site_right: T.correct_polya_site_left, T.alternative_polya_site_right: T.alternative_polya_site_left}
    to_right = {v: k for k, v in to_left.items()}
    isoforms = [[(1000, 1200), (1500, 1700), (2000, 2300)],
                [(1000, 1200), (1500, 1700), (2000, 2300), (2400, 2420)],                  # short last exon (21 bp)
                [(1000, 1200), (1500, 1700), (2000, 2300), (2400, 2420), (2500, 2525)],    # two short last exons
                [(1000, 1200), (1500, 1700), (2000, 2300), (2400, 2550)]]                  # last exon of 151 bp (< max_missed_exon_len)
    reads = [[(1000, 1200), (1500, 1700), (2000, 2300)], [(1000, 1200), (1500, 1700), (2000, 2330)],
             [(1000, 1200), (1500, 1700), (2000, 2300), (2600, 2620)], [(1100, 1200), (1500, 1700), (2000, 2150)]]
    grid = sorted(set(x + d for x in (2150, 2300, 2330, 2420, 2525, 2550, 2620) for d in (-51, -50, -30, -7, -6, 0, 6, 7, 30, 50, 51)))
    mir = lambda ex: [(L - b, L - a) for a, b in reversed(ex)]
    bad = []
    n = 0

    def norm(events, n_introns, mirrored):
        out = []
        for e in events:
            t = e.event_type
            reg = tuple(e.isoform_region)
            info = e.event_info
            if mirrored:
                t = to_right.get(t, t)
                if 0 <= reg[0] < 10 ** 6:
                    reg = (n_introns - 1 - reg[1], n_introns - 1 - reg[0])
                if t in (T.correct_polya_site_right, T.alternative_polya_site_right):
                    info = L - info
            out.append((t.name, reg, info if t in (T.correct_polya_site_right, T.alternative_polya_site_right) else 0))
        return sorted(out)
    for iso in isoforms:
        for rd in reads:
            for k in range(0, 3):
                for evs in itertools.combinations(right, k):
                    if T.fake_terminal_exon_right in evs and len(rd) < 4:
                        continue
                    for ext, inte in [(g, -1) for g in grid] + [(-1, g) for g in grid] + [(g, g - 20) for g in grid[::3]]:
                        n += 1
                        va = PolyAVerifier(None, params)
                        vt = PolyAVerifier(None, params)
                        try:
                            a = va.verify_polya(iso, rd, PolyAInfo(ext, -1, inte, -1), [IA.MatchEvent(t) for t in evs])
                            b = vt.verify_polyt(mir(iso), mir(rd), PolyAInfo(-1, L - ext if ext != -1 else -1, -1, L - inte if inte != -1 else -1),
                                                [IA.MatchEvent(to_left[t]) for t in evs])
                        except Exception as e:  # noqa
                            bad.append(((iso, rd, evs, ext, inte), "raised %r" % (e,)))
                            continue
                        na, nb = norm(a, len(iso) - 1, False), norm(b, len(iso) - 1, True)
                        if na != nb:
                            bad.append(((iso, rd, evs, ext, inte), "isoform %s read %s events %s polyA external %d internal %d: verify_polya gives %s, "
                                        "verify_polyt on the mirror image gives the mirror image of %s" % (iso, rd, [t.name for t in evs], ext, inte, na, nb)))
    return n, bad


def cluster_positions_level():
    """IntronGraph.cluster_polya_positions / cluster_terminal_positions: every assignment of counts 1..3 to <= 3 of five positions next to
       the intron, with 0-1 annotated end among them, every insertion order of the positions (the order the reads arrive in): the clusters
       must not depend on that order, and the clusters of the mirrored positions (transcript starts) must be the mirror image"""
    import src.intron_graph as IG
    from types import SimpleNamespace
    L = 1000
    intron = (100, 200)
    m_intron = (L - 200, L - 100)
    grid = (300, 320, 340, 360, 400)
    bad = []
    n = 0

    def graph(known_end):
        g = IG.IntronGraph.__new__(IG.IntronGraph)
        g.params = SimpleNamespace(apa_delta=50, terminal_position_abs=1, terminal_position_rel=0.1)
        g.terminal_known_positions = collections.defaultdict(list)
        g.starting_known_positions = collections.defaultdict(list)
        if known_end is not None:
            g.terminal_known_positions[intron] = [known_end]
            g.starting_known_positions[m_intron] = [L - known_end]
        return g
    for k in (1, 2, 3):
        for ps in itertools.combinations(grid, k):
            for counts in itertools.product((1, 2, 3), repeat=k):
                for known in (None, 330, 410):
                    results = {}
                    for order in itertools.permutations(range(k)):
                        n += 1
                        d_end = {}
                        d_start = {}
                        for i in order:
                            d_end[ps[i]] = counts[i]
                            d_start[L - ps[i]] = counts[i]
                        e = graph(known).cluster_polya_positions(d_end, intron, True)
                        s_ = graph(known).cluster_polya_positions(d_start, m_intron, False)
                        results[order] = (tuple(sorted(e.items())), tuple(sorted((L - p, c) for p, c in s_.items())))
                    vals = set(results.values())
                    if len(set(v[0] for v in vals)) > 1 or len(set(v[1] for v in vals)) > 1:
                        o1, o2 = sorted(results)[0], next(o for o in sorted(results) if results[o] != results[sorted(results)[0]])
                        bad.append(("order", (ps, counts, known), "tail positions %s with counts %s, annotated end %s: clusters %s when the positions "
                                    "arrive in order %s but %s in order %s" % (ps, counts, known, results[o1][0], o1, results[o2][0], o2)))
                    elif any(v[0] != v[1] for v in vals):
                        v = next(iter(vals))
                        bad.append(("mirror", (ps, counts, known), "tail positions %s with counts %s, annotated end %s: end clusters %s, the start "
                                    "clusters of the mirror image are the mirror image of %s" % (ps, counts, known, v[0], v[1])))
    return n, bad


def cluster_monoexons_level():
    """GraphBasedModelConstructor.cluster_monoexons (tail positions of novel unspliced reads): as cluster_positions_level"""
    import inspect
    from src.graph_based_model_construction import GraphBasedModelConstructor
    from types import SimpleNamespace
    L = 1000
    grid = (300, 320, 340, 360, 400)
    takes_direction = len(inspect.signature(GraphBasedModelConstructor.cluster_monoexons).parameters) > 2
    bad = []
    n = 0
    for k in (1, 2, 3):
        for ps in itertools.combinations(grid, k):
            for counts in itertools.product((1, 2, 3), repeat=k):
                results = {}
                for order in itertools.permutations(range(k)):
                    n += 1
                    c = GraphBasedModelConstructor.__new__(GraphBasedModelConstructor)
                    c.params = SimpleNamespace(apa_delta=50)
                    d_end = {}
                    d_start = {}
                    for i in order:
                        d_end[ps[i]] = ["r"] * counts[i]
                        d_start[L - ps[i]] = ["r"] * counts[i]
                    e = c.cluster_monoexons(d_end, True) if takes_direction else c.cluster_monoexons(d_end)
                    s_ = c.cluster_monoexons(d_start, False) if takes_direction else c.cluster_monoexons(d_start)
                    results[order] = (tuple(sorted((p, len(v)) for p, v in e.items())), tuple(sorted((L - p, len(v)) for p, v in s_.items())))
                vals = set(results.values())
                if len(set(v[0] for v in vals)) > 1 or len(set(v[1] for v in vals)) > 1:
                    o1, o2 = sorted(results)[0], next(o for o in sorted(results) if results[o] != results[sorted(results)[0]])
                    bad.append(("order", (ps, counts), "tail positions %s of unspliced reads with counts %s: clusters %s when the positions arrive in "
                                "order %s but %s in order %s" % (ps, counts, results[o1][0], o1, results[o2][0], o2)))
                elif any(v[0] != v[1] for v in vals):
                    v = next(iter(vals))
                    bad.append(("mirror", (ps, counts), "tail positions %s with counts %s: polyA clusters %s, the polyT clusters of the mirror image "
                                "are the mirror image of %s" % (ps, counts, v[0], v[1])))
    return n, bad


def _iso_lists(U, maxk):
    """every sorted list of 1..maxk intervals over 1..U with at least one base between consecutive intervals"""
    out = []

    def rec(cur, lo):
        if cur:
            out.append(tuple(cur))
        if len(cur) == maxk:
            return
        for a in range(lo, U + 1):
            for b in range(a, U + 1):
                rec(cur + [(a, b)], b + 2)
    rec([], 1)
    return out


def isoform_profiles_chunk(args):
    """the exon, intron and split-exon profiles GeneInfo.from_models gives three isoforms of one gene (present / absent / outside the
       isoform) against those of the mirror image: same features mirrored, same values in reverse order"""
    U, lists, idx = args
    from src.gene_info import GeneInfo, TranscriptModel, TranscriptModelType
    bad = []
    n = 0
    mir = lambda ex: tuple((U + 1 - b, U + 1 - a) for a, b in reversed(ex))

    def profiles(isos, strand):
        tms = [TranscriptModel("chr1", strand, "t%d" % k, "g", list(ex), TranscriptModelType.known) for k, ex in enumerate(isos)]
        gi = GeneInfo.from_models(tms, delta=0)
        res = {}
        for kind, fp in (("exon", gi.exon_profiles), ("intron", gi.intron_profiles), ("split", gi.split_exon_profiles)):
            res[kind] = (list(fp.features), {t: list(p) for t, p in fp.profiles.items()})
        return res
    for i in idx:
        a = lists[i]
        for j in range(i, len(lists)):
            for k in range(j, len(lists)):
                isos = (a, lists[j], lists[k])
                n += 1
                try:
                    p0 = profiles(isos, "+")
                    p1 = profiles(tuple(mir(x) for x in isos), "-")
                except Exception as e:  # noqa
                    bad.append((isos, "exception %r" % (e,)))
                    continue
                for kind in p0:
                    f0, v0 = p0[kind]
                    f1, v1 = p1[kind]
                    back = [(U + 1 - b_, U + 1 - a_) for a_, b_ in f1]
                    if sorted(back) != sorted(f0):
                        bad.append((isos, "%s features %s, the mirror image has (mapped back) %s" % (kind, f0, sorted(back))))
                        break
                    # nested features are ordered differently in the two worlds: compare feature by feature
                    d = [t for t in v0 if dict(zip(back, v1[t])) != dict(zip(f0, v0[t]))]
                    if d:
                        t = d[0]
                        m1 = dict(zip(back, v1[t]))
                        bad.append((isos, "%s profile of isoform %s over features %s is %s, the mirror image gives (mapped back) %s" %
                                    (kind, isos[int(t[1:])], f0, v0[t], [m1[f] for f in f0])))
                        break
                if len(bad) > 3:
                    return n, bad
    return n, bad


def cluster_introns_level():
    """IntronCollector.cluster_introns on two or three unannotated introns that are similar (within the clustering distance) with counts
       1..3: the substitution map and the clustered counts of the mirrored introns must be the mirror image"""
    import src.intron_graph as IG
    from types import SimpleNamespace
    L = 10000
    base = (1201, 1500)
    variants = [(1204, 1500), (1201, 1503), (1204, 1503), (1198, 1500), (1204, 1497)]
    bad = []
    n = 0

    def run_(introns):
        c = IG.IntronCollector.__new__(IG.IntronCollector)
        c.delta = 6
        c.known_introns = set()
        c.clustered_introns = collections.defaultdict(int)
        c.intron_correction_map = {}
        c.discarded_introns = set()
        c.cluster_introns(dict(introns), 1)
        return dict(c.clustered_introns), dict(c.intron_correction_map)
    mi = lambda x: (L - x[1], L - x[0])
    for k in (1, 2):
        for vs in itertools.combinations(variants, k):
            for counts in itertools.product((1, 2, 3), repeat=k + 1):
                n += 1
                introns = dict(zip((base,) + vs, counts))
                a = run_(introns)
                b = run_({mi(i): c for i, c in introns.items()})
                back = ({mi(i): c for i, c in b[0].items()}, {mi(i): mi(j) for i, j in b[1].items()})
                if a != back:
                    tie = len(set(counts)) < len(counts)
                    bad.append(("tie" if tie else "other", (introns,), "introns with counts %s: clustered %s, substitutions %s; the mirror image gives "
                                "(mapped back) clustered %s, substitutions %s" % (introns, a[0], a[1], back[0], back[1])))
    return n, bad


def simplify_level(max_paths=3):
    """IntronGraph.simplify (tips, bulges, singleton dead ends, isolated introns) on small graphs built from intron chains with
       multiplicities: a main chain of four introns, variants of it with a similar second / third intron (bulges), truncated variants
       (tips at either side) - every set of <= max_paths chains x multiplicities from (1, 2, 5, 12); the simplified graph of the mirror
       image must be the mirror image (cases in which two similar introns are equally supported are left out: known finding)"""
    import src.intron_graph as IG
    from types import SimpleNamespace
    L = 2000
    I1, I2, I2b, I3, I3b, I4 = (100, 200), (300, 400), (312, 400), (500, 600), (500, 612), (700, 800)
    chains = [[I1, I2, I3, I4], [I1, I2b, I3, I4], [I1, I2, I3b, I4], [I1, I2, I3b], [I2b, I3, I4], [I1, I2], [I3, I4], [I2, I3], [I3b]]
    similar = [(I2, I2b), (I3, I3b)]
    mi = lambda x: (L - x[1], L - x[0])
    params = SimpleNamespace(graph_clustering_distance=20, graph_clustering_ratio=0.5, singleton_adjacent_cov=10,
                             min_novel_isolated_intron_abs=3, min_novel_isolated_intron_rel=0.02, debug=False)

    def run_(paths):
        g = IG.IntronGraph.__new__(IG.IntronGraph)
        g.params = params
        c = IG.IntronCollector.__new__(IG.IntronCollector)
        c.delta = 6
        c.known_introns = set()
        c.clustered_introns = collections.defaultdict(int)
        c.intron_correction_map = {}
        c.discarded_introns = set()
        g.intron_collector = c
        g.outgoing_edges = collections.defaultdict(set)
        g.incoming_edges = collections.defaultdict(set)
        g.edge_weights = collections.defaultdict(int)
        for path, mult in paths:
            for i in path:
                c.clustered_introns[i] += mult
        for path, mult in paths:
            for a, b in zip(path, path[1:]):
                g.add_edge(a, b)
        g.simplify()
        out = {k: set(v) for k, v in g.outgoing_edges.items() if v}
        inc = {k: set(v) for k, v in g.incoming_edges.items() if v}
        return dict((k, v) for k, v in c.clustered_introns.items() if v), out, inc, dict(c.intron_correction_map), set(c.discarded_introns)
    bad = []
    n = 0
    for k in range(1, max_paths + 1):
        for sel in itertools.combinations(range(len(chains)), k):
            for mults in itertools.product((1, 2, 5, 12), repeat=k):
                paths = [(chains[i], m) for i, m in zip(sel, mults)]
                tot = collections.Counter()
                for path, m in paths:
                    for i in path:
                        tot[i] += m
                if any(tot[a] and tot[a] == tot[b] for a, b in similar):
                    continue
                n += 1
                try:
                    a = run_(paths)
                    b = run_([([mi(i) for i in reversed(path)], m) for path, m in paths])
                except Exception as e:  # noqa
                    bad.append((paths, "simplify raised %r" % (e,)))
                    continue
                back = ({mi(i): c_ for i, c_ in b[0].items()}, {mi(i): set(mi(j) for j in v) for i, v in b[2].items()},
                        {mi(i): set(mi(j) for j in v) for i, v in b[1].items()}, {mi(i): mi(j) for i, j in b[3].items()}, set(mi(i) for i in b[4]))
                if a != back:
                    what = [nm for nm, x, y in zip(("counts", "outgoing", "incoming", "substitutions", "discarded"), a, back) if x != y]
                    bad.append((paths, "chains %s: the simplified graph of the mirror image is not the mirror image (%s differ): %s vs %s" %
                                (paths, ", ".join(what), [a[("counts", "outgoing", "incoming", "substitutions", "discarded").index(w)] for w in what][:1],
                                 [back[("counts", "outgoing", "incoming", "substitutions", "discarded").index(w)] for w in what][:1])))
    return n, bad


def junction_comparator_level(step=5):
    """JunctionComparator.compare_junctions: an isoform with three introns and a read whose middle intron is moved by (dl, dr) at its two
       sites (grid -80..80), with and without a read truncated to two introns: the events for the mirror image must be the mirrored
       events (side-specific event types swapped)"""
    import isoquant
    import src.isoform_assignment as IA
    from src.junction_comparator import JunctionComparator
    from src.long_read_profiles import OverlappingFeaturesProfileConstructor
    from src.common import equal_ranges
    from functools import partial
    from types import SimpleNamespace
    args = SimpleNamespace(matching_strategy="default", delta=None, resolve_ambiguous="default")
    isoquant.set_matching_options(args)
    L = 10001
    iso_introns = [(2001, 3000), (4001, 5000), (6001, 7000)]
    iso_region = (1000, 8000)
    mi = lambda x: (L - x[1], L - x[0])
    T = IA.MatchEventSubtype
    swap = {}
    for t in T:
        for a, b in (("_left", "_right"), ("_right", "_left")):
            if t.name.endswith(a) and hasattr(T, t.name[:-len(a)] + b):
                swap[t] = T[t.name[:-len(a)] + b]
    for a_, b_ in (("alt_left_site_known", "alt_right_site_known"), ("alt_left_site_novel", "alt_right_site_novel"),
                   ("extra_intron_flanking_left", "extra_intron_flanking_right"), ("ism_left", "ism_right")):
        swap[T[a_]] = T[b_]
        swap[T[b_]] = T[a_]

    def comparator(introns, region):
        ipc = OverlappingFeaturesProfileConstructor(introns, region, comparator=partial(equal_ranges, delta=args.delta))
        return JunctionComparator(args, ipc)
    cmp_base = comparator(iso_introns, iso_region)
    m_iso = [mi(i) for i in reversed(iso_introns)]
    cmp_mir = comparator(m_iso, mi(iso_region))
    bad = []
    n = 0
    for dl in range(-80, 81, step):
        for dr in range(-80, 81, step):
            for shape in ("full", "two-left", "two-right"):
                ri = [iso_introns[0], (iso_introns[1][0] + dl, iso_introns[1][1] + dr), iso_introns[2]]
                rr = iso_region
                if shape == "two-left":
                    ri, rr = ri[:2], (1000, 5500)
                elif shape == "two-right":
                    ri, rr = ri[1:], (3500, 8000)
                if ri[0][0] >= ri[0][1] or any(ri[k][1] >= ri[k + 1][0] for k in range(len(ri) - 1)):
                    continue
                n += 1
                try:
                    a = cmp_base.compare_junctions(ri, rr, iso_introns, iso_region)
                    b = cmp_mir.compare_junctions([mi(i) for i in reversed(ri)], mi(rr), m_iso, mi(iso_region))
                except Exception as e:  # noqa
                    bad.append(((dl, dr, shape), "compare_junctions raised %r" % (e,)))
                    continue
                na = sorted(e.event_type.name for e in a)
                nb = sorted(swap.get(e.event_type, e.event_type).name for e in b)
                if na != nb:
                    bad.append(((dl, dr, shape), "read %s with its middle intron moved by (%d, %d): events %s, the mirror image gives the mirrored "
                                "events %s" % (shape, dl, dr, na, nb)))
    return n, bad


def thread_ends_level():
    """IntronPathProcessor.thread_ends vs thread_starts on mirrored graphs: last intron (100,200) with every subset of terminal vertices
       out of two polyA and two read-end positions, with / without a following intron, every read end on a grid, trusted or not"""
    import src.intron_graph as IG
    from src.graph_based_model_construction import IntronPathProcessor
    from types import SimpleNamespace
    L = 1000
    params = SimpleNamespace(apa_delta=50, delta=6)

    def proc(out_edges, in_edges):
        g = IG.IntronGraph.__new__(IG.IntronGraph)
        g.outgoing_edges = out_edges
        g.incoming_edges = in_edges
        p = IntronPathProcessor.__new__(IntronPathProcessor)
        p.params = params
        p.intron_graph = g
        return p
    intron = (100, 200)
    m_intron = (L - 200, L - 100)
    bad = []
    n = 0
    polya_pos = (300, 360)
    end_pos = (320, 390)
    for pa in itertools.chain.from_iterable(itertools.combinations(polya_pos, k) for k in range(3)):
        for re_ in itertools.chain.from_iterable(itertools.combinations(end_pos, k) for k in range(3)):
            for nxt in (None, (340, 500)):
                outs = set((IG.VERTEX_polya, x) for x in pa) | set((IG.VERTEX_read_end, x) for x in re_)
                if nxt:
                    outs.add(nxt)
                ins = set((IG.VERTEX_polyt, L - x) for x in pa) | set((IG.VERTEX_read_start, L - x) for x in re_)
                if nxt:
                    ins.add((L - nxt[1], L - nxt[0]))
                pe = proc({intron: outs}, {})
                ps = proc({}, {m_intron: ins})
                for end in range(240, 460, 5):
                    for trusted in (False, True):
                        n += 1
                        a = pe.thread_ends(intron, end, trusted)
                        b = ps.thread_starts(m_intron, L - end, trusted)
                        am = None if a is None else ({IG.VERTEX_polya: "tail", IG.VERTEX_read_end: "end"}[a[0]], a[1])
                        bm = None if b is None else ({IG.VERTEX_polyt: "tail", IG.VERTEX_read_start: "end"}[b[0]], L - b[1])
                        if am != bm:
                            bad.append(((pa, re_, nxt, end, trusted), "tail vertices %s, end vertices %s, next intron %s, read end %d, trusted=%s: "
                                        "thread_ends gives %s, thread_starts on the mirrored graph gives the mirror image of %s" %
                                        (pa, re_, nxt, end, trusted, am, bm)))
    return n, bad


def run(ctx):
    quick = ctx.tier == "quick"
    n_te, bad_te = thread_ends_level()
    for case_, msg in bad_te[:3]:
        ctx.violation("l0:thread-ends-not-mirrored", msg, {"case": [list(case_[0]), list(case_[1]), list(case_[2] or ()), case_[3], case_[4]]})
    ctx.note("L0 thread ends/starts: %d (terminal vertices, read end, trusted) cases, thread_ends vs thread_starts on the mirrored graph" % n_te)
    n_cp, bad_cp = cluster_positions_level()
    for kind_, case_, msg in bad_cp[:3]:
        ctx.violation("l0:tail-clusters-%s" % ("order-dependent" if kind_ == "order" else "not-mirrored"), msg,
                      {"positions": list(case_[0]), "counts": list(case_[1]), "annotated_end": case_[2]})
    ctx.note("L0 tail clusters: %d (positions, counts, annotated end, insertion order) cases through the real cluster_polya_positions" % n_cp)
    n_jc, bad_jc = junction_comparator_level(10 if quick else 5)
    for case_, msg in bad_jc[:3]:
        ctx.violation("l0:junction-events-not-mirrored", msg, {"dl": case_[0], "dr": case_[1], "shape": case_[2]})
    ctx.note("L0 junction comparison: %d (moved middle intron, read shape) cases through the real compare_junctions, input vs mirror image" % n_jc)
    n_sg, bad_sg = simplify_level(2 if quick else 3)
    for kind_ in ("discarded", "other"):
        sel = [b for b in bad_sg if ("(discarded differ)" in b[1]) == (kind_ == "discarded")]
        for paths, msg in sel[:2]:
            ctx.violation("l0:simplify-not-mirrored" + (":discarded-only" if kind_ == "discarded" else ""), msg,
                          {"chains": [[[list(i) for i in path], m] for path, m in paths]})
    ctx.note("L0 graph simplification: %d sets of intron chains through the real IntronGraph.simplify, input vs mirror image" % n_sg)
    il = _iso_lists(6 if quick else 7, 2)
    n_ip = 0
    for n_, bad_ in core.pmap(isoform_profiles_chunk, [(6 if quick else 7, il, ix) for ix in core.chunks(list(range(len(il))), core.NCPU * 4)]):
        n_ip += n_
        for isos, msg in bad_[:1]:
            ctx.violation("l0:isoform-profiles-not-mirrored", "isoforms %s: %s" % (list(isos), msg), {"isoforms": [[list(e) for e in x] for x in isos]})
    ctx.note("L0 isoform profiles: %d triples of isoforms (<=2 exons over 1..%d) through the real GeneInfo.from_models, input vs mirror image" % (n_ip, 6 if quick else 7))
    n_ci, bad_ci = cluster_introns_level()
    for kind_ in ("tie", "other"):
        for k_, case_, msg in [b for b in bad_ci if b[0] == kind_][:2]:
            ctx.violation("l0:intron-clusters-not-mirrored" + (":count-tie" if kind_ == "tie" else ""), msg,
                          {"introns": [[list(i), c] for i, c in case_[0].items()]})
    ctx.note("L0 intron clusters: %d sets of similar unannotated introns with counts through the real cluster_introns, input vs mirror image" % n_ci)
    n_cm, bad_cm = cluster_monoexons_level()
    for kind_, case_, msg in bad_cm[:3]:
        ctx.violation("l0:monoexon-clusters-%s" % ("order-dependent" if kind_ == "order" else "not-mirrored"), msg,
                      {"positions": list(case_[0]), "counts": list(case_[1])})
    ctx.note("L0 monoexon clusters: %d cases through the real cluster_monoexons" % n_cm)
    n_pv, bad_pv = polya_verification_level()
    for case_, msg in bad_pv[:3]:
        ctx.violation("l0:polya-verification-not-mirrored", msg, {"isoform": [list(x) for x in case_[0]], "read": [list(x) for x in case_[1]],
                                                                  "events": [t.name for t in case_[2]], "external": case_[3], "internal": case_[4]})
    ctx.note("L0 polyA verification: %d cases, verify_polya vs verify_polyt on the mirror image" % n_pv)
    n_tp, bad_tp = terminal_positions_level()
    for case_, msg in bad_tp[:3]:
        ctx.violation("l0:terminal-positions-not-mirrored", msg, {"case": [list(map(list, case_[0]))] + list(case_[1:])})
    ctx.note("L0 terminal positions: %d (read, substitution) cases through the real collect_terminal_positions, input vs mirror image" % n_tp)
    n_po, bad_po = penalty_order_level(3 if quick else 4)
    for seq, msg in bad_po[:3]:
        ctx.violation("l0:penalty-depends-on-event-order", msg, {"events": [t.name for t in seq]})
    ctx.note("L0 penalty order: %d event sequences (one event per distinct cost, both orders scored by the real function)" % n_po)
    from vlib import mix
    from props import c01
    n_ann = len(c01.annotations("quick"))
    ann_idx = list(range(0, n_ann, 4)) if quick else list(range(n_ann))
    shifts = (7, 256, 257) if quick else SHIFTS
    jobs = []
    for i in ann_idx:
        for tr in list(shifts) + ["reflect"]:
            jobs.append(("assign", i, tr, ctx.scratch))
    scen = mix.scenarios(1 if quick else 2, levels=(3, 12) if quick else (3, 12), structs=NOISE_FREE)
    if not quick:
        scen = [s for s in scen if len(s) == 1 or all(l == 12 for _, l in s) or s[0][1] == 3]
    else:
        # quick: single structures plus every structure next to a thinly covered known isoform
        scen += [(("K1", 3), (st, 12)) for st in NOISE_FREE if st != "K1"]
        scen += [(("W1", 12), ("V2", 12)), (("W1", 3), ("V2", 12))]
    for sc in scen:
        for tr in list(shifts) + ["reflect"]:
            jobs.append(("mix", sc, tr, ctx.scratch))
    for strand in "+-":
        for tr in (["reflect", 257] if quick else list(shifts) + ["reflect"]):
            jobs.append(("boundary", strand, tr, ctx.scratch))
        for v in (0, 1):
            jobs.append(("noisy", (v, strand), "reflect", ctx.scratch))
    offs = (-30, 0, 30) if quick else (-60, -30, -10, 0, 10, 30, 60)
    for strand in "+-":
        for tails in (0, 1):
            for ds in offs:
                for de in offs:
                    if (ds, de) != (0, 0):
                        jobs.append(("ends", (strand, tails, ds, de), "reflect", ctx.scratch))
        # two tail clusters 60 bp apart, the extra read's tail next to / between them (offsets along the 3' side, apa_delta = 50 included)
        for off in ((-30, 25, 50) if quick else (-30, -10, 10, 20, 25, 30, 35, 40, 50, 70, 90)):
            jobs.append(("ends", (strand, 2, 0 if strand == "+" else -off, off if strand == "+" else 0), "reflect", ctx.scratch))
    for which in (0, 1):
        for tr in ("reflect", 257):
            jobs.append(("mmtie", which, tr, ctx.scratch))
    for strand in "+-":
        for perm in itertools.permutations(range(3)):
            for which in ((0, 2) if quick else (0, 1, 2)):
                jobs.append(("knownends", (strand, perm, which), "reflect", ctx.scratch))
    from props import c13
    ids = sorted(c13.ISO_MENU)
    c13_variants = [0, 1, 2] + [(isos, sec) for n in (1, 2) for isos in itertools.combinations(ids, n) for sec in c13.SECOND]
    if quick:
        c13_variants = c13_variants[:3] + c13_variants[3::9]
    for v in c13_variants:
        for tr in (["reflect"] if quick else ["reflect", 257]):
            jobs.append(("c13", v, tr, ctx.scratch))
    for n_chr in ((2,) if quick else (2, 3)):
        for tr in (["reflect", 257] if quick else list(shifts) + ["reflect"]):
            jobs.append(("mixed", n_chr, tr, ctx.scratch))
    from props import c14
    for strategy in (("default_ont", "all") if quick else sorted(c14.STRATEGIES)):
        for preset in (("default",) if quick else sorted(c14.PRESETS)):
            for tr in (["reflect", 257] if quick else list(shifts) + ["reflect"]):
                jobs.append(("noise", (strategy, preset), tr, ctx.scratch))
    ctx.rng.shuffle(jobs)
    nreads = 0
    for key, errs, n in core.pmap(case, jobs, chunksize=2):
        nreads += n
        for k, msg in errs:
            tr = "reflect" if key[2] == "reflect" else "shift"
            if str(key[1]).endswith("+arich"):
                # C01's annotation whose 3' terminal exon consists of genomic A's: aligned A-rich (T-rich) bases are taken for a tail
                k += ":a-rich-terminal-exon"
            ctx.violation("%s:%s:%s" % (tr, key[0], k), "scenario %s, transformation %s: %s" % (key[1], key[2], msg),
                          {"kind": key[0], "scenario": key[1], "transform": key[2]})
    ctx.note("%d (scenario, transformation) pairs, 2 pipeline runs each; %d read records compared" % (len(jobs), nreads))
    ctx.coverage.update({
        "evaluations": len(jobs), "distinct_nontrivial": len(jobs), "read_records_compared": nreads,
        "rule": "case = (base scenario, transformation); every case is non-trivial (the transformed world differs from the base); scenarios: "
                "C01 lattice annotations with all single-deviation reads + negatives, and noise-free MIX scenarios",
        "exhaustive": True, "shifts": list(shifts), "samples": [{"kind": jobs[0][0], "transform": jobs[0][2]}],
    })
    ctx.assumptions += [
        "loci stay below the region-splitting thresholds (the statement restricts split loci to bin-multiple shifts)",
        "event names are compared without their coordinates; raw side names (polyA/TSS events) have left/right swapped under reflection",
        "model comparison (sets of strand + exon chain, novel ids ignored) only for noise-free MIX scenarios",
    ]


def replay(ctx, c):
    if "isoforms" in c:
        isos = [tuple(tuple(e) for e in x) for x in c["isoforms"]]
        U = max(e[1] for x in isos for e in x)
        lists = sorted(set(isos))
        n, bad = isoform_profiles_chunk((U, lists, list(range(len(lists)))))
        hit = [m for i_, m in bad if sorted(i_) == sorted(isos)]
        return hit[0] if hit else None
    return "re-run ./check C11 (deterministic): scenario %s transformation %s" % (c.get("scenario"), c.get("transform"))
