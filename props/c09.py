"""C09 — grouped tables partition the ungrouped ones; matrix and linear formats agree.

L1: groupers on alignment stand-ins: tag present/absent/int-valued; read ids with 0/1/2 delimiters; table hit/miss/
    duplicate/malformed/comment rows; file labels.  Documented group or NA, never None, never an exception.
L2: real AssignedFeatureCounter (gene + transcript) with the read-group container presented in EVERY iteration order
    (the set order is the owned nondeterminism), all multisets of <=3 reads over 3 groups x formats; matrix == linear ==
    expected triples.
L3: pipeline: 4 grouping modes x 3 formats x every iteration order of the group universe (hook on load_read_info) x
    threads {1,2}; sums over groups == ungrouped, matrix == linear, every read counted under its documented group.
"""
import itertools
import os
import shutil
from types import SimpleNamespace

from vlib import core

STAT_LINES = {"__ambiguous", "__no_feature", "__not_aligned", "__usable", "__unassigned"}     # a feature id may start with "__" as well
LEVEL = "exploration"


class FakeAln:
    def __init__(self, name, tags=None):
        self.query_name = name
        self.tags = tags or {}

    def get_tag(self, t):
        return self.tags[t]


def l1_groupers(scratch):
    import src.read_groups as RG
    bad = []
    n = 0

    def expect(desc, fn, exp):
        nonlocal n
        n += 1
        try:
            got = fn()
        except Exception as e:  # noqa
            bad.append((desc, "raised " + repr(e)))
            return
        if got != exp:
            bad.append((desc, "returned %r, documented group is %r" % (got, exp)))
        elif not isinstance(got, str):
            bad.append((desc, "returned non-string %r" % (got,)))
    # tag
    for tag in ("RG", "CB"):
        g = RG.AlignmentTagReadGrouper(tag)
        expect("tag:%s present" % tag, lambda: g.get_group_id(FakeAln("r", {tag: "A1"})), "A1")
        expect("tag:%s absent" % tag, lambda: g.get_group_id(FakeAln("r", {"XX": "A1"})), "NA")
        expect("tag:%s empty" % tag, lambda: g.get_group_id(FakeAln("r", {tag: ""})), "")
        if "NA" not in g.read_groups or "A1" not in g.read_groups:
            bad.append(("tag:%s universe" % tag, "read_groups=%r lacks observed groups" % (g.read_groups,)))
    # read id
    for delim in ("_", ":", "|"):
        g = RG.ReadIdSplitReadGrouper(delim)
        expect("read_id:%s one delimiter" % delim, lambda: g.get_group_id(FakeAln("read%sA1" % delim)), "A1")
        expect("read_id:%s two delimiters" % delim, lambda: g.get_group_id(FakeAln("a%sb%sgB" % (delim, delim))), "gB")
        expect("read_id:%s no delimiter" % delim, lambda: g.get_group_id(FakeAln("readA1")), "NA")
        groups_ok = all(isinstance(x, str) for x in g.read_groups)
        if not groups_ok or "NA" not in g.read_groups:
            bad.append(("read_id:%s universe" % delim, "read_groups=%r after a read without delimiter (NA must be a group)" % (g.read_groups,)))
    # ... and through the option parser (--read_group read_id:DELIM), as the pipeline builds the grouper
    from types import SimpleNamespace
    for delim in ("_", ":", "|", "_BC_", "::"):
        try:
            g = RG.create_read_grouper(SimpleNamespace(read_group="read_id:" + delim), None, "chr1")
        except Exception as e:  # noqa
            bad.append(("option read_id:%s" % delim, "create_read_grouper raised " + repr(e)))
            continue
        expect("option read_id:%s one delimiter" % delim, lambda: g.get_group_id(FakeAln("read%sA1" % delim)), "A1")
        expect("option read_id:%s no delimiter" % delim, lambda: g.get_group_id(FakeAln("readA1")), "NA")
    # table
    tbl = os.path.join(scratch, "groups.tsv")
    with open(tbl, "w") as f:
        f.write("#read\tgroup\nr1\tA1\nr2\tgB\n\nmalformed_row\nr3\tA1\textra\nr2\tgB\n")
    g = RG.ReadTableGrouper(tbl)
    expect("table hit", lambda: g.get_group_id(FakeAln("r1")), "A1")
    expect("table hit 2", lambda: g.get_group_id(FakeAln("r2")), "gB")
    expect("table extra column", lambda: g.get_group_id(FakeAln("r3")), "A1")
    expect("table miss", lambda: g.get_group_id(FakeAln("zz")), "NA")
    expect("table malformed row", lambda: g.get_group_id(FakeAln("malformed_row")), "NA")
    with open(tbl, "w") as f:
        f.write("A1;r1\ngB;r2\n")
    g = RG.ReadTableGrouper(tbl, 1, 0, ";")
    expect("table custom columns", lambda: g.get_group_id(FakeAln("r2")), "gB")
    # file name
    sample = SimpleNamespace(readable_names_dict={"/x/a.bam": "L1", "/x/b.bam": "L2"})
    g = RG.FileNameGrouper(SimpleNamespace(), sample)
    expect("file_name label", lambda: g.get_group_id(FakeAln("r"), "/x/b.bam"), "L2")
    expect("file_name unknown file", lambda: g.get_group_id(FakeAln("r"), "/x/c.bam"), "/x/c.bam")
    expect("file_name none", lambda: g.get_group_id(FakeAln("r"), None), "NA")
    expect("default", lambda: RG.DefaultReadGrouper().get_group_id(FakeAln("r")), "NA")
    return n, bad


# ------------------------------------------------------------------------------------------------ L2
def make_ra(read_id, kind, group):
    import src.isoform_assignment as IA
    RT = IA.ReadAssignmentType
    gi = SimpleNamespace(all_isoforms_introns={"T1": [(1, 2)], "T2": [(1, 2)], "T3": []})
    if kind == "u1":
        ra = IA.ReadAssignment(read_id, RT.unique, IA.IsoformMatch(IA.MatchClassification.full_splice_match, "G1", "T1"))
    elif kind == "u2":
        ra = IA.ReadAssignment(read_id, RT.unique_minor_difference, IA.IsoformMatch(IA.MatchClassification.full_splice_match, "G1", "T2"))
    elif kind == "amb":
        ra = IA.ReadAssignment(read_id, RT.ambiguous, [IA.IsoformMatch(IA.MatchClassification.incomplete_splice_match, "G1", "T1"),
                                                       IA.IsoformMatch(IA.MatchClassification.incomplete_splice_match, "G1", "T2")])
    else:
        ra = IA.ReadAssignment(read_id, RT.intergenic, IA.IsoformMatch(IA.MatchClassification.intergenic))
    ra.read_group = group
    ra.gene_info = gi
    ra.corrected_exons = [(1, 10), (20, 30)]
    return ra


def l2_chunk(args):
    cases, scratch, wid = args
    from src.long_read_counter import create_gene_counter, create_transcript_counter, GroupedOutputFormat
    from vlib import run
    bad = []
    n = 0
    nontriv = 0
    d = os.path.join(scratch, "l2_%d" % wid)
    os.makedirs(d, exist_ok=True)
    for (reads, order, fmt, strategy) in cases:
        n += 1
        if len(set(g for _, g in reads)) > 1:
            nontriv += 1
        for level, maker in (("gene", create_gene_counter), ("transcript", create_transcript_counter)):
            prefix = os.path.join(d, level)
            for f in os.listdir(d):
                os.remove(os.path.join(d, f))
            try:
                c = maker(prefix, strategy, complete_feature_list=(["G1"] if level == "gene" else ["T1", "T2"]),
                          read_groups=list(order), grouped_format=GroupedOutputFormat[fmt])
                for i, (kind, grp) in enumerate(reads):
                    c.add_read_info(make_ra("r%d" % i, kind, grp))
                c.dump()
            except Exception as e:  # noqa
                bad.append(("exception", reads, order, fmt, level, repr(e)))
                continue
            # expected triples
            exp = {}
            for kind, grp in reads:
                if level == "gene":
                    feats = {"u1": ["G1"], "u2": ["G1"], "amb": ["G1"], "none": []}[kind]
                    w = 1.0
                else:
                    feats = {"u1": ["T1"], "u2": ["T2"], "amb": ["T1", "T2"], "none": []}[kind]
                    w = 1.0 if kind != "amb" else (0.5 if strategy in ("with_ambiguous", "all") else 0.0)
                for ft in feats:
                    exp[(ft, grp)] = exp.get((ft, grp), 0.0) + w
            # unconfirmed features are zeroed (transcripts supported only by ambiguous reads; gene: ambiguous over one gene is unique)
            confirmed = set()
            for kind, grp in reads:
                if kind in ("u1", "u2"):
                    confirmed.add({"u1": "T1", "u2": "T2"}[kind] if level == "transcript" else "G1")
                if kind == "amb" and level == "gene":
                    confirmed.add("G1")
            exp = {k: (v if k[0] in confirmed else 0.0) for k, v in exp.items()}
            exp_nz = {k: round(v, 2) for k, v in exp.items() if v}
            mat = lin = None
            if fmt in ("matrix", "both"):
                header, rows = run.parse_counts(prefix + "_counts.tsv")
                mat = {}
                if header:
                    groups = header[1:]
                    if groups != sorted(order):
                        bad.append(("matrix-header", reads, order, fmt, level, "header %s" % groups))
                    for ft, vals in rows.items():
                        for v in vals:
                            for gname, x in zip(groups, v):
                                if float(x):
                                    mat[(ft, gname)] = round(mat.get((ft, gname), 0.0) + float(x), 2)
                if mat != exp_nz:
                    bad.append(("matrix-wrong", reads, order, fmt, level, "matrix triples %s expected %s" % (sorted(mat.items()), sorted(exp_nz.items()))))
            if fmt in ("linear", "both"):
                lin = {}
                for l in open(prefix + "_counts_linear.tsv"):
                    if l.startswith("#") or not l.strip():
                        continue
                    ft, gname, x = l.rstrip("\n").split("\t")
                    if float(x):
                        lin[(ft, gname)] = round(lin.get((ft, gname), 0.0) + float(x), 2)
                if lin != exp_nz:
                    bad.append(("linear-wrong", reads, order, fmt, level, "linear triples %s expected %s" % (sorted(lin.items()), sorted(exp_nz.items()))))
            if mat is not None and lin is not None and mat != lin:
                bad.append(("matrix-vs-linear", reads, order, fmt, level, "matrix %s linear %s" % (sorted(mat.items()), sorted(lin.items()))))
    shutil.rmtree(d, ignore_errors=True)
    return n, nontriv, bad[:20]


# ------------------------------------------------------------------------------------------------ L3
INT_TAG = {"A1": 7, "gB": 12, "gC": 3}      # integer-typed BAM tag values (XI:i:7), group names are their decimal strings
UTF_TAG = {"A1": "\u03b11", "gB": "\u03b2-cell-count", "gC": "\u7d30\u80de"}      # non-ASCII tag values (XU:Z:...), one containing a column keyword


def l3_world(mode, third_locus=False):
    """reads designed to be unique FSM; returns world(s), expected read->group map, cli extras"""
    from vlib import worlds as W, syn
    w = W.base_world(2, 9000)
    w["genes"].append(W.locus_gene("G1", "chr1", "+", 1000, {"T1": [0, 1, 2, 3], "T2": [0, 2, 3]}))
    w["genes"].append(W.locus_gene("G2", "chr2", "-", 1000, {"T4": [0, 1, 2]}))
    syn.plant_for_transcripts(w)
    plan = [("T1", "chr1", [0, 1, 2, 3], "+", "A1"), ("T1", "chr1", [0, 1, 2, 3], "+", "gB"), ("T1", "chr1", [0, 1, 2, 3], "+", None),
            ("T2", "chr1", [0, 2, 3], "+", "gB"), ("T2", "chr1", [0, 2, 3], "+", "gC"), ("T2", "chr1", [0, 2, 3], "+", "gC"),
            ("T4", "chr2", [0, 1, 2], "-", "A1"), ("T4", "chr2", [0, 1, 2], "-", "A1"), ("T4", "chr2", [0, 1, 2], "-", None)]
    if third_locus:
        # a second annotated locus on chr1 (file-split patterns: a BAM file may have no alignment in one locus of a chromosome)
        w["genes"].append(W.locus_gene("G3", "chr1", "+", 7000, {"T5": [0, 1, 2]}))
        syn.plant_for_transcripts(w)
        plan += [("T5", "chr1", [0, 1, 2], "+", "gB")] * 3
    reads = []
    groups = {}
    iso = {}
    for i, (t, c, slots, strand, grp) in enumerate(plan):
        if mode == "read_id":
            name = "r%d_%s" % (i, grp) if grp else "r%dnogroup" % i
        elif mode == "read_id_multi":
            # a delimiter of several characters; the ungroupable ids contain single delimiter characters only
            name = "r%d_BC_%s" % (i, grp) if grp else "r%d_no_B_C" % i
        else:
            name = "r%d" % i
        r = W.read_of(name, c, W.exons(7000 if t == "T5" else 1000, slots), strand=strand)
        if mode == "tag" and grp:
            r["tags"] = {"RG": grp}
        if mode == "tagint" and grp:
            r["tags"] = {"XI": INT_TAG[grp]}
        if mode == "tagutf" and grp:
            r["tags"] = {"XU": UTF_TAG[grp]}
        reads.append(r)
        groups[name] = (grp or "NA") if mode not in ("tagint", "tagutf") else \
            ((str(INT_TAG[grp]) if mode == "tagint" else UTF_TAG[grp]) if grp else "NA")
        iso[name] = t
    # a multi-mapped read: secondary alignment in an intergenic stretch of chr1 (first chromosome in BAM order), primary FSM of T4
    # on chr2 -> the retained locus is on chr2 and must be counted under the read's documented group gB
    mm_name = "mm_gB" if mode == "read_id" else ("mm_BC_gB" if mode == "read_id_multi" else "mm")
    inter = W.exons(5500, [0, 1, 2])
    W.add_sites_for_blocks(w, "chr1", inter, "+")
    W.dedup_sites(w)
    mm1 = W.read_of(mm_name, "chr1", inter, polya=False, secondary=True)
    mm2 = W.read_of(mm_name, "chr2", W.exons(1000, [0, 1, 2]), strand="-")
    if mode == "tag":
        mm1["tags"] = {"RG": "gB"}
        mm2["tags"] = {"RG": "gB"}
    if mode == "tagint":
        mm1["tags"] = {"XI": INT_TAG["gB"]}
        mm2["tags"] = {"XI": INT_TAG["gB"]}
    if mode == "tagutf":
        mm1["tags"] = {"XU": UTF_TAG["gB"]}
        mm2["tags"] = {"XU": UTF_TAG["gB"]}
    reads += [mm1, mm2]
    groups[mm_name] = {"tagint": str(INT_TAG["gB"]), "tagutf": UTF_TAG["gB"]}.get(mode, "gB")
    iso[mm_name] = "T4"
    w["reads"] = reads
    return w, groups, iso


def l3_case(args):
    mode, fmt, order, threads, scratch = args[:5]
    pattern = args[5] if len(args) > 5 else None       # file-split pattern: per locus (G1, G3, G2) the tuple of BAM files holding its reads
    himem = args[6] if len(args) > 6 else False
    from vlib import syn, run
    w, groups, iso = l3_world(mode, third_locus=pattern is not None)
    tag = "%s_%s_%s_%d" % (mode, fmt, "".join(order) if order else "nat", threads)
    if pattern is not None:
        tag += "_p" + "-".join("".join(map(str, x)) for x in pattern) + ("h" if himem else "")
    d = os.path.join(scratch, "c09_" + tag)
    shutil.rmtree(d, ignore_errors=True)
    paths = syn.materialise(w, d)
    out = os.path.join(d, "out")
    argv = ["--output", out, "--reference", paths["ref"], "--data_type", "nanopore", "--prefix", "OUT", "--threads", str(threads),
            "--genedb", paths["gtf"], "--complete_genedb", "--counts_format", fmt, "--no_model_construction"]
    if mode == "file_name" and pattern is not None:
        seqs = syn.genome_sequences(w)
        nfiles = 1 + max(x for sub in pattern for x in sub)
        per_file = [[] for _ in range(nfiles)]
        locus_of = {"T1": 0, "T2": 0, "T5": 1, "T4": 2}
        counters = [0, 0, 0]
        file_of = {}
        for r in w["reads"]:
            if r["name"] not in file_of:
                li = locus_of[iso[r["name"]]]
                sub = pattern[li]
                file_of[r["name"]] = sub[counters[li] % len(sub)]
                counters[li] += 1
            per_file[file_of[r["name"]]].append(r)      # all records of a read stay in one file
        bams = []
        for fi, rr in enumerate(per_file):
            # the files of the experiment share their base name (rep0/aligned.bam, rep1/aligned.bam, ...): the labels belong to the paths
            os.makedirs(os.path.join(d, "rep%d" % fi), exist_ok=True)
            bams.append(syn.write_bam(w, os.path.join(d, "rep%d" % fi, "aligned.bam"), reads=rr, seqs=seqs))
        argv += ["--bam"] + bams + ["--labels"] + ["L%d" % (fi + 1) for fi in range(nfiles)] + ["--read_group", "file_name"]
        if himem:
            argv += ["--high_memory"]
        groups = {name: "L%d" % (fi + 1) for name, fi in file_of.items()}
    elif mode == "file_name":
        seqs = syn.genome_sequences(w)
        r1 = [r for r in w["reads"] if groups[r["name"]] in ("A1", "NA")]
        r2 = [r for r in w["reads"] if groups[r["name"]] not in ("A1", "NA")]
        b1 = syn.write_bam(w, os.path.join(d, "one.bam"), reads=r1, seqs=seqs)
        b2 = syn.write_bam(w, os.path.join(d, "two.bam"), reads=r2, seqs=seqs)
        argv += ["--bam", b1, b2, "--labels", "L1", "L2", "--read_group", "file_name"]
        groups = {r["name"]: ("L1" if any(r is x for x in r1) else "L2") for r in w["reads"]}
    else:
        argv += ["--bam", paths["bam"]]
        if mode == "tag":
            argv += ["--read_group", "tag:RG"]
        elif mode == "tagint":
            argv += ["--read_group", "tag:XI"]
        elif mode == "tagutf":
            argv += ["--read_group", "tag:XU"]
        elif mode == "read_id":
            argv += ["--read_group", "read_id:_"]
        elif mode == "read_id_multi":
            argv += ["--read_group", "read_id:_BC_"]
        elif mode == "file4":
            # four fields: READ_COL and GROUP_COL given, tab-separated (DELIM not set)
            tbl = os.path.join(d, "table.tsv")
            with open(tbl, "w") as f:
                for name, g in groups.items():
                    if g != "NA":
                        f.write("%s\tbc%d\t%s\n" % (name, len(name), g))
            argv += ["--read_group", "file:%s:0:2" % tbl]
        elif mode in ("file3", "file5"):
            # documented column options: file:FILE:READ_COL[:GROUP_COL[:DELIM]] (READ_COL 0, GROUP_COL 1, tab if not set)
            tbl = os.path.join(d, "table.tsv")
            with open(tbl, "w") as f:
                for name, g in groups.items():
                    if g != "NA":
                        f.write(("x;%s;%s;y\n" % (g, name)) if mode == "file5" else ("junk\t%s\t%s\n" % (g, name)))
            argv += ["--read_group", ("file:%s:2:1:;" % tbl) if mode == "file5" else ("file:%s:2" % tbl)]
        else:
            tbl = os.path.join(d, "table.tsv")
            with open(tbl, "w") as f:
                f.write("#read\tgroup\n")
                for name, g in groups.items():
                    if g != "NA":
                        f.write("%s\t%s\n" % (name, g))
            argv += ["--read_group", "file:" + tbl]

    def hook():
        if order is None:
            return
        import src.dataset_processor as DP
        orig = DP.DatasetProcessor.load_read_info

        def patched(self, dump_filename):
            a, b, g = orig(self, dump_filename)
            rank = {x: i for i, x in enumerate(order)}
            return a, b, sorted(g, key=lambda x: (rank.get(x, len(rank)), x))   # a list: the set in one chosen iteration order
        DP.DatasetProcessor.load_read_info = patched
    rc = run.run_isoquant(argv, paths["home"], os.path.join(d, "o.txt"), pre_hook=hook)
    errs = []
    if rc != 0:
        errs.append(("run-failed", "exit %d: %s" % (rc, open(os.path.join(d, "o.txt")).read()[-400:].replace("\n", " | "))))
        shutil.rmtree(d, ignore_errors=True)
        return args[:4] + tuple(args[5:7]), errs
    for level, key in (("gene", lambda n: {"T1": "G1", "T2": "G1", "T4": "G2", "T5": "G3"}[iso[n]]), ("transcript", lambda n: iso[n])):
        exp = {}
        tot = {}
        for name, g in groups.items():
            exp[(key(name), g)] = exp.get((key(name), g), 0.0) + 1.0
            tot[key(name)] = tot.get(key(name), 0.0) + 1.0
        h0, ung = run.parse_counts(run.find(out, "OUT", ".%s_counts.tsv" % level))
        ung = {k: float(v[0][0]) for k, v in (ung or {}).items() if not k in STAT_LINES}
        if {k: v for k, v in ung.items() if v} != tot:
            errs.append(("ungrouped-wrong", "%s ungrouped counts %s expected %s" % (level, ung, tot)))
        mat = lin = None
        if fmt in ("matrix", "both"):
            header, rows = run.parse_counts(run.find(out, "OUT", ".%s_grouped_counts.tsv" % level))
            mat = {}
            if not header:
                errs.append(("matrix-missing", "%s grouped matrix has no header" % level))
            else:
                gs = header[1:]
                for ft, vals in rows.items():
                    if len(vals) > 1:
                        errs.append(("matrix-duplicate-row", "%s feature %s has %d rows" % (level, ft, len(vals))))
                    for v in vals:
                        for gname, x in zip(gs, v):
                            if float(x):
                                mat[(ft, gname)] = mat.get((ft, gname), 0.0) + float(x)
                if mat != exp:
                    errs.append(("matrix-wrong", "%s matrix %s expected %s" % (level, sorted(mat.items()), sorted(exp.items()))))
                # the TPM rendering of the grouped table has the same group columns
                ptpm = run.find(out, "OUT", ".%s_grouped_tpm.tsv" % level)
                if ptpm:
                    th = open(ptpm).readline().rstrip("\n").lstrip("#").split("\t")
                    if th[1:] != gs:
                        errs.append(("tpm-columns", "%s grouped TPM table has columns %s, the counts table %s" % (level, th[1:], gs)))
                sums = {}
                for (ft, g), v in mat.items():
                    sums[ft] = sums.get(ft, 0.0) + v
                if sums != {k: v for k, v in ung.items() if v}:
                    errs.append(("not-a-partition", "%s: per-group sums %s, ungrouped %s" % (level, sums, ung)))
        if fmt in ("linear", "both"):
            p = run.find(out, "OUT", ".%s_grouped_counts_linear.tsv" % level)
            lin = {}
            for l in open(p):
                if l.startswith("#") or not l.strip():
                    continue
                ft, gname, x = l.rstrip("\n").split("\t")
                if float(x):
                    lin[(ft, gname)] = lin.get((ft, gname), 0.0) + float(x)
            if lin != exp:
                errs.append(("linear-wrong", "%s linear %s expected %s" % (level, sorted(lin.items()), sorted(exp.items()))))
        if mat is not None and lin is not None and mat != lin:
            errs.append(("matrix-vs-linear", "%s matrix and linear triples differ" % level))
    shutil.rmtree(d, ignore_errors=True)
    return args[:4] + tuple(args[5:7]), errs


def l3b_case(args):
    """partition oracle on a world with every assignment type (C02's pipeline world: unique, minor difference, ambiguous, inconsistent,
       inconsistent_non_intronic, mono-exonic, intergenic, low MAPQ) under every pair of quantification strategies: for each feature the
       per-group values of the grouped table (matrix and linear) sum to the value of the ungrouped table"""
    gs, ts, scratch = args
    from vlib import syn, run
    from props import c02
    w = c02.l2_world(1)
    for i, r in enumerate(w["reads"]):
        if not r.get("unmapped"):
            r["name"] = "%s_%s" % (r["name"], ("gA", "gB", "A1")[i % 3])
    d = os.path.join(scratch, "c09b_%s_%s" % (gs, ts))
    shutil.rmtree(d, ignore_errors=True)
    paths = syn.materialise(w, d)
    out = os.path.join(d, "out")
    rc = run.run_isoquant(run.base_argv(paths, out, extra=["--gene_quantification", gs, "--transcript_quantification", ts, "--read_group", "read_id:_",
                                                          "--counts_format", "both", "--model_construction_strategy", "all"]),
                          paths["home"], os.path.join(d, "o.txt"))
    errs = []
    if rc != 0:
        errs.append(("run-failed", "exit %d: %s" % (rc, open(os.path.join(d, "o.txt")).read()[-300:])))
        shutil.rmtree(d, ignore_errors=True)
        return (gs, ts), errs
    for level in ("gene", "transcript", "transcript_model"):
        try:
            h0, ung = run.parse_counts(run.find(out, "OUT", ".%s_counts.tsv" % level))
            ung = {k: float(v[0][0]) for k, v in (ung or {}).items() if not k in STAT_LINES}
            header, rows = run.parse_counts(run.find(out, "OUT", ".%s_grouped_counts.tsv" % level))
            sums = {}
            for ft, vals in (rows or {}).items():
                if ft in STAT_LINES:
                    continue
                sums[ft] = sums.get(ft, 0.0) + sum(float(x) for v in vals for x in v)
            lin = {}
            for l in open(run.find(out, "OUT", ".%s_grouped_counts_linear.tsv" % level)):
                if l.startswith("#") or not l.strip():
                    continue
                ft, gname, x = l.rstrip("\n").split("\t")
                lin[ft] = lin.get(ft, 0.0) + float(x)
        except Exception as e:  # noqa
            errs.append(("tables-unreadable", "%s: %r" % (level, e)))
            continue
        for name, tab in (("matrix", sums), ("linear", lin)):
            bad = sorted(f for f in set(ung) | set(tab) if abs(ung.get(f, 0.0) - tab.get(f, 0.0)) > 0.011)
            if bad:
                f = bad[0]
                errs.append(("not-a-partition:%s:%s" % (level, name), "%s %s: per-group values of the %s table sum to %.2f, the ungrouped table says %.2f (%d features differ)" %
                             (level, f, name, tab.get(f, 0.0), ung.get(f, 0.0), len(bad))))
    shutil.rmtree(d, ignore_errors=True)
    return (gs, ts), errs


def l3c_case(args):
    """replicate files that share a read naming scheme (read ids r0, r1, ... present in BOTH files of the experiment, --read_group
       file_name): every alignment of isoform T1 lies in file L1 and every alignment of T2 in file L2 (same gene, same chromosome), so
       whatever the multi-mapper resolution keeps, T1 may only be counted under L1 and T2 only under L2, and the groups partition the
       ungrouped value.  'shared' = which of the 4 read ids of L1 also occur in L2, 'swap' = file order on the command line"""
    shared, swap, himem, threads, scratch = args
    from vlib import worlds as W, syn, run
    w = W.base_world(2, 9000)
    w["genes"].append(W.locus_gene("G1", "chr1", "+", 1000, {"T1": [0, 1, 2, 3], "T2": [0, 2, 3]}))
    w["genes"].append(W.locus_gene("G2", "chr2", "-", 1000, {"T4": [0, 1, 2]}))
    syn.plant_for_transcripts(w)
    f1 = [W.read_of("r%d" % i, "chr1", W.exons(1000, [0, 1, 2, 3])) for i in range(4)] + [W.read_of("q1", "chr2", W.exons(1000, [0, 1, 2]), strand="-")]
    f2 = [W.read_of("r%d" % i if i in shared else "s%d" % i, "chr1", W.exons(1000, [0, 2, 3])) for i in range(4)] + \
         [W.read_of("q2", "chr2", W.exons(1000, [0, 1, 2]), strand="-")]
    w["reads"] = []
    d = os.path.join(scratch, "c09c_%s_%d%d%d" % ("".join(map(str, shared)) or "none", swap, himem, threads))
    shutil.rmtree(d, ignore_errors=True)
    paths = syn.materialise(w, d)
    seqs = syn.genome_sequences(w)
    b1 = syn.write_bam(w, os.path.join(d, "one.bam"), reads=f1, seqs=seqs)
    b2 = syn.write_bam(w, os.path.join(d, "two.bam"), reads=f2, seqs=seqs)
    out = os.path.join(d, "out")
    files, labels = ([b2, b1], ["L2", "L1"]) if swap else ([b1, b2], ["L1", "L2"])
    argv = ["--output", out, "--reference", paths["ref"], "--data_type", "nanopore", "--prefix", "OUT", "--threads", str(threads),
            "--genedb", paths["gtf"], "--complete_genedb", "--counts_format", "both", "--no_model_construction",
            "--bam"] + files + ["--labels"] + labels + ["--read_group", "file_name"] + (["--high_memory"] if himem else [])
    rc = run.run_isoquant(argv, paths["home"], os.path.join(d, "o.txt"))
    errs = []
    key = (tuple(shared), swap, himem, threads)
    if rc != 0:
        errs.append(("run-failed", "exit %d: %s" % (rc, open(os.path.join(d, "o.txt")).read()[-400:].replace("\n", " | "))))
        shutil.rmtree(d, ignore_errors=True)
        return key, errs
    allowed = {"T1": "L1", "T2": "L2", "T4": None, "G1": None, "G2": None}
    for level in ("gene", "transcript"):
        try:
            h0, ung = run.parse_counts(run.find(out, "OUT", ".%s_counts.tsv" % level))
            ung = {k: float(v[0][0]) for k, v in (ung or {}).items() if not k in STAT_LINES}
            header, rows = run.parse_counts(run.find(out, "OUT", ".%s_grouped_counts.tsv" % level))
            mat = {}
            for ft, vals in (rows or {}).items():
                if ft in STAT_LINES:
                    continue
                for v in vals:
                    for gname, x in zip(header[1:], v):
                        mat[(ft, gname)] = mat.get((ft, gname), 0.0) + float(x)
        except Exception as e:  # noqa
            errs.append(("tables-unreadable", "%s: %r" % (level, e)))
            continue
        for (ft, g), v in sorted(mat.items()):
            if v and allowed.get(ft) and g != allowed[ft]:
                errs.append(("wrong-file-group", "%s %s has %.2f reads under %s, all its alignments are in file %s (table %s)" %
                             (level, ft, v, g, allowed[ft], sorted((k, x) for k, x in mat.items() if x))))
        for ft in sorted(set(ung) | set(f for f, _ in mat)):
            sm = sum(v for (f, _), v in mat.items() if f == ft)
            if abs(sm - ung.get(ft, 0.0)) > 0.011:
                errs.append(("not-a-partition", "%s %s: groups sum to %.2f, ungrouped %.2f" % (level, ft, sm, ung.get(ft, 0.0))))
        if level == "transcript" and not shared and {k: v for k, v in mat.items() if v} != {("T1", "L1"): 4.0, ("T2", "L2"): 4.0, ("T4", "L1"): 1.0, ("T4", "L2"): 1.0}:
            errs.append(("matrix-wrong", "no shared ids: transcript matrix %s" % sorted(mat.items())))
        if level == "gene":
            t1 = sum(v for (f, g), v in mat.items() if f == "G1" and g == "L1")
            t2 = sum(v for (f, g), v in mat.items() if f == "G1" and g == "L2")
            errs_info = (t1, t2)
    if os.environ.get("VERIF_C09_DEBUG"):
        print(key, sorted((k, v) for k, v in mat.items() if v), errs_info)
    shutil.rmtree(d, ignore_errors=True)
    return key, errs


def l3d_case(args):
    """grouped TPM tables: a gene with three isoforms that share their first three exons; group 'bulk' has full-length reads of every
       isoform, group 'cellX' a single read over the shared exons (weight 1/3 per isoform under with_ambiguous, column total 0.99 after
       rounding): every group column of a grouped TPM table is its counts column rescaled to 10^6"""
    strategy, scratch = args
    # a pair (transcript strategy, gene strategy): the two levels are counted under different strategies, and one more read (cellX) skips
    # exon B of T1 - inconsistent, counted only where the strategy of that level admits inconsistent reads
    pair = strategy if isinstance(strategy, tuple) else None
    ts, gs = pair if pair else (strategy, strategy)
    strategy = ts
    from vlib import worlds as W, syn, run
    w = W.base_world(1, 9000)
    A, B, C = [1001, 1200], [1601, 1800], [2201, 2400]
    tails = {"T1": [2801, 3000], "T2": [3401, 3600], "T3": [4001, 4200]}
    w["genes"].append({"id": "G1", "chr": "chr1", "strand": "+", "transcripts": [{"id": t, "exons": [A, B, C, e]} for t, e in tails.items()]})
    syn.plant_for_transcripts(w)
    for t, e in tails.items():
        for i in range(3):
            w["reads"].append(W.read_of("%s%d_bulk" % (t, i), "chr1", [A, B, C, e]))
    # reads over the shared exons only, one per group (they are compatible with all three isoforms / models)
    w["reads"].append(W.read_of("shared1_cellX", "chr1", [A, B, C], polya=False))
    w["reads"].append(W.read_of("shared2_bulk", "chr1", [[A[0] + 2, A[1]], B, C], polya=False))
    w["reads"].append(W.read_of("shared3_cellY", "chr1", [[A[0] + 4, A[1]], B, C], polya=False))
    if pair:
        w["reads"].append(W.read_of("incons1_cellX", "chr1", [A, C, tails["T1"]]))
    d = os.path.join(scratch, "c09d_%s_%s" % (ts, gs))
    shutil.rmtree(d, ignore_errors=True)
    paths = syn.materialise(w, d)
    out = os.path.join(d, "out")
    rc = run.run_isoquant(run.base_argv(paths, out, extra=["--read_group", "read_id:_", "--transcript_quantification", ts,
                                                          "--gene_quantification", gs]), paths["home"], os.path.join(d, "o.txt"))
    errs = []
    if rc != 0:
        errs.append(("run-failed", "exit %d: %s" % (rc, open(os.path.join(d, "o.txt")).read()[-300:])))
        shutil.rmtree(d, ignore_errors=True)
        return (pair or strategy), errs
    for level in (("gene", "transcript", "transcript_model") if not pair else ("gene", "transcript")):
        try:
            hc, rc_ = run.parse_counts(run.find(out, "OUT", ".%s_grouped_counts.tsv" % level))
            ht, rt = run.parse_counts(run.find(out, "OUT", ".%s_grouped_tpm.tsv" % level))
        except Exception as e:  # noqa
            errs.append(("tables-unreadable", "%s: %r" % (level, e)))
            continue
        if hc is None or ht is None:
            continue
        # the counts themselves: every read under its own group
        share = 0.33 if strategy in ("with_ambiguous", "all") else 0.0
        exp = {"gene": {("G1", "bulk"): 10.0, ("G1", "cellX"): 1.0, ("G1", "cellY"): 1.0}}.get(level) or \
            dict([((t, "bulk"), 3.0 + share) for t in tails] + [((t, g_), share) for t in tails for g_ in ("cellX", "cellY") if share])
        if pair:
            inc_ok = lambda st: st in ("all", "unique_inconsistent")
            if level == "gene" and inc_ok(gs):
                exp[("G1", "cellX")] = 2.0
            if level == "transcript" and inc_ok(ts):
                exp[("T1", "cellX")] = exp.get(("T1", "cellX"), 0.0) + 1.0
        got = {}
        for f, v in rc_.items():
            if f in STAT_LINES:
                continue
            for gname, x in zip(hc[1:], v[0]):
                if float(x):
                    got[(f, gname)] = float(x)
        if got != exp:
            errs.append(("grouped-counts:%s" % level, "%s grouped counts %s, expected %s" % (level, sorted(got.items()), sorted(exp.items()))))
        for gi, g in enumerate(hc[1:]):
            col = {f: float(v[0][gi]) for f, v in rc_.items() if not f in STAT_LINES}
            tot = sum(col.values())
            if tot <= 0 or g not in ht[1:]:
                continue
            ti = ht[1:].index(g)
            tpm = {f: float(v[0][ti]) for f, v in rt.items() if not f in STAT_LINES}
            bad = [f for f in col if abs(tpm.get(f, 0.0) - col[f] * 1e6 / tot) > 0.5]
            if bad or abs(sum(tpm.values()) - 1e6) > 5:
                errs.append(("grouped-tpm:%s" % level, "%s grouped TPM, group %s: counts %s (total %.2f), TPM %s (sum %.1f)" %
                             (level, g, sorted(col.items()), tot, sorted(tpm.items()), sum(tpm.values()))))
    shutil.rmtree(d, ignore_errors=True)
    return (pair or strategy), errs


def run(ctx):
    quick = ctx.tier == "quick"
    n1, bad1 = l1_groupers(ctx.scratch)
    for desc, msg in bad1:
        ctx.violation("l1:" + desc, "%s: %s" % (desc, msg), {"case": desc})
    ctx.note("L1 grouper cases: %d" % n1)
    groups = ["A1", "gB", "NA"]
    kinds = ["u1", "u2", "amb", "none"]
    read_alpha = [(k, g) for k in kinds for g in groups]
    cases = []
    maxr = 2 if quick else 3
    for n in range(1, maxr + 1):
        for reads in itertools.combinations_with_replacement(read_alpha, n):
            used = sorted(set(g for _, g in reads))
            for universe in ([used] if quick else [used, groups]):
                for order in itertools.permutations(universe):
                    for fmt in ("both",) if quick else ("matrix", "linear", "both"):
                        for strategy in ("unique_only", "with_ambiguous"):
                            cases.append((reads, order, fmt, strategy))
    ctx.rng.shuffle(cases)
    ctx.note("L2: %d counter cases (read multisets <=%d x every group order x formats x strategies)" % (len(cases), maxr))
    total = n1
    nontriv = 0
    for wid, (n, nt, bad) in enumerate(core.pmap(l2_chunk, [(c, ctx.scratch, i) for i, c in enumerate(core.chunks(cases, core.NCPU * 2))])):
        total += n
        nontriv += nt
        for kind, reads, order, fmt, level, msg in bad:
            ctx.violation("l2:%s:%s" % (kind, level), "reads %s, group order %s, format %s: %s" % (list(reads), list(order), fmt, msg),
                          {"reads": list(reads), "order": list(order), "format": fmt})
    jobs = []
    universes = {"tag": ["A1", "gB", "gC", "NA"], "read_id": ["A1", "gB", "gC", "NA"], "read_id_multi": ["A1", "gB", "gC", "NA"], "file": ["A1", "gB", "gC", "NA"], "file_name": ["L1", "L2"],
                 "tagint": ["12", "3", "7", "NA"], "file3": ["A1", "gB", "gC", "NA"], "file5": ["A1", "gB", "gC", "NA"], "file4": ["A1", "gB", "gC", "NA"],
                 "tagutf": ["NA"] + sorted(UTF_TAG.values())}
    for mode in ("tag", "tagint", "tagutf", "read_id", "read_id_multi", "file", "file3", "file4", "file5", "file_name"):
        for fmt in ("both",) if quick else ("matrix", "linear", "both"):
            orders = list(itertools.permutations(universes[mode]))
            if quick:
                orders = sorted(set([orders[0], orders[-1], orders[len(orders) // 2]]))
            for order in orders:
                for threads in ((1,) if quick else (1, 2)):
                    jobs.append((mode, fmt, order, threads, ctx.scratch))
    # file_name mode: every way the three loci (two on chr1, one on chr2) can be present in / absent from the BAM files of the experiment
    nf = 2 if quick else 3
    subsets = [c for n in range(1, nf + 1) for c in itertools.combinations(range(nf), n)]
    npat = 0
    for pattern in itertools.product(subsets, repeat=3):
        for himem in (False, True):
            for threads in ((1,) if quick else (1, 2)):
                jobs.append(("file_name", "both", None, threads, ctx.scratch, pattern, himem))
                npat += 1
    nl3 = 0
    for key, errs in core.pmap(l3_case, jobs, jobs=min(core.NCPU, 12)):
        nl3 += 1
        for k, msg in errs:
            pat = key[4] if len(key) > 4 else None
            ctx.violation("l3:%s:%s%s" % (key[0], k, ":file-split" if pat is not None else ""),
                          "mode %s format %s group order %s threads %d%s: %s" %
                          (key[0], key[1], key[2], key[3], "" if pat is None else " loci->files %s high_memory=%s" % (list(pat), key[5]), msg),
                          {"mode": key[0], "format": key[1], "order": key[2], "threads": key[3], "pattern": pat, "himem": key[5] if len(key) > 5 else False})
    ctx.note("file_name mode: %d runs over all patterns of locus presence in %d BAM files (x memory mode)" % (npat, nf))
    from props import c02
    sp = [(g, t) for g in c02.STRATEGIES for t in c02.STRATEGIES]
    if quick:
        sp = [(g, t) for g, t in sp if g == t or (g, t) in (("unique_splicing_consistent", "unique_only"), ("all", "unique_only"), ("unique_only", "all"))]
    for key, errs in core.pmap(l3b_case, [(g, t, ctx.scratch) for g, t in sp]):
        nl3 += 1
        for k, msg in errs:
            ctx.violation("l3b:%s" % k, "gene strategy %s, transcript strategy %s: %s" % (key[0], key[1], msg), {"l3b": list(key)})
    ctx.note("partition oracle on the all-types world: %d strategy pairs" % len(sp))
    for key, errs in core.pmap(l3d_case, [(st, ctx.scratch) for st in ("with_ambiguous", "all", "unique_only", ("unique_only", "all"), ("all", "unique_only"))]):
        nl3 += 1
        for k, msg in errs:
            ctx.violation("l3d:%s" % k, "strategy %s: %s" % (key, msg), {"l3d": key})
    cj = [(sh, swap, himem, threads, ctx.scratch) for n in range(5) for sh in itertools.combinations(range(4), n) for swap in (0, 1)
          for himem in ((0,) if quick else (0, 1)) for threads in ((1,) if quick else (1, 2))]
    for key, errs in core.pmap(l3c_case, cj):
        nl3 += 1
        for k, msg in errs:
            ctx.violation("l3c:%s" % k, "read ids %s shared between the two files, file order swapped=%s high_memory=%s threads=%d: %s" %
                          (list(key[0]), key[1], key[2], key[3], msg), {"l3c": [list(key[0])] + list(key[1:])})
    ctx.note("shared read ids between files of one experiment: %d runs (all subsets of 4 ids x file order)" % len(cj))
    ctx.note("L3 pipeline runs: %d" % nl3)
    ctx.coverage.update({
        "evaluations": total + nl3, "distinct_nontrivial": nontriv + nl3,
        "rule": "L2 case = (read multiset, iteration order of the group container, format, strategy), all distinct; non-trivial = reads "
                "from >=2 groups; L3 case = (mode, format, group iteration order, threads)",
        "exhaustive": True, "grouper_cases": n1, "counter_cases": len(cases), "pipeline_runs": nl3,
        "samples": [{"reads": cases[0][0], "order": cases[0][1], "format": cases[0][2]}, {"pipeline": jobs[0][:4]}],
    })
    ctx.assumptions += ["the iteration order of the read-group set is presented explicitly (list in chosen order) - every order a hash seed "
                        "could produce is one of the enumerated permutations",
                        "pipeline worlds contain only uniquely assigned FSM reads so that the expected (feature, group) counts are exact"]


def replay(ctx, case):
    if "l3d" in case:
        key, errs = l3d_case((case["l3d"], ctx.scratch))
        for k, msg in errs:
            ctx.violation("l3d:%s" % k, msg, case)
        return
    if "l3c" in case:
        c = case["l3c"]
        key, errs = l3c_case((tuple(c[0]), c[1], c[2], c[3], ctx.scratch))
        for k, msg in errs:
            ctx.violation("l3c:%s" % k, msg, case)
        return
    if "l3b" in case:
        key, errs = l3b_case((case["l3b"][0], case["l3b"][1], ctx.scratch))
        return errs[0][1] if errs else None
    if case.get("mode") and "format" in case and "reads" not in case:
        args = (case["mode"], case["format"], tuple(case["order"]) if case.get("order") else None, case["threads"], ctx.scratch)
        if case.get("pattern") is not None:
            args += (tuple(tuple(x) for x in case["pattern"]), bool(case.get("himem")))
        key, errs = l3_case(args)
        return errs[0][1] if errs else None
    return "re-run ./check C09 (deterministic)"
