"""C03 — output annotations are well-formed and reproduce reference transcripts verbatim.

Invariants evaluated on transcript_models.gtf and extended_annotation.gtf of every execution of the MIX family
(read-mixture scenarios x construction strategies x with/without annotation, plus split-locus variants at scaled
region constants).
"""
import os
import shutil

from vlib import core, mix

LEVEL = "exploration"


def gtf_errors(path, chroms, label, ann_genes=None, ann_transcripts=None):
    """structural invariants of one GTF; returns (errors, transcripts dict, genes dict)"""
    from vlib import run
    errs = []
    recs = run.parse_gtf(path)
    genes = {}
    trs = {}
    order = []
    first_model = {}          # gene id -> the transcript whose record directly follows the gene record
    last_gene = None
    for r in recs:
        if r["type"] == "gene":
            gid = r["attrs"].get("gene_id")
            genes.setdefault(gid, []).append(r)
            last_gene = gid
        elif r["type"] == "transcript":
            tid = r["attrs"].get("transcript_id")
            if last_gene is not None and r["attrs"].get("gene_id") == last_gene:
                first_model.setdefault(last_gene, tid)
            last_gene = None
            trs.setdefault(tid, {"records": [], "exons": [], "gene": r["attrs"].get("gene_id"), "chr": r["chr"], "strand": r["strand"]})
            trs[tid]["records"].append(r)
        elif r["type"] == "exon":
            tid = r["attrs"].get("transcript_id")
            t = trs.setdefault(tid, {"records": [], "exons": [], "gene": r["attrs"].get("gene_id"), "chr": r["chr"], "strand": r["strand"]})
            t["exons"].append(r)
    for gid, rs in genes.items():
        if len(rs) != 1:
            errs.append(("gene-record-count", "%s gene %s has %d gene records" % (label, gid, len(rs))))
    for tid, t in trs.items():
        if len(t["records"]) != 1:
            errs.append(("transcript-record-count", "%s transcript %s has %d transcript records" % (label, tid, len(t["records"]))))
            continue
        tr = t["records"][0]
        ex = sorted((e["start"], e["end"]) for e in t["exons"])
        if not ex:
            errs.append(("no-exons", "%s transcript %s has no exon" % (label, tid)))
            continue
        clen = chroms.get(tr["chr"])
        for s, e in ex:
            if not (1 <= s <= e and (clen is None or e <= clen)):
                errs.append(("exon-coordinates", "%s transcript %s exon %d-%d outside 1..%s" % (label, tid, s, e, clen)))
        if any(ex[i][1] >= ex[i + 1][0] for i in range(len(ex) - 1)):
            errs.append(("exons-overlap", "%s transcript %s has overlapping exons %s" % (label, tid, ex)))
        # exons must be listed in transcript order (ascending for +, descending for -)
        listed = [(e["start"], e["end"]) for e in t["exons"]]
        if listed != ex and listed != ex[::-1]:
            errs.append(("exons-unsorted", "%s transcript %s exons listed as %s" % (label, tid, listed)))
        if (tr["start"], tr["end"]) != (ex[0][0], ex[-1][1]):
            errs.append(("transcript-span", "%s transcript %s record %d-%d, exons span %d-%d" % (label, tid, tr["start"], tr["end"], ex[0][0], ex[-1][1])))
        if any(e["chr"] != tr["chr"] or e["strand"] != tr["strand"] for e in t["exons"]):
            errs.append(("exon-chr-strand", "%s transcript %s has exons on another chromosome/strand" % (label, tid)))
        g = genes.get(t["gene"])
        if not g:
            errs.append(("gene-missing", "%s transcript %s refers to gene %s which has no gene record" % (label, tid, t["gene"])))
        else:
            g = g[0]
            if g["chr"] != tr["chr"]:
                errs.append(("gene-chromosome", "%s gene %s on %s but transcript %s on %s" % (label, t["gene"], g["chr"], tid, tr["chr"])))
            if g["strand"] != tr["strand"]:
                errs.append(("gene-strand", "%s gene %s strand %s but transcript %s strand %s" % (label, t["gene"], g["strand"], tid, tr["strand"])))
            if not (g["start"] <= tr["start"] and tr["end"] <= g["end"]):
                # a transcript found in this run (not one of the reference's) attributed to a gene of the reference; the reference may
                # itself carry IsoQuant-style ids, so the ids are looked up, not parsed
                if ann_genes is not None:
                    novel_in_annotated = tid not in ann_transcripts and t["gene"] in ann_genes and label == "transcript_models"
                else:
                    novel_in_annotated = str(tid).startswith("transcript") and not str(t["gene"]).startswith("novel_gene") and \
                        label == "transcript_models"
                # (the gene record is written together with the first model of the gene: a record that does not even contain THAT model is
                # another matter than a model of a later read region the record could not know)
                if novel_in_annotated and first_model.get(t["gene"]) == tid:
                    novel_in_annotated = False
                errs.append(("gene-span" + (":novel-transcript-beyond-annotated-gene" if novel_in_annotated else ""),
                             "%s gene %s %d-%d does not contain its transcript %s %d-%d" %
                             (label, t["gene"], g["start"], g["end"], tid, tr["start"], tr["end"])))
        t["chain"] = tuple(ex)
    return errs, trs, genes


def evaluate(out, w, annotated):
    ref = {}
    for g in (w["genes"] if annotated else []):
        for t in g["transcripts"]:
            ref[t["id"]] = (g["chr"], g["strand"], tuple(tuple(e) for e in t["exons"]), g["id"])
    errs = []
    mp = os.path.join(out, "OUT", "OUT.transcript_models.gtf")
    ep = os.path.join(out, "OUT", "OUT.extended_annotation.gtf")
    if not os.path.exists(mp):
        return [("models-missing", "transcript_models.gtf missing")], 0
    ann_g = set(g["id"] for g in w["genes"]) if annotated else set()
    ann_t = set(t["id"] for g in w["genes"] for t in g["transcripts"]) if annotated else set()
    e1, tm, gm = gtf_errors(mp, w["chroms"], "transcript_models", ann_g, ann_t)
    errs += e1
    n = len(tm)
    for tid, t in tm.items():
        if tid in ref and "chain" in t:
            c, s, ex, g = ref[tid]
            if (t["chr"], t["strand"], t["chain"], t["gene"]) != (c, s, ex, g):
                errs.append(("reference-not-verbatim", "transcript_models: %s printed as %s, reference is %s" %
                             (tid, (t["chr"], t["strand"], t["chain"], t["gene"]), (c, s, ex, g))))
    if annotated:
        if not os.path.exists(ep):
            errs.append(("extended-missing", "extended_annotation.gtf missing"))
        else:
            e2, te, ge = gtf_errors(ep, w["chroms"], "extended_annotation", ann_g, ann_t)
            errs += e2
            n += len(te)
            for tid, (c, s, ex, g) in ref.items():
                if tid not in te:
                    errs.append(("extended-lacks-reference", "extended_annotation lacks reference transcript %s" % tid))
                elif "chain" in te[tid] and (te[tid]["chr"], te[tid]["strand"], te[tid]["chain"], te[tid]["gene"]) != (c, s, ex, g):
                    errs.append(("reference-not-verbatim", "extended_annotation: %s printed as %s, reference is %s" %
                                 (tid, (te[tid]["chr"], te[tid]["strand"], te[tid]["chain"], te[tid]["gene"]), (c, s, ex, g))))
            novel_m = {tid: t for tid, t in tm.items() if tid not in ref}
            novel_e = {tid: t for tid, t in te.items() if tid not in ref}
            if set(novel_m) != set(novel_e):
                errs.append(("extended-novel-set", "novel transcripts differ: models-only %s, extended-only %s" %
                             (sorted(set(novel_m) - set(novel_e)), sorted(set(novel_e) - set(novel_m)))))
            for tid in set(novel_m) & set(novel_e):
                a, b = novel_m[tid], novel_e[tid]
                if (a["chr"], a["strand"], a.get("chain"), a["gene"]) != (b["chr"], b["strand"], b.get("chain"), b["gene"]):
                    errs.append(("extended-novel-coordinates", "novel %s differs between the two files" % tid))
    return errs, n


def case(args):
    scenario, annotated, strategy, extra, scaled, scratch = args
    tag = mix.scenario_tag(scenario, annotated, strategy, extra) + ("_sc" if scaled else "")
    hook = mix.scale_constants() if scaled else None
    rc, out, w, paths, d = mix.run_scenario(scenario, annotated, strategy, scratch, "c03_" + tag, extra=extra, pre_hook=hook)
    if rc != 0:
        errs = [("run-failed", "exit %d: %s" % (rc, open(os.path.join(d, "o.txt")).read()[-300:]))]
        n = 0
    else:
        errs, n = evaluate(out, w, annotated)
    shutil.rmtree(d, ignore_errors=True)
    return (scenario, annotated, strategy, extra, scaled), errs, n


TRIPLE_STRUCTS = ["K1", "K2", "P1", "Q1", "N1", "N2", "X1", "S1", "V1"]


def job_list(ctx):
    quick = ctx.tier == "quick"
    levels = (3, 12) if quick else (1, 3, 12)
    strategies = ["default_ont", "default_pacbio", "all"] if quick else ["default_ont", "default_pacbio", "all", "sensitive_ont", "sensitive_pacbio", "reliable", "fl_pacbio", "assembly"]
    scen = mix.scenarios(2, levels=levels, structs=mix.STRUCTS)
    assert set(mix.LOCUS_OF) == set(mix.STRUCTS)
    if quick:
        scen = [sc for sc in scen if mix.interacting(sc)]
    jobs = []
    for sc in scen:
        for annotated in (1, 0):
            for st in strategies:
                if quick and len(sc) == 2 and (st == "default_pacbio" or (sc[0][1] != sc[1][1] and st != "all" and not (st == "default_ont" and sc[1][0] == "Y1"))):
                    continue
                jobs.append((sc, annotated, st, (), 0, ctx.scratch))
    if not quick:
        # triples over the structures that interact in one locus, two level patterns, three strategies
        import itertools
        for combo in itertools.combinations(TRIPLE_STRUCTS, 3):
            for lv in ((12, 12, 12), (3, 12, 12), (12, 3, 1)):
                for annotated in (1, 0):
                    for st in ("default_ont", "default_pacbio", "all"):
                        jobs.append((tuple(zip(combo, lv)), annotated, st, (), 0, ctx.scratch))
    # reference that already carries IsoQuant-style ids (annotated=2)
    for sc in scen:
        if len(sc) == 1 or (all(l == 12 for _, l in sc) and (not quick or sc[0][0] in ("K1", "N1", "N2"))):
            jobs.append((sc, 2, "all", (), 0, ctx.scratch))
            if not quick:
                jobs.append((sc, 2, "default_ont", (), 0, ctx.scratch))
    # reference gene ids sorting after "novel_gene_" (annotated=3): scenarios in which novel genes are joined to annotated ones
    for sc in scen:
        if any(st in ("J1", "N2", "A1", "H3", "I1") for st, _ in sc) and (len(sc) == 1 or all(l == 12 for _, l in sc)):
            jobs.append((sc, 3, "default_ont", (), 0, ctx.scratch))
    # the annotation with shuffled record order (annotated=4)
    for sc in scen:
        if len(sc) == 1 or (not quick and all(l == 12 for _, l in sc)):
            jobs.append((sc, 4, "default_ont", (), 0, ctx.scratch))
    # reference sequence names that are equal under case-insensitive natural ordering (annotated=5)
    for sc in scen:
        if len(sc) == 1 or (not quick and all(l == 12 for _, l in sc)):
            jobs.append((sc, 5, "default_ont", (), 0, ctx.scratch))
    # report_canonical levels / novel unspliced
    for sc in scen:
        if len(sc) <= (1 if quick else 2):
            for rcn in ("only_canonical", "only_stranded", "all", "auto"):
                jobs.append((sc, 1, "default_ont", ("--report_canonical", rcn, "--report_novel_unspliced", "true"), 0, ctx.scratch))
    # split-locus variants at scaled constants (one gene processed in several regions)
    for sc in scen:
        if (len(sc) == 2 and (all(l == 12 for _, l in sc) or any(st == "Q1" for st, _ in sc))) or (not quick and len(sc) <= 2):
            for annotated in (1, 0):
                jobs.append((sc, annotated, "all", (), 1, ctx.scratch))
    return jobs


def run(ctx):
    jobs = job_list(ctx)
    ctx.rng.shuffle(jobs)
    ntr = 0
    nmodels_runs = 0
    for key, errs, n in core.pmap(case, jobs, chunksize=4):
        ntr += n
        if n:
            nmodels_runs += 1
        for k, msg in errs:
            ctx.violation(k + (":split-locus" if key[4] else ""), "scenario %s annotated=%d strategy=%s extra=%s scaled=%d: %s" % (key + (msg,)),
                          {"scenario": [list(x) for x in key[0]], "annotated": key[1], "strategy": key[2], "extra": list(key[3]), "scaled": key[4]})
    ctx.note("%d pipeline runs (%d produced transcripts), %d transcript records validated" % (len(jobs), nmodels_runs, ntr))
    ctx.coverage.update({
        "evaluations": len(jobs), "distinct_nontrivial": nmodels_runs, "transcripts_validated": ntr,
        "rule": "case = (multiset of read structures with coverage levels, annotation on/off, construction strategy, extra options, scaled "
                "region constants); non-trivial = the run printed at least one transcript",
        "exhaustive": True, "samples": [{"scenario": [list(x) for x in jobs[0][0]], "annotated": jobs[0][1], "strategy": jobs[0][2]}],
    })
    ctx.assumptions += ["chromosome lengths are taken from the world definition (equal to the FASTA index)",
                        "split-locus runs scale COVERAGE_BIN/MAX_REGION_LEN/MIN_READS_TO_SPLIT (64/2048/8) so that a 4-kb gene is cut into regions"]


def replay(ctx, c):
    key, errs, n = case((tuple(tuple(x) for x in c["scenario"]), c["annotated"], c["strategy"], tuple(c["extra"]), c["scaled"], ctx.scratch))
    return errs[0][1] if errs else None
