"""MIX family — read-mixture scenarios for the transcript-model properties (C03, C04, C11, C14).

Locus: gene G1 on chr1 (+): T1 = slots 0-4, T2 = slots 0,2,3,4 (skips slot 1); gene G2 on chr2 (-): T4 = slots 0-3.
Unannotated stretch at 8000 (both chromosomes).  Structures (each with a coverage level):
 K1 full-length T1 reads with polyA           K2 full-length T2 reads with polyA       K4 full-length T4 reads (polyT head, '-')
 P1 5'-truncated T1 reads (Q1: 3'-truncated)                    N1 novel combination of annotated introns (skips slot 3)       -> .nic
 N2 novel exon (slot 5 appended, canonical)   -> .nnic                 N3 novel internal exon with non-canonical sites
 X1 K1 with one junction displaced by 3 bp (bulge)      X2 K1 with a short spurious terminal exon (tip)
 M1 mono-exonic polyA reads in the unannotated stretch  A1 antisense copy of N2 (reads flagged reverse, polyT head)
 G1 spliced reads of an unannotated gene at 8000        S1 two alternative polyA sites of N1 (same chain, ends 300 bp apart)
 I1 alternative TSS: reads whose first exon is slot 1 extended 200 bp upstream into the preceding intron, then slots 2,3,4
 I2 alternative end: reads over slots 0,1,2 and slot 3 extended 200 bp downstream into the following intron (mirror image of I1)
 F1 / F2 reads of the annotated isoform T8 (gene G6) covering its exons 1-4 / 5-8 only: two disjoint read clusters, processed as two
    regions, each supporting the SAME reference isoform
 Z1 unannotated locus at 13100 on chr1: reads with intron Y = 13251-13400 and a few with X = 13255-13400 (folded into Y by the graph)
 Z2 the SAME coordinates on chr2 (processed after chr1): all reads have intron X - the model must keep X
 S2 unannotated two-exon locus on chr2 (9601-9800, 10101-...) whose reads end at two polyA sites 800 bp apart: one intron chain
 J1 three novel loci inside gene G5: two on '+' within introns 1 and 3, one antisense ('-' canonical sites, polyT heads) spanning both:
    novel genes are joined to annotated ones by overlap, never across strands
 NC unannotated three-exon locus on chr2 whose introns are canonical on neither strand, reads without tails: no strand evidence at all
 MA unannotated mono-exonic locus on chr2 ending in a genomic run of 20 A: the reads' tails are partly aligned (internal polyA) and
    partly soft-clipped (external polyA)
 H3 like H2 (3' half of G6) with one more exon BEYOND the annotated gene end: next to H1/F1 the gene is printed for an earlier
    region already, its record has to cover this transcript as well
 LQ unannotated two-exon locus on chr2 (11501-11700, 12001-12300): every third read is full-length with MAPQ 60 and a polyA tail, the
    others are unspliced MAPQ-3 fragments inside the second exon: the model passes the construction-time MAPQ filter and fails the
    late one (mean MAPQ of ALL attached reads < 30) - whatever is decided, the GTF and the model-reads table must agree
 D1 reads with exactly T1's intron chain whose last exon runs 300 bp past the annotated end (an unannotated distal polyA site): whatever
    is reported for them, never a "novel" model with the intron chain of a reference transcript
 B9 unannotated four-exon locus at the end of chr1 whose second exon is 44 bp long in three quarters of the reads (14651-14694) and 9 bp long
    and 50 bp further downstream in the others (14701-14709): the bulge removal of the intron graph replaces an intron of the minority
    by the similar majority intron; a reported model still consists of introns that some read has
 C3 spliced polyA reads on chr3, a sequence without any annotated gene (scaffold, spike-in): their model is a novel gene in both GTFs
 E1 full-length polyA reads of T9 (gene G8), whose second and last exons are ONE base long, and reads of a novel isoform that skips
    T9's third exon but keeps the 1-bp second one: models with 1-bp exons are written like any other
 K5 T1 reads with the complete intron chain that start 120+ bp inside the annotated first exon (the known isoform is reported with its
    annotated coordinates, whatever the reads' ends)
 X3 full-length T1 reads whose FIRST intron is shifted as a whole by 10 bp (both sites; tolerated as intron_shift): next to K1 the same
    known isoform is supported by two different full-length paths of the intron graph - it is still reported once
 IP unannotated three-exon locus on chr3 with a long last exon (2101-2900): half of the reads are full-length, the other half are unspliced
    polyA reads at 2201-2600, an internal polyA site inside that exon (a novel unspliced candidate that is covered by the spliced model)
 W2 full-length reads of T7 (gene G5) WITH polyA tails: the known isoform is reported (next to J1: novel genes inside a reported gene)
 Y0 full-length reads of TA (gene G11: TA = exons 1-5, TB = exons 1,3,5)
 Y1 reads over G11 exons 1,2',3,5 where 2' starts 12 bp upstream of the annotated acceptor (more than delta, less than the
    intron-graph clustering distance: next to a few Y0 reads the annotated intron is collapsed into the novel one; all other
    introns of the chain are annotated)                                                                                         -> .nnic
"""
import itertools
import os
import shutil

from vlib import worlds as W

STRUCTS = ["K1", "K2", "K4", "P1", "Q1", "N1", "N2", "N3", "X1", "X2", "M1", "A1", "G1", "S1", "V1", "W1", "V2", "H1", "H2", "Y0", "Y1", "I1", "I2", "F1", "F2", "Z1", "Z2", "S2", "J1", "NC", "MA", "H3", "W2", "LQ", "D1", "B9", "C3", "E1", "X3", "IP", "K5", "PH"]
NC_EXONS = [[6501, 6650], [6801, 6950], [7101, 7300]]
# three unannotated loci inside gene G5 (+): two on '+' (in introns 1 and 3), one antisense spanning both (canonical for '-')
J_PLUS_A = [[9321, 9420], [9521, 9620], [9681, 9780]]
J_PLUS_B = [[10821, 10920], [11021, 11120], [11281, 11380]]
J_MINUS = [[9431, 9510], [10051, 10150], [11131, 11270]]
Z_EXONS = [[13101, 13250], [13401, 13550], [13651, 13780]]
# gene G11 (chr2, +): TA = 5 exons, TB = exons 1,3,5
G11_EXONS = [[3201, 3350], [3501, 3650], [3801, 3950], [4101, 4250], [4401, 4550]]
# gene G6: 8 exons of 150 bp, a 1-kb middle intron; its 5' half and 3' half can be covered by disjoint read clusters
G6_EXONS = [[4601, 4750], [4901, 5050], [5201, 5350], [5501, 5650], [6701, 6850], [7001, 7150], [7301, 7450], [7601, 7750]]
G5_EXONS = [[9001, 9300], [9801, 10000], [10601, 10800], [11401, 11700], [12501, 13000]]     # long last exon (500 bp)
LEVELS = (1, 3, 12)
# structures by the locus they live in (structures of different loci do not interact except through id numbering)
LOCUS = {"G1": ["K1", "K2", "P1", "Q1", "N1", "N2", "N3", "X1", "X2", "A1", "S1", "V1", "I1", "I2", "D1", "X3", "K5"], "G2": ["K4"], "U1": ["M1"], "U2": ["G1"],
         "G5": ["W1", "V2", "J1", "W2"], "G6": ["H1", "H2", "F1", "F2", "H3"], "G11": ["Y0", "Y1"], "ZA": ["Z1"], "ZB": ["Z2"], "U3": ["S2"], "U4": ["NC"], "U5": ["MA"], "U6": ["LQ"], "U7": ["B9"], "U8": ["C3", "IP"], "G8": ["E1", "PH"]}
LOCUS_OF = {st: loc for loc, sts in LOCUS.items() for st in sts}


def interacting(sc):
    """quick-tier selection of structure pairs: both in one locus, or the first structures of two loci (one representative per locus pair)"""
    if len(sc) != 2:
        return True
    a, b = sc[0][0], sc[1][0]
    if LOCUS_OF[a] == LOCUS_OF[b]:
        return True
    return LOCUS[LOCUS_OF[a]][0] == a and LOCUS[LOCUS_OF[b]][0] == b


def slot(i, ds=0, de=0):
    return W.slot(1000, i, ds, de)


def structure_reads(struct, level, tag):
    reads = []
    E = lambda slots: [slot(i) for i in slots]
    for k in range(level):
        nm = "%s_%s_%d" % (struct, tag, k)
        if struct == "K1":
            reads.append(W.read_of(nm, "chr1", E([0, 1, 2, 3, 4])))
        elif struct == "K2":
            reads.append(W.read_of(nm, "chr1", E([0, 2, 3, 4])))
        elif struct == "K4":
            reads.append(W.read_of(nm, "chr2", E([0, 1, 2, 3]), strand="-"))
        elif struct == "K5":       # T1 reads with the complete intron chain whose first exon starts 120+ bp inside the annotated one
            reads.append(W.read_of(nm, "chr1", [slot(0, ds=120 + k)] + E([1, 2, 3, 4])))
        elif struct == "P1":
            reads.append(W.read_of(nm, "chr1", [slot(2, ds=40 + 3 * k)] + E([3, 4])))
        elif struct == "Q1":       # 3'-truncated T1 reads: deep coverage on the 5' half of the gene only
            reads.append(W.read_of(nm, "chr1", E([0, 1]) + [slot(2, de=-40 - 3 * k)], polya=False))
        elif struct == "N1":
            reads.append(W.read_of(nm, "chr1", E([0, 1, 2, 4])))
        elif struct == "N2":
            reads.append(W.read_of(nm, "chr1", E([0, 1, 2, 3, 4, 5])))
        elif struct == "N3":
            reads.append(W.read_of(nm, "chr1", [slot(0), slot(1), [1941, 2060], slot(2), slot(3), slot(4)]))
        elif struct == "X1":
            b = E([0, 1, 2, 3, 4])
            b[1][1] += 3
            reads.append(W.read_of(nm, "chr1", b))
        elif struct == "X3":
            b = E([0, 1, 2, 3, 4])
            b[0][1] += 10
            b[1][0] += 10
            reads.append(W.read_of(nm, "chr1", b))
        elif struct == "X2":
            reads.append(W.read_of(nm, "chr1", [[501, 525]] + E([0, 1, 2, 3, 4])))
        elif struct == "M1":
            reads.append(W.read_of(nm, "chr1", [[8101 + 2 * k, 8700]]))
        elif struct == "A1":
            reads.append(W.read_of(nm, "chr1", E([0, 1, 2, 3, 4, 5]), strand="-"))
        elif struct == "G1":
            reads.append(W.read_of(nm, "chr2", [W.slot(8000, 0), W.slot(8000, 1), W.slot(8000, 2)]))
        elif struct == "V1":       # novel exon-skipping reads without polyA whose 3' ends stop at three positions inside the last exon
            b = E([0, 1, 2, 4])
            b[-1][1] -= (150, 110, 60)[k % 3]
            reads.append(W.read_of(nm, "chr1", b, polya=False))
        elif struct == "W1":       # full-length reads of T7 (gene G5 with a 500-bp last exon), no polyA
            reads.append(W.read_of(nm, "chr1", G5_EXONS, polya=False))
        elif struct == "V2":       # novel isoform of G5 skipping exon 3; reads stop 200-300 bp before the annotated end at 3 positions
            b = [list(G5_EXONS[i]) for i in (0, 1, 3, 4)]
            b[-1][1] = (12800, 12760, 12700)[k % 3]
            reads.append(W.read_of(nm, "chr1", b, polya=False))
        elif struct == "H1":       # novel exon-skipping isoform in the 5' half of G6 (exons 1,3,4), polyA-tailed, no read bridges to the 3' half
            reads.append(W.read_of(nm, "chr1", [G6_EXONS[i] for i in (0, 2, 3)]))
        elif struct == "H2":       # novel exon-skipping isoform in the 3' half of G6 (exons 5,7,8)
            reads.append(W.read_of(nm, "chr1", [G6_EXONS[i] for i in (4, 6, 7)]))
        elif struct == "I1":
            reads.append(W.read_of(nm, "chr1", [slot(1, ds=-200)] + E([2, 3, 4])))
        elif struct == "I2":
            reads.append(W.read_of(nm, "chr1", E([0, 1, 2]) + [slot(3, de=200)]))
        elif struct == "F1":
            reads.append(W.read_of(nm, "chr1", [G6_EXONS[i] for i in (0, 1, 2, 3)], polya=False))
        elif struct == "F2":
            reads.append(W.read_of(nm, "chr1", [G6_EXONS[i] for i in (4, 5, 6, 7)]))
        elif struct == "Z1":
            b = [list(e) for e in Z_EXONS]
            if k % 6 == 5:
                b[0][1] += 4
            reads.append(W.read_of(nm, "chr1", b))
        elif struct == "Z2":
            b = [list(e) for e in Z_EXONS]
            b[0][1] += 4
            reads.append(W.read_of(nm, "chr2", b))
        elif struct == "S2":
            reads.append(W.read_of(nm, "chr2", [[9601, 9800], [10101, 10400 if k % 2 else 11200]]))
        elif struct == "J1":
            reads.append(W.read_of(nm + "a", "chr1", J_PLUS_A))
            reads.append(W.read_of(nm + "b", "chr1", J_PLUS_B))
            reads.append(W.read_of(nm + "c", "chr1", J_MINUS, strand="-"))
        elif struct == "NC":
            reads.append(W.read_of(nm, "chr2", NC_EXONS, polya=False))
        elif struct == "MA":
            reads.append(W.read_of(nm, "chr2", [[7401 + 3 * k, 7820]]))
        elif struct == "H3":
            reads.append(W.read_of(nm, "chr1", [G6_EXONS[i] for i in (4, 6, 7)] + [[7901, 8050]]))
        elif struct == "LQ":
            if k % 3 == 0:
                reads.append(W.read_of(nm, "chr2", [[11501, 11700], [12001, 12300]]))
            else:
                reads.append(W.read_of(nm, "chr2", [[12041 + 5 * k, 12200 + 5 * k]], polya=False, mapq=3))
        elif struct == "D1":
            reads.append(W.read_of(nm, "chr1", E([0, 1, 2, 3]) + [slot(4, de=300)]))
        elif struct == "B9":
            mid = [14701, 14709] if k % 4 == 0 else [14651, 14694]
            reads.append(W.read_of(nm, "chr1", [[14501, 14600], mid, [14901, 15000], [15101, 15200]]))
        elif struct == "C3":
            reads.append(W.read_of(nm, "chr3", [[1001, 1200], [1501, 1700], [2001, 2300]]))
        elif struct == "E1":
            if k % 2 == 0:
                reads.append(W.read_of(nm, "chr2", [[5001, 5200], [5401, 5401], [5601, 5800], [6001, 6001]]))
            else:
                reads.append(W.read_of(nm, "chr2", [[5001, 5200], [5401, 5401], [6201, 6400]]))
        elif struct == "PH":
            # a novel isoform in G8 whose first intron ends 4 bp before the annotated intron 5201-5600 of T10 (an alternative acceptor,
            # canonical itself) and whose last exon is unannotated; no read carries the annotated intron
            reads.append(W.read_of(nm, "chr2", [[5001, 5200], [5597, 5800], [6401, 6600]]))
        elif struct == "IP":
            if k % 2 == 0:
                reads.append(W.read_of(nm, "chr3", [[1201, 1400], [1601, 1800], [2101, 2900]]))
            else:
                reads.append(W.read_of(nm, "chr3", [[2201, 2600]]))
        elif struct == "W2":
            reads.append(W.read_of(nm, "chr1", G5_EXONS))
        elif struct == "Y0":
            reads.append(W.read_of(nm, "chr2", G11_EXONS))
        elif struct == "Y1":
            reads.append(W.read_of(nm, "chr2", [G11_EXONS[0], [G11_EXONS[1][0] - 12, G11_EXONS[1][1]], G11_EXONS[2], G11_EXONS[4]]))
        elif struct == "S1":
            b = E([0, 1, 2, 4])
            if k % 2:
                b[-1][1] -= 120
            reads.append(W.read_of(nm, "chr1", b))
    return reads


def make_world(scenario, annotated=True):
    """scenario: tuple of (struct, level)"""
    from vlib import syn
    w = {"chroms": {"chr1": 15300, "chr2": 14400, "chr3": 3000}, "genes": [], "reads": [], "sites": []}
    g1 = W.locus_gene("G1", "chr1", "+", 1000, {"T1": [0, 1, 2, 3, 4], "T2": [0, 2, 3, 4]})
    g2 = W.locus_gene("G2", "chr2", "-", 1000, {"T4": [0, 1, 2, 3]})
    g5 = {"id": "G5", "chr": "chr1", "strand": "+", "transcripts": [{"id": "T7", "exons": [list(e) for e in G5_EXONS]}]}
    g6 = {"id": "G6", "chr": "chr1", "strand": "+", "transcripts": [{"id": "T8", "exons": [list(e) for e in G6_EXONS]}]}
    # reference-only genes with boundary shapes: 1-bp internal and terminal exons (closed GTF coordinates: start == end is a valid exon),
    # a transcript starting at position 1 and one ending at the last base of the chromosome; no read maps to them
    g8 = {"id": "G8", "chr": "chr2", "strand": "+", "transcripts": [
        {"id": "T9", "exons": [[5001, 5200], [5401, 5401], [5601, 5800], [6001, 6001]]},
        {"id": "T10", "exons": [[5001, 5200], [5601, 5800], [6201, 6202]]}]}
    g9 = {"id": "G9", "chr": "chr2", "strand": "-", "transcripts": [{"id": "T11", "exons": [[1, 120], [301, 500]]}]}
    g10 = {"id": "G10", "chr": "chr2", "strand": "+", "transcripts": [{"id": "T12", "exons": [[13801, 14000], [14201, 14400]]}]}
    g11 = {"id": "G11", "chr": "chr2", "strand": "+", "transcripts": [{"id": "TA", "exons": [list(e) for e in G11_EXONS]},
                                                                       {"id": "TB", "exons": [list(G11_EXONS[i]) for i in (0, 2, 4)]}]}
    w["genes"] = [g1, g2, g5, g6, g8, g9, g10, g11]
    # ... and a transcript with two exon records that touch (no intron between them: legal GTF, e.g. an exon split at a CDS boundary by
    # a converter); it is written as annotated
    g12 = {"id": "G12", "chr": "chr2", "strand": "+", "transcripts": [{"id": "T13", "exons": [[12451, 12600], [12601, 12700], [12901, 13050]]}]}     # (chr3 stays free of annotated genes)
    if annotated == 2:
        # the reference is itself an IsoQuant output: ids in IsoQuant's style with consecutive numbers on one chromosome
        ren = {"T2": "transcript1.chr1.nic", "T7": "transcript2.chr1.nnic", "T8": "transcript3.chr1.nnic", "T4": "transcript1.chr2.nnic"}
        gren = {"G5": "novel_gene_chr1_4", "G6": "novel_gene_chr1_5"}
        for g in w["genes"]:
            g["id"] = gren.get(g["id"], g["id"])
            for t in g["transcripts"]:
                t["id"] = ren.get(t["id"], t["id"])
    if annotated == 3:
        # gene ids that sort AFTER the ids IsoQuant makes up for novel genes ("novel_gene_..."): lower-case names
        for g in w["genes"]:
            g["id"] = "zeta_" + g["id"].lower()
    syn.plant_for_transcripts(w)
    w["genes"].append(g12)
    W.add_sites_for_blocks(w, "chr2", [[12451, 12700], [12901, 13050]], "+")
    # sites for unannotated structures
    W.add_sites_for_blocks(w, "chr1", [slot(i) for i in (0, 1, 2, 4)], "+")
    W.add_sites_for_blocks(w, "chr1", [slot(i) for i in (0, 1, 2, 3, 4, 5)], "+")
    W.add_sites_for_blocks(w, "chr1", [slot(1), [1941, 2060], slot(2)], "nc")
    W.add_sites_for_blocks(w, "chr1", [[501, 525], slot(0)], "+")
    W.add_sites_for_blocks(w, "chr2", [G11_EXONS[0], [G11_EXONS[1][0] - 12, G11_EXONS[1][1]]], "+")
    W.add_sites_for_blocks(w, "chr2", [W.slot(8000, 0), W.slot(8000, 1), W.slot(8000, 2)], "+")
    W.add_sites_for_blocks(w, "chr1", [G5_EXONS[i] for i in (0, 1, 3, 4)], "+")
    W.add_sites_for_blocks(w, "chr1", [G6_EXONS[i] for i in (0, 2, 3)], "+")
    W.add_sites_for_blocks(w, "chr1", [G6_EXONS[i] for i in (4, 6, 7)], "+")
    W.add_sites_for_blocks(w, "chr1", Z_EXONS, "+")
    W.add_sites_for_blocks(w, "chr1", [G6_EXONS[7], [7901, 8050]], "+")
    W.add_sites_for_blocks(w, "chr1", J_PLUS_A, "+")
    W.add_sites_for_blocks(w, "chr1", J_PLUS_B, "+")
    W.add_sites_for_blocks(w, "chr1", J_MINUS, "-")
    W.add_sites_for_blocks(w, "chr2", NC_EXONS, "nc")
    w["patches"] = [["chr2", 7801, "A" * 20]]
    W.add_sites_for_blocks(w, "chr2", [[9601, 9800], [10101, 10400]], "+")
    W.add_sites_for_blocks(w, "chr2", [[11501, 11700], [12001, 12300]], "+")
    W.add_sites_for_blocks(w, "chr1", [[14501, 14600], [14651, 14694], [14901, 15000], [15101, 15200]], "+")
    W.add_sites_for_blocks(w, "chr1", [[14501, 14600], [14701, 14709], [14901, 15000]], "+")
    W.add_sites_for_blocks(w, "chr3", [[1001, 1200], [1501, 1700], [2001, 2300]], "+")
    W.add_sites_for_blocks(w, "chr1", [[slot(0)[0], slot(0)[1] + 10], [slot(1)[0] + 10, slot(1)[1]]], "+")
    W.add_sites_for_blocks(w, "chr2", [[5401, 5401], [6201, 6400]], "+")
    W.add_sites_for_blocks(w, "chr2", [[5001, 5200], [5597, 5800], [6401, 6600]], "+")
    W.add_sites_for_blocks(w, "chr3", [[1201, 1400], [1601, 1800], [2101, 2900]], "+")
    W.add_sites_for_blocks(w, "chr2", [[Z_EXONS[0][0], Z_EXONS[0][1] + 4], Z_EXONS[1], Z_EXONS[2]], "+")
    W.dedup_sites(w)
    reads = []
    for i, (st, lv) in enumerate(scenario):
        reads += structure_reads(st, lv, str(i))
    w["reads"] = reads
    if not annotated:
        w = dict(w)
        w["genes_hidden"] = w["genes"]
        w["genes"] = []
    return w


def scenarios(max_structs, levels=LEVELS, structs=STRUCTS):
    out = []
    for n in range(1, max_structs + 1):
        for combo in itertools.combinations(structs, n):
            for lv in itertools.product(levels, repeat=n):
                out.append(tuple(zip(combo, lv)))
    return out


def run_scenario(scenario, annotated, strategy, scratch, tag, extra=(), data_type="nanopore", pre_hook=None, keep=False):
    """returns (rc, out dir, world, paths, workdir); caller removes workdir"""
    from vlib import syn, run
    w = make_world(scenario, annotated if annotated != 5 else 1)
    if annotated == 5:
        # reference sequences whose names differ in letter case and in leading zeros only (contigs of one assembly): ctg2, ctg02, Ctg2
        import json
        w = json.loads(json.dumps(w).replace('"chr1"', '"ctg2"').replace('"chr2"', '"ctg02"').replace('"chr3"', '"Ctg2"'))
    d = os.path.join(scratch, "mix_" + tag)
    shutil.rmtree(d, ignore_errors=True)
    paths = syn.materialise(w, d, gtf=bool(annotated))
    if annotated == 4:
        # the same annotation with its records in another order (exon lines of a transcript neither ascending nor descending)
        syn.write_gtf(w, paths["gtf"], style="shuffled")
    out = os.path.join(d, "out")
    ex = ["--model_construction_strategy", strategy] if strategy else []
    rc = run.run_isoquant(run.base_argv(paths, out, data_type=data_type, genedb=bool(annotated), extra=ex + list(extra)), paths["home"],
                          os.path.join(d, "o.txt"), pre_hook=pre_hook)
    return rc, out, w, paths, d


def scenario_tag(scenario, annotated, strategy, extra=()):
    return "%s_%d_%s_%s" % ("-".join("%s%d" % x for x in scenario), annotated, strategy, "".join(extra).replace("-", "").replace("_", ""))


def scale_constants(region_len=2048, min_reads=8, bin_size=64):
    """pre_hook: scale the region-splitting constants so that a 4-kb gene with tens of reads is processed in several regions"""
    def hook():
        import src.alignment_processor as AP
        AP.AbstractAlignmentStorage.COVERAGE_BIN = bin_size
        AP.InMemoryAlignmentStorage.COVERAGE_BIN = bin_size
        AP.AlignmentCollector.MAX_REGION_LEN = region_len
        AP.AlignmentCollector.MIN_READS_TO_SPLIT = min_reads
        AP.AlignmentCollector.REL_COV_VALLEY = 0.5
    return hook
