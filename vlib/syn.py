"""SYN — synthetic worlds: genome (FASTA), annotation (GTF / gz / gffutils db), reads (sorted indexed BAM).

A world is a plain dict (JSON-serialisable):
  {"chroms": {"chr1": 6000, ...},
   "sites":  [[chr, start, end, kind], ...]           # planted intron boundaries, kind in SITE_KINDS
   "genes":  [{"id","chr","strand","transcripts":[{"id","exons":[[s,e],...]}], "attrs":{...}}, ...],
   "reads":  [{"name","chr","blocks":[[s,e],...], ...optional keys, see make_segment}, ...]}
Coordinates are 1-based closed, like GTF.
"""
import gzip
import hashlib
import os

SITE_KINDS = {
    "+": ("GT", "AG"),        # canonical forward
    "-": ("CT", "AC"),        # canonical reverse
    "gc+": ("GC", "AG"),
    "at+": ("AT", "AC"),
    "gc-": ("CT", "GC"),
    "at-": ("GT", "AT"),
    "nc": ("CC", "GG"),       # non-canonical on both strands
}


def background(name, length):
    """deterministic C/G-only sequence: never polyA/polyT, never an accidental canonical splice site"""
    out = []
    h = hashlib.sha256(name.encode()).digest()
    while len(out) * 256 < length:
        h = hashlib.sha256(h).digest()
        out.append("".join("CG"[(b >> i) & 1] for b in h for i in range(8)))
    return "".join(out)[:length]


def genome_sequences(world):
    seqs = {}
    for c, ln in world["chroms"].items():
        seqs[c] = list(background(c, ln))
    for c, s, e, kind in world.get("sites", []):
        l, r = SITE_KINDS[kind]
        seqs[c][s - 1:s + 1] = list(l)
        seqs[c][e - 2:e] = list(r)
    for c, s, seq in world.get("patches", []):     # explicit sequence patches (1-based start)
        seqs[c][s - 1:s - 1 + len(seq)] = list(seq)
    return {c: "".join(v) for c, v in seqs.items()}


def write_fasta(world, path, seqs=None, gz=False):
    seqs = seqs or genome_sequences(world)
    opener = gzip.open if gz else open
    with opener(path, "wt") as f:
        for c in world["chroms"]:
            f.write(">%s\n" % c)
            s = seqs[c]
            for mc, ms, me in world.get("softmask", []):      # soft-masked (lower-case) stretches, 1-based closed; the reads stay upper-case
                if mc == c:
                    s = s[:ms - 1] + s[ms - 1:me].lower() + s[me:]
            for i in range(0, len(s), 60):
                f.write(s[i:i + 60] + "\n")
    return seqs


def gtf_text(world, with_gene_records=True, with_transcript_records=True, extra_exon_attrs=None, style="plain"):
    """style 'plain': gene, transcript, exons ascending.  'ensembl': exons of '-' transcripts in transcript (descending) order, CDS /
    start_codon / stop_codon / UTR records, name and biotype attributes.  'shuffled': the records of each gene in a fixed scrambled
    order (exons before their transcript, transcripts interleaved)"""
    if style != "plain":
        return _gtf_text_styled(world, style)
    lines = []
    for g in world.get("genes", []):
        ts = g["transcripts"]
        gs = min(t["exons"][0][0] for t in ts)
        ge = max(t["exons"][-1][1] for t in ts)
        gattr = 'gene_id "%s";' % g["id"]
        for k, v in g.get("attrs", {}).items():
            gattr += ' %s "%s";' % (k, v)
        src = g.get("source", "SYN")
        if with_gene_records:
            lines.append("\t".join([g["chr"], src, "gene", str(gs), str(ge), ".", g["strand"], ".", gattr]))
        for t in ts:
            strand = t.get("strand", g["strand"])
            tattr = 'gene_id "%s"; transcript_id "%s";' % (g["id"], t["id"])
            for k, v in t.get("attrs", {}).items():
                tattr += ' %s "%s";' % (k, v)
            if with_transcript_records:
                lines.append("\t".join([g["chr"], src, "transcript", str(t["exons"][0][0]), str(t["exons"][-1][1]),
                                        ".", strand, ".", tattr]))
            for i, (s, e) in enumerate(t["exons"]):
                eattr = tattr + ' exon_number "%d";' % (i + 1)
                eid = (t.get("exon_ids") or {}).get("%d-%d" % (s, e))
                if eid:
                    eattr += ' exon_id "%s";' % eid
                lines.append("\t".join([g["chr"], src, "exon", str(s), str(e), ".", strand, ".", eattr]))
    return "\n".join(lines) + ("\n" if lines else "")


def _gtf_text_styled(world, style):
    lines = []
    for g in world.get("genes", []):
        ts = g["transcripts"]
        gs = min(t["exons"][0][0] for t in ts)
        ge = max(t["exons"][-1][1] for t in ts)
        src = g.get("source", "SYN")
        gattr = 'gene_id "%s";' % g["id"]
        if style == "ensembl":
            gattr += ' gene_version "3"; gene_name "%s-name"; gene_source "syn"; gene_biotype "protein_coding";' % g["id"]
        glines = [(0, "\t".join([g["chr"], src, "gene", str(gs), str(ge), ".", g["strand"], ".", gattr]))]
        for ti, t in enumerate(ts):
            strand = t.get("strand", g["strand"])
            tattr = 'gene_id "%s"; transcript_id "%s";' % (g["id"], t["id"])
            if style == "ensembl":
                tattr = gattr + ' transcript_id "%s"; transcript_version "1"; transcript_name "%s-201"; transcript_biotype "protein_coding"; tag "basic";' % (t["id"], t["id"])
            glines.append((1 + ti * 100, "\t".join([g["chr"], src, "mRNA" if style == "mrna" else "transcript", str(t["exons"][0][0]), str(t["exons"][-1][1]), ".", strand, ".", tattr])))
            exons = list(t["exons"])
            order = list(reversed(exons)) if (style == "ensembl" and strand == "-") else exons
            for i, (s, e) in enumerate(order):
                eattr = tattr + ' exon_number "%d";' % (i + 1)
                eid = (t.get("exon_ids") or {}).get("%d-%d" % (s, e))
                if eid:
                    eattr += ' exon_id "%s";' % eid
                glines.append((2 + ti * 100 + i * 3, "\t".join([g["chr"], src, "exon", str(s), str(e), ".", strand, ".", eattr])))
                if style == "ensembl" and e - s >= 8:
                    glines.append((3 + ti * 100 + i * 3, "\t".join([g["chr"], src, "CDS", str(s + 3), str(e - 3), ".", strand, "0", eattr + ' protein_id "P%s";' % t["id"]])))
            if style == "ensembl":
                s0, e0 = exons[0]
                s1, e1 = exons[-1]
                glines.append((90 + ti * 100, "\t".join([g["chr"], src, "start_codon" if strand == "+" else "stop_codon", str(s0 + 3), str(min(s0 + 5, e0)), ".", strand, "0", tattr])))
                glines.append((91 + ti * 100, "\t".join([g["chr"], src, "five_prime_utr" if strand == "+" else "three_prime_utr", str(s0), str(min(s0 + 2, e0)), ".", strand, ".", tattr])))
                glines.append((92 + ti * 100, "\t".join([g["chr"], src, "stop_codon" if strand == "+" else "start_codon", str(max(e1 - 5, s1)), str(max(e1 - 3, s1)), ".", strand, "0", tattr])))
        if style == "shuffled":
            glines.sort(key=lambda x: hashlib.sha256(x[1].encode()).hexdigest())
        else:
            glines.sort(key=lambda x: x[0])
        lines += [l for _, l in glines]
    return "\n".join(lines) + ("\n" if lines else "")


def write_gtf(world, path, gz=False, **kw):
    txt = gtf_text(world, **kw)
    if gz:
        with gzip.open(path, "wt") as f:
            f.write(txt)
    else:
        with open(path, "w") as f:
            f.write(txt)
    return path


def build_db(gtf_path, db_path, complete=True):
    """gffutils database, built with IsoQuant's own converter so that the db is what IsoQuant would build"""
    import gffutils
    import contextlib
    import io
    with contextlib.redirect_stderr(io.StringIO()):
        return _build_db(gtf_path, db_path, complete)


def _build_db(gtf_path, db_path, complete):
    import gffutils
    if complete:
        gffutils.create_db(gtf_path, db_path, force=True, keep_order=True, merge_strategy='error',
                           sort_attribute_values=True, disable_infer_transcripts=True, disable_infer_genes=True)
    else:
        gffutils.create_db(gtf_path, db_path, force=True, keep_order=True, merge_strategy='error',
                           sort_attribute_values=True, disable_infer_transcripts=False, disable_infer_genes=False)
    return db_path


# ------------------------------------------------------------------------------------------------ reads
COMP = {"A": "T", "C": "G", "G": "C", "T": "A", "N": "N"}


def revcomp(s):
    return "".join(COMP[c] for c in reversed(s))


def make_segment(read, seqs, header):
    """read dict -> pysam.AlignedSegment
       keys: name, chr, blocks; optional: reverse(bool), mapq(int, 60), secondary, supplementary, unmapped,
             clip_left(str), clip_right(str), hard_left(int), hard_right(int),
             edits: [[block_index, offset_in_block, 'I'|'D'|'X', length]]  (offset counted in reference bases from block start)
             tags: {"RG": "x"}, seq_override, block_seq: {block_index: query bases of that (edit-free) block, e.g. an aligned polyA tail}
    """
    import pysam
    a = pysam.AlignedSegment(header)
    a.query_name = read["name"]
    if read.get("unmapped"):
        a.flag = 4
        a.query_sequence = read.get("seq_override", "CGCGCGCGCG")
        if read.get("chr"):
            # an unmapped record that carries RNAME/POS (as unmapped mates placed at their mate's position): no CIGAR
            a.reference_id = header.get_tid(read["chr"])
            a.reference_start = read.get("pos", 1) - 1
        else:
            a.reference_id = -1
            a.reference_start = -1
        a.mapping_quality = 0
        for k, v in read.get("tags", {}).items():
            a.set_tag(k, v)
        return a
    chrom = read["chr"]
    g = seqs[chrom]
    blocks = [tuple(b) for b in read["blocks"]]
    cig = []
    q = []
    if read.get("hard_left"):
        cig.append((5, read["hard_left"]))
    if read.get("clip_left"):
        cig.append((4, len(read["clip_left"])))
        q.append(read["clip_left"])
    edits = {}
    for bi, off, kind, ln in read.get("edits", []):
        edits.setdefault(bi, []).append((off, kind, ln))
    for i, (s, e) in enumerate(blocks):
        if i:
            cig.append((3, s - blocks[i - 1][1] - 1))
        pos = s
        if i in read.get("block_seq", {}) or str(i) in read.get("block_seq", {}):
            bs = read["block_seq"].get(i) or read["block_seq"].get(str(i))
            assert len(bs) == e - s + 1, "block_seq length mismatch"
            cig.append((0, e - s + 1))
            q.append(bs)
            continue
        for off, kind, ln in sorted(edits.get(i, [])):
            at = s + off
            if at > pos:
                cig.append((0, at - pos))
                q.append(g[pos - 1:at - 1])
                pos = at
            if kind == "I":
                cig.append((1, ln))
                q.append("C" * ln)
            elif kind == "D":
                cig.append((2, ln))
                pos += ln
            elif kind == "X":
                cig.append((0, ln))
                q.append("".join("G" if c == "C" else "C" for c in g[pos - 1:pos - 1 + ln]))
                pos += ln
        if e + 1 > pos:
            cig.append((0, e + 1 - pos))
            q.append(g[pos - 1:e])
    if read.get("clip_right"):
        cig.append((4, len(read["clip_right"])))
        q.append(read["clip_right"])
    if read.get("hard_right"):
        cig.append((5, read["hard_right"]))
    if read.get("eqx"):
        # extended CIGAR (minimap2 --eqx): '=' for the matching stretches, 'X' for the mismatches of the "X" edits
        # rebuild: walk the blocks again, this time with = / X
        cig2 = []
        if read.get("hard_left"):
            cig2.append((5, read["hard_left"]))
        if read.get("clip_left"):
            cig2.append((4, len(read["clip_left"])))
        for i, (s, e) in enumerate(blocks):
            if i:
                cig2.append((3, s - blocks[i - 1][1] - 1))
            pos = s
            if i in read.get("block_seq", {}) or str(i) in read.get("block_seq", {}):
                cig2.append((0, e - s + 1))
                continue
            for off, kind, ln in sorted(edits.get(i, [])):
                at = s + off
                if at > pos:
                    cig2.append((7, at - pos))
                    pos = at
                if kind == "I":
                    cig2.append((1, ln))
                elif kind == "D":
                    cig2.append((2, ln))
                    pos += ln
                elif kind == "X":
                    cig2.append((8, ln))
                    pos += ln
            if e + 1 > pos:
                cig2.append((7, e + 1 - pos))
        if read.get("clip_right"):
            cig2.append((4, len(read["clip_right"])))
        if read.get("hard_right"):
            cig2.append((5, read["hard_right"]))
        cig = cig2
    # merge adjacent equal ops
    merged = []
    for op, ln in cig:
        if merged and merged[-1][0] == op:
            merged[-1] = (op, merged[-1][1] + ln)
        else:
            merged.append((op, ln))
    flag = 0
    if read.get("reverse"):
        flag |= 16
    if read.get("secondary"):
        flag |= 256
    if read.get("supplementary"):
        flag |= 2048
    a.flag = flag
    a.reference_id = header.get_tid(chrom)
    a.reference_start = blocks[0][0] - 1
    a.mapping_quality = read.get("mapq", 60)
    a.query_sequence = read.get("seq_override") or "".join(q)
    a.cigartuples = merged
    if read.get("no_seq"):
        a.query_sequence = None          # SEQ '*', as aligners write secondary records
    for k, v in read.get("tags", {}).items():
        a.set_tag(k, v)
    return a


def write_bam(world, path, reads=None, seqs=None, sort_key=None):
    import pysam
    seqs = seqs or genome_sequences(world)
    reads = world["reads"] if reads is None else reads
    chroms = list(world["chroms"])
    header = pysam.AlignmentHeader.from_dict({
        "HD": {"VN": "1.6", "SO": "coordinate"},
        "SQ": [{"SN": c, "LN": world["chroms"][c]} for c in chroms]})
    segs = [make_segment(r, seqs, header) for r in reads]
    idx = list(range(len(segs)))

    def key(i):
        s = segs[i]
        if s.reference_id < 0:
            return (1 << 30, 0, i)
        return (s.reference_id, s.reference_start, i)
    idx.sort(key=sort_key or key)
    with pysam.AlignmentFile(path, "wb", header=header) as out:
        for i in idx:
            out.write(segs[i])
    pysam.index(path)
    return path


# ------------------------------------------------------------------------------------------------ materialise
def materialise(world, d, gtf=True, gz_ref=False, bam_name="reads.bam"):
    """write reference, annotation, bam into directory d; returns dict of paths"""
    os.makedirs(d, exist_ok=True)
    seqs = genome_sequences(world)
    paths = {}
    paths["ref"] = os.path.join(d, "ref.fa" + (".gz" if gz_ref else ""))
    write_fasta(world, paths["ref"], seqs, gz=gz_ref)
    if gtf and world.get("genes"):
        paths["gtf"] = write_gtf(world, os.path.join(d, "annot.gtf"))
    if world.get("reads") is not None:
        paths["bam"] = write_bam(world, os.path.join(d, bam_name), seqs=seqs)
    paths["home"] = os.path.join(d, "home")
    os.makedirs(paths["home"], exist_ok=True)
    return paths


def plant_for_transcripts(world):
    """plant canonical sites for every annotated intron according to the gene strand (idempotent)"""
    sites = {(c, s, e): k for c, s, e, k in world.get("sites", [])}
    for g in world.get("genes", []):
        for t in g["transcripts"]:
            ex = t["exons"]
            strand = t.get("strand", g["strand"])
            for i in range(len(ex) - 1):
                key = (g["chr"], ex[i][1] + 1, ex[i + 1][0] - 1)
                sites.setdefault(key, strand if strand in "+-" else "+")
    world["sites"] = [[c, s, e, k] for (c, s, e), k in sorted(sites.items())]
    return world
