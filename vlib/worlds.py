"""Shared scenario families (locus lattice, read structures) used by the pipeline-level checks.

Lattice: exon slots of 200 bp separated by 400-bp introns, far outside every 'micro' heuristic
(micro_intron_length 50, max_missed_exon_len 100, max_fake_terminal_exon_len 40, minor_exon_extension 50).
"""
import copy

POLYA = "A" * 30
POLYT = "T" * 30

# slot i of a locus starting at base: exon [base + 600*i + 1, base + 600*i + 200]


def slot(base, i, ds=0, de=0):
    s = base + 600 * i + 1
    return [s + ds, s + 199 + de]


def exons(base, slots):
    return [slot(base, i) for i in slots]


def locus_gene(gid, chrom, strand, base, isoforms):
    """isoforms: {tid: [slot indices] or explicit exon list}"""
    ts = []
    for tid, sl in isoforms.items():
        ex = [slot(base, x) if isinstance(x, int) else list(x) for x in sl]
        ts.append({"id": tid, "exons": ex})
    return {"id": gid, "chr": chrom, "strand": strand, "transcripts": ts}


def read_of(name, chrom, blocks, strand="+", polya=True, reverse=None, **kw):
    """a read following 'blocks'; polyA soft clip placed at the 3' end according to strand"""
    r = {"name": name, "chr": chrom, "blocks": [list(b) for b in blocks]}
    if polya:
        if strand == "+":
            r["clip_right"] = POLYA
        else:
            r["clip_left"] = POLYT
    r["reverse"] = (strand == "-") if reverse is None else reverse
    r.update(kw)
    return r


def base_world(n_chr=2, length=9000):
    return {"chroms": {"chr%d" % (i + 1): length - 1000 * i for i in range(n_chr)}, "genes": [], "reads": [], "sites": []}


def add_sites_for_blocks(world, chrom, blocks, kind):
    for i in range(len(blocks) - 1):
        world.setdefault("sites", []).append([chrom, blocks[i][1] + 1, blocks[i + 1][0] - 1, kind])


def dedup_sites(world):
    seen = {}
    for c, s, e, k in world.get("sites", []):
        seen.setdefault((c, s, e), k)
    world["sites"] = [[c, s, e, k] for (c, s, e), k in sorted(seen.items())]
    return world


def standard_world():
    """2 chromosomes; G1 (+, 3 isoforms over 5 slots) on chr1, G2 (-, 2 isoforms) on chr2, G3 (+ mono-exonic) on chr1"""
    from vlib import syn
    w = base_world(2, 9000)
    w["genes"].append(locus_gene("G1", "chr1", "+", 1000, {"T1": [0, 1, 2, 3, 4], "T2": [0, 2, 3, 4], "T3": [0, 1, 2, 4]}))
    w["genes"].append(locus_gene("G3", "chr1", "+", 5000, {"T6": [[5301, 5900]]}))
    w["genes"].append(locus_gene("G2", "chr2", "-", 1000, {"T4": [0, 1, 2, 3], "T5": [0, 1, 3]}))
    syn.plant_for_transcripts(w)
    return w


def copy_world(w):
    return copy.deepcopy(w)


def mixed_world(n_chr=4, groups=True, multimappers=True):
    """n_chr chromosomes of different lengths; on each: a 3-isoform '+' gene at 1000, a '-' gene at 5000, an unannotated
    locus at 8000; reads: FSM of every isoform, ISM (ambiguous), novel in catalog, novel exon, intergenic spliced novel gene,
    mono-exonic, unmapped; read ids carry a group suffix; multi-mappers between consecutive chromosomes"""
    from vlib import syn
    w = {"chroms": {"chr%d" % (i + 1): 12000 - 700 * i for i in range(n_chr)}, "genes": [], "reads": [], "sites": []}
    reads = []
    cnt = [0]

    def name(tag, grp):
        cnt[0] += 1
        return "%s%d_%s" % (tag, cnt[0], grp) if groups else "%s%d" % (tag, cnt[0])
    for ci in range(n_chr):
        c = "chr%d" % (ci + 1)
        w["genes"].append(locus_gene("GA%d" % ci, c, "+", 1000, {"TA%d_1" % ci: [0, 1, 2, 3, 4], "TA%d_2" % ci: [0, 2, 3, 4], "TA%d_3" % ci: [0, 1, 2, 4]}))
        w["genes"].append(locus_gene("GB%d" % ci, c, "-", 5000, {"TB%d_1" % ci: [0, 1, 2], "TB%d_2" % ci: [0, 2]}))
        grp = ["gA", "gB", "gC"]
        for k in range(3):
            reads.append(read_of(name("fsm1", grp[k % 3]), c, exons(1000, [0, 1, 2, 3, 4])))
            reads.append(read_of(name("fsm2", grp[(k + 1) % 3]), c, exons(1000, [0, 2, 3, 4])))
            reads.append(read_of(name("fsmb", grp[(k + ci) % 3]), c, exons(5000, [0, 1, 2]), strand="-"))
        reads.append(read_of(name("ism", "gA"), c, [[2251, 2400], [2801, 2950]], polya=False))
        for k in range(4):
            reads.append(read_of(name("nic", grp[k % 2]), c, exons(1000, [0, 1, 3, 4])))          # novel combination of known introns? (skips slot 2)
            reads.append(read_of(name("nnic", grp[(k + 1) % 3]), c, exons(1000, [0, 1, 2, 3, 4, 5])))  # novel exon (slot 5)
            reads.append(read_of(name("ng", grp[k % 3]), c, exons(8000, [0, 1, 2])))              # novel gene
        reads.append(read_of(name("mono", "gB"), c, [[1650, 1780]], polya=False))
        add_sites_for_blocks(w, c, exons(1000, [0, 1, 3, 4]), "+")
        add_sites_for_blocks(w, c, exons(1000, [0, 1, 2, 3, 4, 5]), "+")
        add_sites_for_blocks(w, c, exons(8000, [0, 1, 2]), "+")
    if multimappers:
        for ci in range(n_chr - 1):
            c1, c2 = "chr%d" % (ci + 1), "chr%d" % (ci + 2)
            nm = name("mm", "gC")
            reads.append(read_of(nm, c1, exons(1000, [0, 1, 2, 3, 4])))
            reads.append(read_of(nm, c2, exons(1000, [0, 1, 2, 3, 4]), secondary=True))
            nm = name("mmi", "gA")
            reads.append(read_of(nm, c2, exons(1000, [0, 2, 3, 4])))
            reads.append(read_of(nm, c1, exons(8000, [0, 1, 2]), secondary=True))
        # multi-mappers whose alignments all lie on ONE chromosome (primary in the gene, secondary in the unannotated locus)
        for ci in range(n_chr):
            c = "chr%d" % (ci + 1)
            nm = name("mms", "gB")
            reads.append(read_of(nm, c, exons(1000, [0, 1, 2, 3, 4])))
            reads.append(read_of(nm, c, exons(8000, [0, 1, 2]), secondary=True))
    reads.append({"name": "unm_1", "unmapped": True})
    syn.plant_for_transcripts(w)
    dedup_sites(w)
    w["reads"] = reads
    return w
