"""Shared scenario families (locus lattice, read structures) used by the pipeline-level checks.

Lattice: exon slots of 200 bp separated by 400-bp introns, far outside every 'micro' heuristic
(micro_intron_length 50, max_missed_exon_len 100, max_fake_terminal_exon_len 40, minor_exon_extension 50).
"""
import copy

POLYA = "A" * 30
POLYT = "T" * 30

# slot i of a locus starting at base: exon [base + 600*i + 1, base + 600*i + 200]


def slot(base, i, ds=0, de=0):
    s = base + 600 * i + 1
    return [s + ds, s + 199 + de]


def exons(base, slots):
    return [slot(base, i) for i in slots]


def locus_gene(gid, chrom, strand, base, isoforms):
    """isoforms: {tid: [slot indices] or explicit exon list}"""
    ts = []
    for tid, sl in isoforms.items():
        ex = [slot(base, x) if isinstance(x, int) else list(x) for x in sl]
        ts.append({"id": tid, "exons": ex})
    return {"id": gid, "chr": chrom, "strand": strand, "transcripts": ts}


def read_of(name, chrom, blocks, strand="+", polya=True, reverse=None, **kw):
    """a read following 'blocks'; polyA soft clip placed at the 3' end according to strand"""
    r = {"name": name, "chr": chrom, "blocks": [list(b) for b in blocks]}
    if polya:
        if strand == "+":
            r["clip_right"] = POLYA
        else:
            r["clip_left"] = POLYT
    r["reverse"] = (strand == "-") if reverse is None else reverse
    r.update(kw)
    return r


def base_world(n_chr=2, length=9000):
    return {"chroms": {"chr%d" % (i + 1): length - 1000 * i for i in range(n_chr)}, "genes": [], "reads": [], "sites": []}


def add_sites_for_blocks(world, chrom, blocks, kind):
    for i in range(len(blocks) - 1):
        world.setdefault("sites", []).append([chrom, blocks[i][1] + 1, blocks[i + 1][0] - 1, kind])


def dedup_sites(world):
    seen = {}
    for c, s, e, k in world.get("sites", []):
        seen.setdefault((c, s, e), k)
    world["sites"] = [[c, s, e, k] for (c, s, e), k in sorted(seen.items())]
    return world


def standard_world():
    """2 chromosomes; G1 (+, 3 isoforms over 5 slots) on chr1, G2 (-, 2 isoforms) on chr2, G3 (+ mono-exonic) on chr1"""
    from vlib import syn
    w = base_world(2, 9000)
    w["genes"].append(locus_gene("G1", "chr1", "+", 1000, {"T1": [0, 1, 2, 3, 4], "T2": [0, 2, 3, 4], "T3": [0, 1, 2, 4]}))
    w["genes"].append(locus_gene("G3", "chr1", "+", 5000, {"T6": [[5301, 5900]]}))
    w["genes"].append(locus_gene("G2", "chr2", "-", 1000, {"T4": [0, 1, 2, 3], "T5": [0, 1, 3]}))
    syn.plant_for_transcripts(w)
    return w


def copy_world(w):
    return copy.deepcopy(w)
