"""CRASH — crash-point injector.

In the child that performs the doomed run every file-system mutation CALL is a crash point: builtins.open in a writing
mode (this covers gzip.open, pickle targets, pyfaidx's .fai, lock files), os.remove/unlink, os.rename/replace,
os.makedirs of a missing directory, and gffutils.create_db (sqlite writes through C, treated as one mutation).
Variant 'before': the call is not made; 'after': the call returns, then the process dies.  Death = os._exit(137):
user-space buffers are lost, data already handed to the OS stays (kill -9 semantics).
Variant 'torn' (open-for-write points only): the run goes on until THAT file is closed; the file then keeps only the first half of
what was written to it and the process dies - the scaled-down picture of a kill in the middle of writing a file larger than one
write buffer (the synthetic files are far smaller than 8 KB, so without this variant a file is only ever empty or complete).
"""
import builtins
import os
import re


class Injector:
    def __init__(self, target, variant, record_path, normalise):
        self.target = target          # 1-based index of the mutation call to crash at (0 = never: discovery run)
        self.variant = variant
        self.n = 0
        self.normalise = normalise
        self.fd = os.open(record_path, os.O_WRONLY | os.O_CREAT | os.O_APPEND, 0o644)
        self.pid = os.getpid()

    def record(self, s):
        os.write(self.fd, (s + "\n").encode())

    def point(self, op, path):
        """returns True if the process must die after performing the operation"""
        if os.getpid() != self.pid:
            return False              # worker processes of a pool are not crash-injected here
        self.n += 1
        label = "%s:%s" % (op, self.normalise(str(path)))
        self.record("%d\t%s" % (self.n, label))
        if self.n == self.target:
            if self.variant == "before":
                self.record("DIE before %d" % self.n)
                os._exit(137)
            return True
        return False

    def die(self):
        self.record("DIE after %d" % self.n)
        os._exit(137)

    def install(self):
        inj = self
        o_open = builtins.open
        o_remove, o_unlink, o_rename, o_replace, o_makedirs = os.remove, os.unlink, os.rename, os.replace, os.makedirs

        def w_open(file, mode="r", *a, **kw):
            if isinstance(file, (str, bytes, os.PathLike)) and any(c in mode for c in "wax+"):
                d = inj.point("open-" + mode.replace("b", "").replace("t", ""), os.fspath(file))
                before = os.path.getsize(file) if ("a" in mode and os.path.exists(file)) else 0
                f = o_open(file, mode, *a, **kw)
                if d and inj.variant == "torn":
                    o_close = f.close
                    path = os.fspath(file)

                    def torn_close():
                        try:
                            f.flush()
                            written = f.tell() - before       # bytes that went through THIS handle
                        except Exception:  # noqa
                            written = 0
                        o_close()
                        size = os.path.getsize(path) if os.path.exists(path) else -1
                        if written <= 0 or size != before + written:
                            # nothing was written through this handle (or somebody else wrote to the file as well): there is no torn
                            # state of this handle's data to construct; the run goes on (reported as 'unreached' if it finishes)
                            inj.record("NOTORN %s written=%d size=%d" % (inj.normalise(path), written, size))
                            return
                        os.truncate(path, before + written // 2)
                        inj.record("TORN %s %d -> %d" % (inj.normalise(path), size, before + written // 2))
                        inj.die()
                    try:
                        f.close = torn_close
                    except AttributeError:
                        inj.die()           # the object does not take the hook: plain 'after' semantics
                    return f
                if d:
                    inj.die()
                return f
            return o_open(file, mode, *a, **kw)

        def w_remove(path, *a, **kw):
            d = inj.point("remove", path)
            r = o_remove(path, *a, **kw)
            if d:
                inj.die()
            return r

        def w_rename(src, dst, *a, **kw):
            d = inj.point("rename", dst)
            r = o_rename(src, dst, *a, **kw)
            if d:
                inj.die()
            return r

        def w_replace(src, dst, *a, **kw):
            d = inj.point("replace", dst)
            r = o_replace(src, dst, *a, **kw)
            if d:
                inj.die()
            return r

        def w_makedirs(name, mode=0o777, exist_ok=False):
            if os.path.isdir(name):
                return o_makedirs(name, mode, exist_ok)
            d = inj.point("makedirs", name)
            r = o_makedirs(name, mode, exist_ok)
            if d:
                inj.die()
            return r
        builtins.open = w_open
        os.remove = w_remove
        os.unlink = w_remove
        os.rename = w_rename
        os.replace = w_replace
        os.makedirs = w_makedirs
        import io
        io.open = w_open
        try:
            import gffutils
            o_create = gffutils.create_db

            def w_create(data, dbfn, *a, **kw):
                d = inj.point("create_db", dbfn)
                r = o_create(data, dbfn, *a, **kw)
                if d:
                    inj.die()
                return r
            gffutils.create_db = w_create
        except ImportError:
            pass


def make_normaliser(root, chroms, prefix="OUT"):
    def norm(p):
        p = p.replace(root, "<root>")
        for c in sorted(chroms, key=len, reverse=True):
            p = re.sub(r"(?<![A-Za-z0-9])%s(?![A-Za-z0-9])" % re.escape(c), "<chr>", p)
        p = re.sub(r"\.tmp\d*|\.\d+\.tmp", ".<tmp>", p)
        return p
    return norm


def read_record(path):
    pts = []
    died = None
    if not os.path.exists(path):
        return pts, died
    for l in open(path):
        l = l.rstrip("\n")
        if l.startswith("DIE"):
            died = l
        elif "\t" in l:
            i, lab = l.split("\t", 1)
            pts.append((int(i), lab))
    return pts, died
