"""PERMSET — owning the iteration order of sets.

PYTHONHASHSEED influences IsoQuant only through the iteration order of sets whose elements hash by string (str, Enum
members, tuples containing them, None).  An import hook compiles isoquant.py and src/*.py from /repo's working tree with
an AST rewrite: set(...) calls, set displays, set comprehensions and defaultdict(set) become VSet, a set subclass whose
__iter__ consults a controller; set-returning methods return VSet again.

A *choice point* is the sorted content of a hash-order-dependent set that gets iterated.  The default order is the sorted
order.  A *deviation* gives one content another permutation (all k! for k<=3, otherwise reversal + rotations + adjacent
transpositions).  The explorer runs the pipeline with 0 deviations (recording all choice points) and then once per single
deviation, comparing outputs with the baseline.
"""
import ast
import importlib.abc
import importlib.machinery
import importlib.util
import itertools
import os
import sys
from enum import Enum


class Controller:
    record = None          # dict content_key -> count, when recording
    deviation = None       # dict content_key -> permutation tuple of indices, or None
    log_path = None


def _order_dependent(x):
    """does hash(x) depend on PYTHONHASHSEED?"""
    if x is None or isinstance(x, (str, bytes, Enum)):
        return True
    if isinstance(x, (tuple, frozenset)):
        return any(_order_dependent(y) for y in x)
    if isinstance(x, (int, float, bool)):
        return False
    return True            # arbitrary objects hash by id: order varies between runs as well


def _sort_key(x):
    return (type(x).__name__, repr(x))


class VSet(set):
    __slots__ = ()

    def __iter__(self):
        if len(self) < 2:
            return set.__iter__(self)
        items = list(set.__iter__(self))
        if not any(_order_dependent(x) for x in items):
            return iter(items)                       # seed-independent in CPython: not a choice point
        items.sort(key=_sort_key)
        key = repr(items)
        rec = Controller.record
        if rec is not None:
            rec[key] = rec.get(key, 0) + 1
        dev = Controller.deviation
        if dev is not None:
            perm = dev.get(key)
            if perm is not None and len(perm) == len(items):
                items = [items[i] for i in perm]
        return iter(items)

    # set-returning operations must stay VSet
    def _wrap(name):
        base = getattr(set, name)

        def f(self, *a, **kw):
            r = base(self, *a, **kw)
            if r is NotImplemented:
                return r
            return VSet(r) if isinstance(r, set) and not isinstance(r, VSet) else r
        f.__name__ = name
        return f
    for _n in ("union", "intersection", "difference", "symmetric_difference", "copy", "__or__", "__and__", "__sub__", "__xor__",
               "__ror__", "__rand__", "__rsub__", "__rxor__"):
        locals()[_n] = _wrap(_n)
    del _n, _wrap

    def __reduce__(self):
        return (VSet, (list(set.__iter__(self)),))

    def pop(self):
        # set.pop() removes an arbitrary element: the first in iteration order
        for x in self:
            set.discard(self, x)
            return x
        raise KeyError("pop from an empty set")


class _Rewriter(ast.NodeTransformer):
    def visit_Call(self, node):
        self.generic_visit(node)
        if isinstance(node.func, ast.Name) and node.func.id == "set":
            node.func = ast.copy_location(ast.Name(id="_vs_VSet", ctx=ast.Load()), node.func)
        elif isinstance(node.func, ast.Name) and node.func.id == "defaultdict" and len(node.args) == 1 and \
                isinstance(node.args[0], ast.Name) and node.args[0].id == "set":
            node.args[0] = ast.copy_location(ast.Name(id="_vs_VSet", ctx=ast.Load()), node.args[0])
        return node

    def visit_Set(self, node):
        self.generic_visit(node)
        new = ast.Call(func=ast.Name(id="_vs_VSet", ctx=ast.Load()), args=[ast.List(elts=node.elts, ctx=ast.Load())], keywords=[])
        return ast.copy_location(new, node)

    def visit_SetComp(self, node):
        self.generic_visit(node)
        gen = ast.GeneratorExp(elt=node.elt, generators=node.generators)
        new = ast.Call(func=ast.Name(id="_vs_VSet", ctx=ast.Load()), args=[gen], keywords=[])
        return ast.copy_location(new, node)


class _Loader(importlib.abc.Loader):
    def __init__(self, path, is_pkg):
        self.path = path
        self.is_pkg = is_pkg

    def create_module(self, spec):
        return None

    def exec_module(self, module):
        src = open(self.path).read()
        tree = ast.parse(src, self.path)
        tree = _Rewriter().visit(tree)
        ast.fix_missing_locations(tree)
        module.__dict__["_vs_VSet"] = VSet
        module.__file__ = self.path
        code = compile(tree, self.path, "exec")
        exec(code, module.__dict__)


class _Finder(importlib.abc.MetaPathFinder):
    def __init__(self, repo):
        self.repo = repo

    def find_spec(self, fullname, path=None, target=None):
        if fullname == "isoquant":
            p = os.path.join(self.repo, "isoquant.py")
            return importlib.util.spec_from_loader(fullname, _Loader(p, False), origin=p)
        if fullname == "src":
            p = os.path.join(self.repo, "src", "__init__.py")
            spec = importlib.util.spec_from_loader(fullname, _Loader(p, True), origin=p, is_package=True)
            spec.submodule_search_locations = [os.path.join(self.repo, "src")]
            return spec
        if fullname.startswith("src."):
            p = os.path.join(self.repo, "src", fullname[4:] + ".py")
            if os.path.exists(p):
                return importlib.util.spec_from_loader(fullname, _Loader(p, False), origin=p)
        return None


def install(repo):
    """must be called before isoquant / src.* are imported in this process"""
    for m in list(sys.modules):
        if m == "isoquant" or m == "src" or m.startswith("src."):
            raise RuntimeError("PERMSET must be installed before IsoQuant is imported (%s already loaded)" % m)
    sys.meta_path.insert(0, _Finder(repo))


def deviations_for(key_repr, n):
    """alternative iteration orders (index permutations) for a choice point with n elements"""
    ident = tuple(range(n))
    if n <= 3:
        perms = [p for p in itertools.permutations(range(n)) if p != ident]
    else:
        perms = [tuple(reversed(ident))]
        for r in range(1, n):
            perms.append(ident[r:] + ident[:r])
        for i in range(n - 1):
            p = list(ident)
            p[i], p[i + 1] = p[i + 1], p[i]
            perms.append(tuple(p))
        seen = set()
        perms = [p for p in perms if p != ident and not (p in seen or seen.add(p))]
    return perms
