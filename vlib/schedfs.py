"""SCHED-FS — cooperative scheduler over a virtual file system.

Each simulated IsoQuant process is a Python thread; exactly one runs at a time (baton = per-thread semaphore); a thread
can be descheduled only inside an intercepted file-system operation on a virtual path.  Virtual paths start with VROOT.

Visibility semantics (CPython buffered files, content far below the 8 KB buffer):
  open(p,'w')  : file truncated immediately (visible to everybody)
  f.write(s)   : buffered, invisible
  f.close()/with-exit, f.flush() : buffered data becomes visible, mtime advances
  open(p,'r')  : binds the handle to the file object (inode) the name refers to at that moment; read() returns that object's
                 content at the time of the read() call (a later os.replace of the name does not redirect the handle)
  os.replace   : atomic; handles that are open on the source keep writing into the renamed object
  f.fileno() / os.fsync / os.open+os.close on directories : accepted, no effect on visibility (fsync does not flush Python buffers)
Every intercepted call is one scheduling point, taken BEFORE the operation executes.
"""
import builtins
import io
import json
import os
import threading

VROOT = "/vfs/"


class Abort(BaseException):
    """unwinds a simulated process when an execution is pruned"""


class VFile:
    def __init__(self, content="", mtime=1.0, meta=None):
        self.content = content
        self.mtime = mtime
        self.writers = 0          # number of processes holding it open for writing
        self.meta = meta
        self.committed = {content}     # every content the file had while nobody was in the middle of writing it


class VFS:
    def __init__(self):
        self.files = {}
        self.dirs = {VROOT.rstrip("/")}
        self.clock = 100.0
        self.torn_reads = []
        self.fds = {}
        self.handles = []

    def new_fd(self, obj):
        fd = 1000000 + len(self.fds)
        self.fds[fd] = obj
        return fd

    def tick(self):
        self.clock += 1.0
        return self.clock

    def snapshot(self):
        # open handles are bound to file objects that may no longer have a name: their content belongs to the state as well
        held = tuple(sorted((h.owner if h.owner is not None else -1, h.path, h.mode, h.file.content if h.file is not None else "")
                            for h in self.handles if not h.closed))
        return tuple(sorted((p, f.content, f.mtime, f.writers) for p, f in self.files.items())) + tuple(sorted(self.dirs)) + (held,)

    def add(self, path, content, mtime=None):
        self.files[path] = VFile(content, mtime if mtime is not None else self.tick())
        d = os.path.dirname(path)
        while d and d != "/":
            self.dirs.add(d)
            d = os.path.dirname(d)


class VHandle:
    def __init__(self, sched, path, mode):
        self.sched = sched
        self.path = path
        self.mode = mode
        self.buf = []
        self.closed = False
        self._readpos = 0
        self.file = sched.vfs.files.get(path)     # the file object this handle is bound to (survives rename / remove of the name)
        self.fd = None
        self.owner = sched.current
        sched.vfs.handles.append(self)

    # writing
    def write(self, s):
        self.buf.append(s)
        return len(s)

    def _commit(self):
        f = self.file
        data = "".join(self.buf)
        if "a" in self.mode:
            f.content = f.content + data[getattr(self, "_appended", 0):]
            self._appended = len(data)
        else:
            # the handle has its own offset starting at 0: it overwrites whatever is there now, a longer tail written by
            # someone else in the meantime survives
            f.content = data + f.content[len(data):]
        f.mtime = self.sched.vfs.tick()

    def flush(self):
        if self.closed or not ("w" in self.mode or "a" in self.mode or "x" in self.mode):
            return
        self.sched.point("flush", self.path)
        if self.file is not None:
            self._commit()

    def fileno(self):
        if self.fd is None:
            self.fd = self.sched.vfs.new_fd(self)
        return self.fd

    def close(self):
        if self.closed:
            return
        self.closed = True
        if "w" in self.mode or "a" in self.mode or "x" in self.mode:
            self.sched.point("close-w", self.path)
            f = self.file
            if f is None:
                f = self.file = self.sched.vfs.files[self.path] = VFile("")
            self._commit()
            f.writers -= 1
            if f.writers == 0:
                f.committed.add(f.content)

    def read(self, n=-1):
        self.sched.point("read", self.path)
        f = self.file
        data = f.content if f else ""
        if f is not None and f.writers > 0 and data not in f.committed:
            # content that only exists because somebody is half-way through rewriting the file
            self.sched.vfs.torn_reads.append((self.sched.current, self.path, data))
        self.sched.record_result(("read", self.path, data))
        out = data[self._readpos:] if n < 0 else data[self._readpos:self._readpos + n]
        self._readpos += len(out)
        return out

    def readline(self):
        return self.read()

    def __iter__(self):
        return iter(self.read().splitlines(True))

    def seek(self, pos, whence=0):
        self._readpos = pos

    def truncate(self, size=None):
        f = self.file
        if f is not None:
            f.content = f.content[:size if size is not None else self._readpos]

    def __enter__(self):
        return self

    def __exit__(self, *a):
        self.close()
        return False


class Scheduler:
    """runs N process bodies under a schedule (list of thread ids chosen at successive scheduling points)"""

    def __init__(self, bodies, vfs_init, prefix, horizon=400):
        self.bodies = bodies
        self.vfs = VFS()
        vfs_init(self.vfs)
        self.prefix = list(prefix)
        self.horizon = horizon
        self.n = len(bodies)
        self.sems = [threading.Semaphore(0) for _ in range(self.n)]
        self.done = [False] * self.n
        self.results = [None] * self.n
        self.errors = [None] * self.n
        self.hist = [[] for _ in range(self.n)]       # per process: sequence of observed results (defines its local state)
        self.current = None
        self.trace = []       # list of dicts: state key, enabled, chosen, running, label
        self.main_sem = threading.Semaphore(0)
        self.aborted = False
        self.stop_at = None   # callable(trace_entry) -> True to prune the execution
        self.pending = [None] * self.n
        self.preempts = 0
        self.sleeping = {}    # process -> file-system snapshot at the moment it went to sleep

    # ---- called from simulated processes
    def record_result(self, r):
        self.hist[self.current].append(r)

    def point(self, op, path):
        tid = self.current
        if self.aborted:
            raise Abort()
        self.pending[tid] = (op, path)
        # a process that waits (sleep inside a retry loop) yields: another process runs next if there is one - otherwise a spin-wait
        # could be scheduled forever and every waiting loop would look like a livelock
        if op == "sleep":
            self.sleeping[tid] = self.vfs.snapshot()      # blocked until the file system changes (see _schedule)
        self._schedule(tid, yielding=(op == "sleep"))
        if self.aborted:
            raise Abort()
        self.hist[tid].append((op, path))

    def _state_key(self):
        return (self.vfs.snapshot(), tuple(tuple(h) for h in self.hist), tuple(self.done), tuple(self.pending))

    def _schedule(self, running, yielding=False):
        alive = [i for i in range(self.n) if not self.done[i]]
        if not alive:
            return
        # waiting is modelled as blocking: a process that sleeps inside a retry loop is enabled again only after the file system has
        # changed (nothing it could be waiting for happens otherwise); if nobody else is enabled the waiters wait forever
        snap = self.vfs.snapshot() if self.sleeping else None
        for i in list(self.sleeping):
            if self.done[i] or self.sleeping[i] != snap:
                del self.sleeping[i]
        enabled = [i for i in alive if i not in self.sleeping]
        if not enabled:
            self.aborted = True
            self.horizon_hit = (alive, [self.hist[i][-3:] for i in alive], True)
            raise Abort()
        if yielding and len(enabled) > 1:
            enabled = [i for i in enabled if i != running]
            waiter, running = running, None
        else:
            waiter = None
        step = len(self.trace)
        if step >= self.horizon:
            self.aborted = True
            # who is still running, and is every one of them inside a waiting loop (nothing but lock attempts and sleeps lately)?
            unfinished = [i for i in range(self.n) if not self.done[i]]
            waiting = [all(h[0] in ("os-open", "sleep") for h in self.hist[i][-6:]) and len(self.hist[i]) >= 6 for i in unfinished]
            self.horizon_hit = (unfinished, [self.hist[i][-3:] for i in unfinished], bool(unfinished) and all(waiting))
            raise Abort()
        # canonical order: the running thread first if still enabled, then ascending ids
        order = ([running] if running is not None and running in enabled else []) + [i for i in enabled if i != running]
        if step < len(self.prefix):
            choice = self.prefix[step]
            if choice not in enabled:
                self.aborted = True
                self.divergence = "replayed choice %r not enabled at step %d (enabled %r)" % (choice, step, enabled)
                raise Abort()
        else:
            choice = order[0]
        entry = {"key": self._state_key(), "order": order, "chosen": choice, "running": running, "cost": self.preempts}
        if running is not None and running in enabled and choice != running:
            self.preempts += 1
        self.trace.append(entry)
        if step >= len(self.prefix) and self.stop_at is not None and self.stop_at(entry):
            self.aborted = True
            raise Abort()
        if waiter is not None:
            running = waiter
        if choice != running:
            self.current = choice
            self.sems[choice].release()
            if running is not None and not self.done[running]:
                self.sems[running].acquire()
                self.current = running

    # ---- thread bodies
    def _run_body(self, tid):
        self.sems[tid].acquire()
        self.current = tid
        try:
            if self.aborted:
                raise Abort()
            self.results[tid] = self.bodies[tid](self)
        except Abort:
            pass
        except BaseException as e:  # noqa
            self.errors[tid] = e
        self.done[tid] = True
        self.pending[tid] = None
        # hand over
        try:
            if not self.aborted:
                self._schedule(None)
        except Abort:
            pass
        if all(self.done) or self.aborted:
            # wake everybody so that threads can unwind
            for i in range(self.n):
                if not self.done[i]:
                    self.sems[i].release()
            self.main_sem.release()

    def run(self):
        self.divergence = None
        threads = [threading.Thread(target=self._run_body, args=(i,), daemon=True) for i in range(self.n)]
        for t in threads:
            t.start()
        # first decision: who starts
        try:
            self._schedule(None)
        except Abort:
            self.aborted = True
            for i in range(self.n):
                self.sems[i].release()
        self.main_sem.acquire()
        for t in threads:
            t.join(timeout=5)
        return self


# ------------------------------------------------------------------------------------------------ interposition
class Interposer:
    """patches builtins.open / os.path.exists / getmtime / makedirs / replace / remove / getpid for virtual paths"""

    def __init__(self):
        self.sched = None
        self.orig = {}

    def install(self):
        o = self.orig
        o["open"] = builtins.open
        o["exists"] = os.path.exists
        o["getmtime"] = os.path.getmtime
        o["makedirs"] = os.makedirs
        o["replace"] = os.replace
        o["rename"] = os.rename
        o["remove"] = os.remove
        o["getpid"] = os.getpid
        o["isfile"] = os.path.isfile
        o["fsync"] = os.fsync
        o["os_open"] = os.open
        o["os_close"] = os.close
        me = self

        def v(path):
            return isinstance(path, str) and path.startswith(VROOT)

        def vopen(path, mode="r", *a, **kw):
            if not v(path) or me.sched is None:
                return o["open"](path, mode, *a, **kw)
            s = me.sched
            if "r" in mode and "+" not in mode:
                s.point("open-r", path)
                if path not in s.vfs.files:
                    s.record_result(("open-r-missing", path))
                    raise FileNotFoundError(path)
                return VHandle(s, path, mode)
            if "x" in mode:
                s.point("open-x", path)
                if path in s.vfs.files:
                    s.record_result(("open-x-exists", path))
                    raise FileExistsError(path)
                s.vfs.files[path] = VFile("", s.vfs.tick())
                s.vfs.files[path].writers += 1
                return VHandle(s, path, mode)
            if "r" in mode and "+" in mode:
                s.point("open-r+", path)
                if path not in s.vfs.files:
                    raise FileNotFoundError(path)
                h = VHandle(s, path, "r+w")
                # r+ : reads see current content; writes overwrite from position 0 on close (no truncate unless asked)
                f = s.vfs.files[path]
                f.writers += 1
                orig_close = h.close

                def close_rplus():
                    if h.closed:
                        return
                    h.closed = True
                    s.point("close-w", path)
                    new = "".join(h.buf)
                    f.content = new + f.content[len(new):] if not getattr(h, "_truncated", False) else new
                    f.mtime = s.vfs.tick()
                    f.writers -= 1
                    if f.writers == 0:
                        f.committed.add(f.content)
                h.close = close_rplus

                def trunc(size=None):
                    h._truncated = True
                h.truncate = trunc
                return h
            # 'w' / 'a'
            s.point("open-" + mode[0], path)
            f = s.vfs.files.get(path)
            if f is None:
                f = s.vfs.files[path] = VFile("", s.vfs.tick())
            if "w" in mode:
                f.content = ""
                f.mtime = s.vfs.tick()
            f.writers += 1
            return VHandle(s, path, mode)

        def vexists(path):
            if not v(path) or me.sched is None:
                return o["exists"](path)
            s = me.sched
            s.point("exists", path)
            r = path in s.vfs.files or path.rstrip("/") in s.vfs.dirs
            s.record_result(("exists", path, r))
            return r

        def vgetmtime(path):
            if not v(path) or me.sched is None:
                return o["getmtime"](path)
            s = me.sched
            s.point("getmtime", path)
            if path not in s.vfs.files:
                raise FileNotFoundError(path)
            r = s.vfs.files[path].mtime
            s.record_result(("getmtime", path, r))
            return r

        def vmakedirs(path, mode=0o777, exist_ok=False):
            if not v(path) or me.sched is None:
                return o["makedirs"](path, mode, exist_ok)
            s = me.sched
            s.point("makedirs", path)
            p = path.rstrip("/")
            if p in s.vfs.dirs and not exist_ok:
                raise FileExistsError(path)
            while p and p != "/":
                s.vfs.dirs.add(p)
                p = os.path.dirname(p)

        def vreplace(src, dst, **kw):
            if not v(src) or me.sched is None:
                return o["replace"](src, dst, **kw)
            s = me.sched
            s.point("replace", dst)
            if src not in s.vfs.files:
                raise FileNotFoundError(src)
            s.vfs.files[dst] = s.vfs.files.pop(src)
            if s.vfs.files[dst].writers == 0:
                s.vfs.files[dst].committed.add(s.vfs.files[dst].content)

        def vremove(path, **kw):
            if not v(path) or me.sched is None:
                return o["remove"](path, **kw)
            s = me.sched
            s.point("remove", path)
            if path not in s.vfs.files:
                raise FileNotFoundError(path)
            del s.vfs.files[path]

        def vgetpid():
            if me.sched is None or me.sched.current is None:
                return o["getpid"]()
            return 1000 + me.sched.current

        def vfsync(fd):
            if me.sched is None or fd not in me.sched.vfs.fds:
                return o["fsync"](fd)
            me.sched.point("fsync", str(fd))

        def vos_open(path, flags, *a, **kw):
            if not v(path) or me.sched is None:
                return o["os_open"](path, flags, *a, **kw)
            s = me.sched
            s.point("os-open", path)
            if flags & os.O_CREAT:
                # lock-file idiom: O_CREAT|O_EXCL is an atomic test-and-create
                if path in s.vfs.files:
                    if flags & os.O_EXCL:
                        raise FileExistsError(path)
                else:
                    s.vfs.add(path, "")
                return s.vfs.new_fd(path)
            if path.rstrip("/") not in s.vfs.dirs and path not in s.vfs.files:
                raise FileNotFoundError(path)
            return s.vfs.new_fd(path)

        def vos_close(fd):
            if me.sched is None or fd not in me.sched.vfs.fds:
                return o["os_close"](fd)

        def vsleep(seconds):
            # waiting is a scheduling point, not real time
            if me.sched is None or me.sched.current is None:
                return o["sleep"](seconds)
            me.sched.point("sleep", "")

        def vglob(pattern, **kw):
            # directory listing of a virtual folder: one scheduling point, the matching files of that moment
            if not v(pattern) or me.sched is None:
                return o["glob"](pattern, **kw)
            import fnmatch
            s = me.sched
            d, mask = os.path.split(pattern)
            s.point("glob", d)
            r = sorted(p for p in s.vfs.files if os.path.dirname(p) == d and fnmatch.fnmatchcase(os.path.basename(p), mask))
            s.record_result(("glob", pattern, tuple(r)))
            return r

        import time as _time
        import glob as _glob
        o["sleep"] = _time.sleep
        o["glob"] = _glob.glob
        _time.sleep = vsleep
        _glob.glob = vglob
        builtins.open = vopen
        os.fsync = vfsync
        os.open = vos_open
        os.close = vos_close
        os.path.exists = vexists
        os.path.isfile = lambda p: vexists(p) if v(p) else o["isfile"](p)
        os.path.getmtime = vgetmtime
        os.makedirs = vmakedirs
        os.replace = vreplace
        os.rename = vreplace
        os.remove = vremove
        os.getpid = vgetpid

    def uninstall(self):
        o = self.orig
        builtins.open = o["open"]
        os.fsync = o["fsync"]
        os.open = o["os_open"]
        os.close = o["os_close"]
        os.path.exists = o["exists"]
        os.path.isfile = o["isfile"]
        os.path.getmtime = o["getmtime"]
        os.makedirs = o["makedirs"]
        os.replace = o["replace"]
        os.rename = o["rename"]
        os.remove = o["remove"]
        os.getpid = o["getpid"]
        import time as _time
        import glob as _glob
        _time.sleep = o["sleep"]
        _glob.glob = o["glob"]


# ------------------------------------------------------------------------------------------------ explorer
def explore(make_bodies, vfs_init, check, bound=None, max_exec=200000, interposer=None):
    """iterative preemption bounding with state deduplication.
       make_bodies() -> list of callables(sched) ; check(sched) -> list of (key, message) violations of a COMPLETE execution.
       A (state, next thread) pair is re-explored only if it is reached with fewer preemptions than before (so that the
       preemption bound and the deduplication do not hide each other's alternatives).
       returns dict(stats), list of violations [(key, message, schedule)]"""
    seen = {}              # (state key, thread chosen next) -> least number of preemptions with which it was reached
    stats = {"executions": 0, "states": 0, "transitions": 0, "pruned": 0, "max_depth": 0, "complete": 0, "capped": False}
    violations = {}
    outcomes = set()
    stack = [[]]
    while stack:
        prefix = stack.pop()
        if stats["executions"] >= max_exec:
            stats["capped"] = True
            break
        s = Scheduler(make_bodies(), vfs_init, prefix)
        plen = len(prefix)

        def stop_at(entry):
            k = (entry["key"], entry["chosen"])
            return k in seen and seen[k] <= entry["cost"]
        s.stop_at = stop_at
        interposer.sched = s
        s.run()
        interposer.sched = None
        stats["executions"] += 1
        if getattr(s, "divergence", None):
            raise RuntimeError("replay divergence: " + s.divergence)
        trace = s.trace
        stats["max_depth"] = max(stats["max_depth"], len(trace))
        pruned = s.aborted
        hh = getattr(s, "horizon_hit", None)
        if hh and hh[2] and "no-progress" not in violations:
            # waiting loops make the execution space cyclic: when the step horizon is reached and every unfinished process does nothing
            # but retry and sleep, nobody is left who could release what they wait for (livelock)
            violations["no-progress"] = ("the unfinished processes %s only wait (last operations %s) and nobody is left who could change what they "
                                         "are waiting for" % (hh[0], hh[1]), [e["chosen"] for e in trace])
        elif hh and not hh[2]:
            stats["capped"] = True          # an execution longer than the horizon that still makes progress: not fully explored
        if pruned:
            stats["pruned"] += 1
        else:
            stats["complete"] += 1
            choices = [e["chosen"] for e in trace]
            for key, msg in check(s):
                if key not in violations:
                    violations[key] = (msg, choices)
            outcomes.add(tuple(repr(r) for r in s.results) + tuple(type(e).__name__ if e else "" for e in s.errors))
        last = len(trace) - 1
        for i, e in enumerate(trace):
            if i < plen:
                continue
            k = (e["key"], e["chosen"])
            if pruned and i == last:
                continue          # the entry at which the execution was pruned: already explored with <= cost
            if k not in seen:
                stats["transitions"] += 1
                seen[k] = e["cost"]
            elif e["cost"] < seen[k]:
                seen[k] = e["cost"]
            for alt in e["order"]:
                if alt == e["chosen"]:
                    continue
                cost = e["cost"] + (1 if (e["running"] is not None and e["running"] in e["order"] and alt != e["running"]) else 0)
                if bound is not None and cost > bound:
                    continue
                ka = (e["key"], alt)
                if ka in seen and seen[ka] <= e["cost"]:
                    continue
                if ka not in seen:
                    stats["transitions"] += 1
                seen[ka] = e["cost"]          # reserved: the pushed prefix explores it
                stack.append([x["chosen"] for x in trace[:i]] + [alt])
    stats["states"] = len(set(k for k, _ in seen))
    stats["distinct_outcomes"] = len(outcomes)
    return stats, [(k, m, sch) for k, (m, sch) in violations.items()]
