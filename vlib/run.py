"""RUN — one simulated IsoQuant invocation = one forked child of a warm parent that calls isoquant.main(argv).

The child reproduces the semantics of isoquant.py's  __main__  block: SystemExit passes through, any other exception
is logged and becomes exit status 255.  HOME is private to the world.  stdout/stderr go to a file.
"""
import gzip
import os
import signal
import sys
import time
import traceback

from vlib import core

_isoquant = None


def warm():
    """import isoquant (from /repo's working tree) once in the parent"""
    global _isoquant
    if _isoquant is None:
        if core.REPO not in sys.path:
            sys.path.insert(0, core.REPO)
        import logging
        import isoquant
        _isoquant = isoquant
    return _isoquant


def _child(argv, home, stdout_path, pre_hook, cwd, post_hook=None):
    iso = warm()
    # the child may be forked from a daemonic harness worker; IsoQuant must be able to start its own process pool
    import multiprocessing
    multiprocessing.current_process()._config.pop("daemon", None)
    os.environ["HOME"] = home
    if cwd:
        os.chdir(cwd)
    fd = os.open(stdout_path, os.O_WRONLY | os.O_CREAT | os.O_TRUNC, 0o644)
    os.dup2(fd, 1)
    os.dup2(fd, 2)
    sys.stdout = os.fdopen(1, "w", buffering=1, closefd=False)
    sys.stderr = os.fdopen(2, "w", buffering=1, closefd=False)
    sys.argv = ["isoquant.py"] + list(argv)
    code = 0
    try:
        if pre_hook:
            pre_hook()
        iso.main(list(argv))
    except SystemExit as e:
        c = e.code
        if c is None:
            code = 0
        elif isinstance(c, int):
            code = c & 0xFF
        else:
            code = 1
    except KeyboardInterrupt:
        code = 130
    except BaseException:  # noqa
        traceback.print_exc()
        code = 255
    if post_hook:
        try:
            post_hook(code)
        except BaseException:  # noqa
            traceback.print_exc()
    try:
        sys.stdout.flush()
        sys.stderr.flush()
    except Exception:
        pass
    # run object finalisers like a normal interpreter exit would (TmpFileAssignmentPrinter.__del__ etc. already ran
    # by refcount); os._exit avoids running the parent's atexit handlers in the child
    os._exit(code)


def run_isoquant(argv, home, stdout_path=None, pre_hook=None, timeout=600, cwd=None, post_hook=None):
    """returns exit status (int); 1000+signal if killed by a signal; raises HarnessError on timeout"""
    warm()
    stdout_path = stdout_path or os.devnull
    sys.stdout.flush()
    sys.stderr.flush()
    pid = os.fork()
    if pid == 0:
        try:
            _child(argv, home, stdout_path, pre_hook, cwd, post_hook)
        finally:
            os._exit(254)
    t0 = time.time()
    while True:
        wpid, status = os.waitpid(pid, os.WNOHANG)
        if wpid == pid:
            break
        if time.time() - t0 > timeout:
            os.kill(pid, signal.SIGKILL)
            os.waitpid(pid, 0)
            raise core.HarnessError("isoquant run timed out: %s" % " ".join(argv))
        time.sleep(0.002)
    if os.WIFSIGNALED(status):
        return 1000 + os.WTERMSIG(status)
    return os.WEXITSTATUS(status)


def base_argv(paths, out, data_type="nanopore", prefix="OUT", threads=1, genedb=True, extra=()):
    argv = ["--output", out, "--reference", paths["ref"], "--bam", paths["bam"], "--data_type", data_type,
            "--prefix", prefix, "--threads", str(threads)]
    if genedb and paths.get("gtf"):
        argv += ["--genedb", paths["gtf"], "--complete_genedb"]
    argv += list(extra)
    return argv


# ------------------------------------------------------------------------------------------------ parsers
def _open(path):
    if path.endswith(".gz"):
        return gzip.open(path, "rt")
    return open(path)


def find(out, prefix, suffix):
    p = os.path.join(out, prefix, prefix + suffix)
    if os.path.exists(p):
        return p
    if os.path.exists(p + ".gz"):
        return p + ".gz"
    return None


def parse_assignments(path):
    """list of dicts from read_assignments.tsv(.gz)"""
    rows = []
    cols = ["read_id", "chr", "strand", "isoform_id", "gene_id", "assignment_type", "assignment_events", "exons",
            "additional_info"]
    if path is None:
        return rows
    with _open(path) as f:
        for l in f:
            if l.startswith("#read_id\t") or l.startswith("# ") or (l.startswith("#") and l.count("\t") < 5):
                continue          # header lines only: a read name may start with '#'
            v = l.rstrip("\n").split("\t")
            d = dict(zip(cols, v))
            d["exon_list"] = [tuple(map(int, x.split("-"))) for x in d["exons"].split(",")] if d.get("exons") not in (None, "", ".") else []
            info = {}
            for kv in d.get("additional_info", "").split(";"):
                kv = kv.strip()
                if "=" in kv:
                    k, val = kv.split("=", 1)
                    info[k.strip()] = val.strip()
            d["info"] = info
            rows.append(d)
    return rows


def parse_bed(path):
    rows = []
    if path is None:
        return rows
    with _open(path) as f:
        for l in f:
            if l.startswith("#") or not l.strip():
                continue
            v = l.rstrip("\n").split("\t")
            d = {"chr": v[0], "start": int(v[1]), "end": int(v[2]), "name": v[3], "score": v[4], "strand": v[5],
                 "thickStart": int(v[6]), "thickEnd": int(v[7]), "rgb": v[8], "blockCount": int(v[9]),
                 "blockSizes": [int(x) for x in v[10].strip(",").split(",") if x != ""],
                 "blockStarts": [int(x) for x in v[11].strip(",").split(",") if x != ""], "raw": l.rstrip("\n")}
            d["blocks"] = [(d["start"] + s + 1, d["start"] + s + z) for s, z in zip(d["blockStarts"], d["blockSizes"])]
            rows.append(d)
    return rows


def parse_counts(path):
    """ungrouped or linear/matrix tables: returns (header list, {feature: [values as str]})"""
    if path is None or not os.path.exists(path):
        return None, None
    header = None
    rows = {}
    order = []
    with _open(path) as f:
        for l in f:
            l = l.rstrip("\n")
            if l.startswith("#"):
                header = l[1:].split("\t")
                continue
            if not l:
                continue
            v = l.split("\t")
            rows.setdefault(v[0], []).append(v[1:])
            order.append(v[0])
    return header, rows


def parse_gtf(path):
    """returns list of records {chr, source, type, start, end, strand, attrs(dict), raw}"""
    recs = []
    if path is None:
        return recs
    with _open(path) as f:
        for l in f:
            if l.startswith("#") or not l.strip():
                continue
            v = l.rstrip("\n").split("\t")
            attrs = {}
            for kv in v[8].strip().split(";"):
                kv = kv.strip()
                if not kv:
                    continue
                k, _, val = kv.partition(" ")
                attrs[k] = val.strip().strip('"')
            recs.append({"chr": v[0], "source": v[1], "type": v[2], "start": int(v[3]), "end": int(v[4]),
                         "strand": v[6], "attrs": attrs, "raw": l.rstrip("\n")})
    return recs


def gtf_transcripts(recs):
    """{transcript_id: {"chr","strand","gene","exons":[(s,e)], "record": (s,e) or None, "n_records": int}}"""
    ts = {}
    for r in recs:
        if r["type"] == "gene":
            continue
        tid = r["attrs"].get("transcript_id")
        if tid is None:
            continue
        t = ts.setdefault(tid, {"chr": r["chr"], "strand": r["strand"], "gene": r["attrs"].get("gene_id"),
                                "exons": [], "record": None, "n_records": 0, "attrs": {}, "exon_ids": []})
        if r["type"] == "transcript":
            t["record"] = (r["start"], r["end"])
            t["n_records"] += 1
            t["attrs"] = r["attrs"]
            t["chr"], t["strand"], t["gene"] = r["chr"], r["strand"], r["attrs"].get("gene_id")
        elif r["type"] == "exon":
            t["exons"].append((r["start"], r["end"]))
            t["exon_ids"].append(r["attrs"].get("exon_id"))
    return ts


def read_tree(root, skip_aux=True):
    """{relative path: normalised bytes} for every file under root (gz decompressed, command-line header dropped)"""
    out = {}
    for dp, dn, fn in os.walk(root):
        rel = os.path.relpath(dp, root)
        if skip_aux and ("aux" in rel.split(os.sep)):
            continue
        for f in fn:
            p = os.path.join(dp, f)
            r = os.path.normpath(os.path.join(rel, f))
            out[r] = norm_file(p)
    return out


def norm_file(p):
    try:
        if p.endswith(".gz"):
            data = gzip.open(p, "rb").read()
        else:
            data = open(p, "rb").read()
    except Exception as e:  # noqa
        return b"<<unreadable: %s>>" % repr(e).encode()
    lines = [l for l in data.split(b"\n") if not l.startswith(b"# Command line") and not l.startswith(b"Command line")]
    return b"\n".join(lines)
