"""VPOOL — deterministic stand-in for concurrent.futures.ProcessPoolExecutor driven by a schedule.

A schedule is a list with one entry per pool stage (each ProcessPoolExecutor().map call, in program order); an entry is a
partition of the task indices into blocks.  Each block is executed by ONE forked child (a copy of the main process at
that moment, exactly what a fork-started worker is) that runs its tasks sequentially in submission order and sends the
pickled results back; map() yields results in submission order like the real one.  Every assignment of tasks to workers
the real pool can produce (chunksize=1, FIFO queue, any timing) is such a partition, and vice versa.
"""
import os
import pickle
import sys
import traceback


def set_partitions(n, max_blocks=None):
    """all partitions of range(n) into blocks (each block increasing, blocks ordered by first element)"""
    out = []

    def rec(i, blocks):
        if i == n:
            out.append([list(b) for b in blocks])
            return
        for b in blocks:
            b.append(i)
            rec(i + 1, blocks)
            b.pop()
        if max_blocks is None or len(blocks) < max_blocks:
            blocks.append([i])
            rec(i + 1, blocks)
            blocks.pop()
    rec(0, [])
    return out


class VirtualPool:
    schedule = None          # list of partitions (per stage) or None -> every task in its own worker
    stage = 0
    log = None               # optional list collecting (stage, n_tasks, partition)
    task_hook = None         # optional callable(stage, task_index) executed in the worker before the task; may return "skip"
    kill_main_after_stage = None   # stage index after whose workers the main process dies too (a kill of the whole run)

    def __init__(self, max_workers=None, *a, **kw):
        self.max_workers = max_workers

    def __enter__(self):
        return self

    def __exit__(self, *a):
        return False

    def shutdown(self, *a, **kw):
        pass

    def map(self, fn, *iterables, timeout=None, chunksize=1):
        tasks = list(zip(*iterables))
        n = len(tasks)
        stage = VirtualPool.stage
        VirtualPool.stage += 1
        sched = VirtualPool.schedule
        if sched is not None and stage < len(sched) and sched[stage] is not None:
            partition = sched[stage]
            flat = sorted(x for b in partition for x in b)
            if flat != list(range(n)):
                raise RuntimeError("VPOOL: partition %r does not match %d tasks of stage %d" % (partition, n, stage))
        else:
            partition = [[i] for i in range(n)]
        if VirtualPool.log is not None:
            VirtualPool.log.append((stage, n, partition))
        results = [None] * n
        for block in partition:
            r, w = os.pipe()
            sys.stdout.flush()
            sys.stderr.flush()
            pid = os.fork()
            if pid == 0:
                os.close(r)
                out = []
                try:
                    for i in block:
                        try:
                            if VirtualPool.task_hook is not None:
                                if VirtualPool.task_hook(stage, i) == "skip":
                                    continue          # this worker never got to start the task before the run was killed
                            out.append((i, True, fn(*tasks[i])))
                        except BaseException as e:  # noqa
                            out.append((i, False, (repr(e), traceback.format_exc())))
                    data = pickle.dumps(out, -1)
                except BaseException as e:  # noqa
                    data = pickle.dumps([(block[0], False, ("unpicklable result: %r" % e, traceback.format_exc()))], -1)
                try:
                    sys.stdout.flush()
                    sys.stderr.flush()
                except Exception:
                    pass
                with os.fdopen(w, "wb") as f:
                    f.write(data)
                os._exit(0)
            os.close(w)
            with os.fdopen(r, "rb") as f:
                data = f.read()
            _, status = os.waitpid(pid, 0)
            if not data:
                if VirtualPool.kill_main_after_stage == stage:
                    continue              # the worker was killed at its crash point; the whole run dies below
                raise RuntimeError("VPOOL worker for block %r died (status %r)" % (block, status))
            for i, ok, val in pickle.loads(data):
                results[i] = (ok, val)
        if VirtualPool.kill_main_after_stage == stage:
            os._exit(137)

        def gen():
            for i in range(n):
                if results[i] is None:
                    raise RuntimeError("VPOOL: task %d produced no result (worker died)" % i)
                ok, val = results[i]
                if not ok:
                    raise RuntimeError("worker task %d failed: %s\n%s" % (i, val[0], val[1]))
                yield val
        return gen()


def install(schedule, log=None, task_hook=None, kill_main_after_stage=None):
    """to be called inside the forked IsoQuant child (pre_hook)"""
    import src.dataset_processor as DP
    VirtualPool.schedule = schedule
    VirtualPool.stage = 0
    VirtualPool.log = log
    VirtualPool.task_hook = task_hook
    VirtualPool.kill_main_after_stage = kill_main_after_stage
    DP.ProcessPoolExecutor = VirtualPool
