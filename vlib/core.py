"""Core of the check framework: context, violations, known findings, replay files, evidence.

Every check module in props/ exposes  run(ctx)  and optionally  replay(ctx, case).
"""
import fnmatch
import hashlib
import json
import multiprocessing
import os
import random
import shutil
import subprocess
import sys
import tempfile
import time
import traceback

VERIF = os.path.dirname(os.path.dirname(os.path.abspath(__file__)))
REPO = os.environ.get("VERIF_REPO", "/repo")
# VERIF_REPO / VERIF_OUTDIR are for testing the machinery against seeded changes in a scratch worktree only (tools/seed_run_wt.sh):
# the registered commands never set them, so evidence always comes from /repo itself
OUTDIR = os.environ.get("VERIF_OUTDIR", VERIF)
NCPU = int(os.environ.get("VERIF_JOBS", "0")) or min(16, os.cpu_count() or 1)


class HarnessError(Exception):
    """The harness itself misbehaved (non-reproducible result, broken scratch...). Exit code 2, no VIOLATION."""


def digest(obj):
    return hashlib.sha1(json.dumps(obj, sort_keys=True, default=str).encode()).hexdigest()[:16]


def jsonable(o):
    """Best-effort conversion to JSON-serialisable structure."""
    if isinstance(o, dict):
        return {str(k): jsonable(v) for k, v in o.items()}
    if isinstance(o, (list, tuple)):
        return [jsonable(x) for x in o]
    if isinstance(o, (set, frozenset)):
        return sorted((jsonable(x) for x in o), key=lambda x: json.dumps(x, sort_keys=True, default=str))
    if isinstance(o, (str, int, float, bool)) or o is None:
        return o
    return str(o)


class Ctx:
    def __init__(self, prop, tier, seed, level):
        self.prop = prop
        self.tier = tier
        self.seed = seed
        self.level = level
        self.rng = random.Random(seed)
        self.t0 = time.time()
        self.violations = []          # (key, message, replay_path)
        self.known_hits = {}          # key pattern -> count
        self._viol_keys = set()
        self.coverage = {}
        self.assumptions = []
        self.notes = []
        self._scratch = None
        self.known = self._load_known()
        self.max_reported = 25

    # ---------------------------------------------------------------- scratch
    @property
    def scratch(self):
        if self._scratch is None:
            base = os.environ.get("VERIF_SCRATCH")
            if base:
                os.makedirs(base, exist_ok=True)
            self._scratch = tempfile.mkdtemp(prefix="verif_%s_" % self.prop, dir=base)
        return self._scratch

    def cleanup(self):
        if self._scratch and os.path.isdir(self._scratch):
            shutil.rmtree(self._scratch, ignore_errors=True)

    # ---------------------------------------------------------------- known findings
    def _load_known(self):
        path = os.path.join(VERIF, "known_findings.json")
        if not os.path.exists(path):
            return []
        data = json.load(open(path))
        return [f for f in data.get("findings", []) if f.get("property") == self.prop]

    def known_match(self, key):
        for f in self.known:
            pat = f["key"]
            if key == pat or (f.get("glob") and fnmatch.fnmatchcase(key, pat)):
                return f
        return None

    # ---------------------------------------------------------------- violations
    def violation(self, key, message, case=None):
        """Report a violation identified by a structural key. Known findings are counted, not failed."""
        f = self.known_match(key)
        if f is not None:
            self.known_hits[f["key"]] = self.known_hits.get(f["key"], 0) + 1
            return False
        if key in self._viol_keys:
            return True
        self._viol_keys.add(key)
        path = None
        if len(self.violations) < self.max_reported:
            d = os.path.join(OUTDIR, "replays", self.prop)
            os.makedirs(d, exist_ok=True)
            path = os.path.join(d, digest([key, jsonable(case)]) + ".json")
            with open(path, "w") as fh:
                json.dump({"property": self.prop, "key": key, "message": message, "case": jsonable(case)},
                          fh, indent=1, sort_keys=True)
        self.violations.append((key, message, path))
        return True

    def note(self, s):
        self.notes.append(s)
        print("[%s] %s" % (self.prop, s), flush=True)

    # ---------------------------------------------------------------- evidence
    def write_evidence(self):
        cov = dict(self.coverage)
        cov.setdefault("samples", [])
        cov["samples"] = jsonable(cov["samples"])[:8]
        if not cov["samples"]:
            cov["samples"] = ["(none recorded)"]
        cov["known_findings_hit"] = dict(self.known_hits)
        if self.notes:
            cov["notes"] = self.notes[-40:]
        ev = {
            "property_id": self.prop,
            "tier": self.tier,
            "seed": self.seed,
            "level": self.level,
            "coverage": jsonable(cov),
            "assumptions": list(self.assumptions),
            "wall_s": round(time.time() - self.t0, 2),
            "violations": len(self.violations),
        }
        d = os.path.join(OUTDIR, "evidence")
        os.makedirs(d, exist_ok=True)
        path = os.path.join(d, self.prop + ".json")
        tmp = path + ".tmp%d" % os.getpid()
        with open(tmp, "w") as fh:
            json.dump(ev, fh, indent=1, sort_keys=True)
        os.replace(tmp, path)
        validate_evidence(path)
        return path

    def finish(self):
        for f in self.known:
            if f["key"] in self.known_hits:
                print("KNOWN-FINDING: property=%s %s [key=%s, %d case(s)]" %
                      (self.prop, f["what"], f["key"], self.known_hits[f["key"]]), flush=True)
        path = self.write_evidence()
        for key, msg, rp in self.violations[: self.max_reported]:
            print("  violation key=%s: %s" % (key, msg), flush=True)
        if self.violations:
            for key, msg, rp in self.violations:
                if rp:
                    print("VIOLATION property=%s replay=%s" % (self.prop, rp), flush=True)
            if len(self.violations) > self.max_reported:
                print("(+%d more violations not written as replay files)" %
                      (len(self.violations) - self.max_reported))
            return 1
        print("[%s] OK tier=%s seed=%d wall=%.1fs evidence=%s" %
              (self.prop, self.tier, self.seed, time.time() - self.t0, path), flush=True)
        return 0


def validate_evidence(path):
    """Validate against the published schema using the tooling venv (jsonschema lives there); internal check otherwise."""
    schema = "/root/.vp/EVIDENCE.schema.json"
    vt = shutil.which("python3-vt")
    if vt and os.path.exists(schema):
        code = ("import json,sys,jsonschema;"
                "jsonschema.validate(json.load(open(sys.argv[1])), json.load(open(sys.argv[2])))")
        r = subprocess.run([vt, "-c", code, path, schema], capture_output=True, text=True)
        if r.returncode != 0:
            raise HarnessError("evidence file does not validate: " + r.stderr[-800:])
        return
    ev = json.load(open(path))
    cov = ev["coverage"]
    if ev["level"] in ("exploration", "fault_enumeration"):
        assert cov["evaluations"] >= 1 and cov["distinct_nontrivial"] >= 2 and cov["samples"] and "rule" in cov
    elif ev["level"] == "model_checking":
        assert cov["states"] >= 1 and cov["transitions"] >= 1 and cov["samples"]


# -------------------------------------------------------------------- parallel map (harness workers)
def _init_worker():
    sys.setrecursionlimit(10000)


def pmap(fn, items, jobs=None, chunksize=1, ordered=True):
    """Run fn over items in forked harness workers (these are not part of any explored schedule)."""
    items = list(items)
    jobs = jobs or NCPU
    if jobs <= 1 or len(items) <= 1:
        return [fn(x) for x in items]
    ctx = multiprocessing.get_context("fork")
    with ctx.Pool(min(jobs, len(items)), initializer=_init_worker) as pool:
        it = pool.imap(fn, items, chunksize) if ordered else pool.imap_unordered(fn, items, chunksize)
        return list(it)


def chunks(seq, n):
    seq = list(seq)
    k = max(1, (len(seq) + n - 1) // n)
    return [seq[i:i + k] for i in range(0, len(seq), k)]
