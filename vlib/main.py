"""Entry point:  check <Cnn> [--tier quick|thorough] [--replay path]"""
import argparse
import importlib
import json
import os
import sys
import traceback
import warnings

warnings.filterwarnings("ignore")
HERE = os.path.dirname(os.path.abspath(__file__))
VERIF = os.path.dirname(HERE)
sys.path.insert(0, VERIF)

from vlib import core  # noqa: E402
import logging  # noqa: E402
_l = logging.getLogger('IsoQuant')
_l.addHandler(logging.NullHandler())
_l.propagate = False

LEVELS = {}


def main():
    ap = argparse.ArgumentParser()
    ap.add_argument("prop")
    ap.add_argument("--tier", default=os.environ.get("VERIF_TIER", "quick"), choices=["quick", "thorough"])
    ap.add_argument("--replay", default=None)
    ap.add_argument("--seed", type=int, default=int(os.environ.get("VERIF_SEED", "0") or 0))
    args = ap.parse_args()
    prop = args.prop.upper()
    # the code under test is /repo's working tree
    sys.path.insert(0, core.REPO)
    try:
        mod = importlib.import_module("props." + prop.lower())
    except ImportError:
        traceback.print_exc()
        print("no check module for", prop)
        return 2
    ctx = core.Ctx(prop, args.tier, args.seed, getattr(mod, "LEVEL", "exploration"))
    try:
        if args.replay:
            data = json.load(open(args.replay))
            if not hasattr(mod, "replay"):
                print("replay not supported by", prop)
                return 2
            res = mod.replay(ctx, data["case"])
            if res:
                print("REPLAY reproduces: %s" % (res,))
                print("VIOLATION property=%s replay=%s" % (prop, args.replay))
                return 1
            print("REPLAY: no violation")
            return 0
        mod.run(ctx)
        return ctx.finish()
    except core.HarnessError as e:
        print("HARNESS ERROR:", e, file=sys.stderr)
        return 2
    except Exception:
        traceback.print_exc()
        print("HARNESS ERROR: unexpected exception in check", file=sys.stderr)
        return 2
    finally:
        ctx.cleanup()


if __name__ == "__main__":
    sys.exit(main())
